(* C08, concurrency level: any number of threads, each with its own generator, under any schedule.

   MODELLING ASSUMPTION (the only one).  `BafflingRecursiveIsotopicPatternGenerator::isotopic_variants` takes
   `&mut self`: Rust's borrow rules make a call exclusive on its generator object for its whole duration, so no two
   calls on ONE generator overlap, and a generator owned by one thread is invisible to every other thread.  The
   generator's cache (`parameter_cache`) is the only mutable state a call reads or writes; the free function
   `isotopic_variants` has no state at all; the one thing threads share is the immutable `PERIODIC_TABLE` (in the
   model a request already carries the `elem` records it read from the table, so the table is a constant).  Calls
   of different threads therefore touch disjoint mutable state, and any fine-grained overlap of two such calls is
   indistinguishable from running them one after the other in either order.  Hence the model: ONE ATOMIC STEP PER
   CALL.  A system state maps a thread id to that thread's private cache; a schedule is an arbitrary list of
   (thread id, call); a step runs the one-generator step function `gen_call` of BrainSpec.v (= `gen_step` of
   Brain.v, unchanged) on the scheduled thread's component and leaves every other component as it is.  Nothing bounds
   the number of threads, the number of steps, or the order of the schedule.

   Like BrainCache.v this file is purely structural: no law of the numeric interface is used, so everything holds
   for every `Num`, and for IEEE doubles bit for bit. *)
From Coq Require Import List ZArith NArith Bool Arith String Lia.
From CE Require Import Num Str TableTypes TableModel Comp Mz Peak Poisson Brain BrainSpec BrainCache.
Import ListNotations.
Local Open Scope nat_scope.

(* ---- projections of a thread-tagged list to one thread ---- *)
Section Proj.
  Context {X : Type}.
  (* the entries tagged t, in order *)
  Definition proj (t : nat) (l : list (nat * X)) : list X :=
    map snd (filter (fun e => Nat.eqb (fst e) t) l).

  Lemma proj_cons_eq t x l : proj t ((t, x) :: l) = x :: proj t l.
  Proof. unfold proj. cbn [filter fst]. rewrite Nat.eqb_refl. reflexivity. Qed.

  Lemma proj_cons_neq t u x l : u <> t -> proj t ((u, x) :: l) = proj t l.
  Proof.
    intros Hne. unfold proj. cbn [filter fst].
    destruct (Nat.eqb u t) eqn:E; [apply Nat.eqb_eq in E; contradiction|reflexivity].
  Qed.

  Lemma proj_app t l l' : proj t (l ++ l') = proj t l ++ proj t l'.
  Proof. unfold proj. rewrite filter_app, map_app. reflexivity. Qed.

  (* a tagged list is determined by its sequence of tags and its projections *)
  Lemma proj_determines : forall l l' : list (nat * X),
    map fst l = map fst l' -> (forall t, proj t l = proj t l') -> l = l'.
  Proof.
    induction l as [|[u x] l IH]; intros [|[u' x'] l'] Ht Hp; cbn [map fst] in Ht; try discriminate Ht; [reflexivity|].
    injection Ht as Hu Ht. subst u'.
    pose proof (Hp u) as Hpu. rewrite !proj_cons_eq in Hpu. injection Hpu as Hx Hpu. subst x'.
    f_equal. apply IH; [exact Ht|].
    intros t. pose proof (Hp t) as H. destruct (Nat.eq_dec u t) as [->|Hne].
    - rewrite !proj_cons_eq in H. injection H as H. exact H.
    - rewrite !proj_cons_neq in H by exact Hne. exact H.
  Qed.
End Proj.

Lemma proj_map {X Y : Type} (f : X -> Y) t (l : list (nat * X)) :
  proj t (map (fun e => (fst e, f (snd e))) l) = map f (proj t l).
Proof.
  induction l as [|[u x] l IH]; [reflexivity|]. cbn [map fst snd].
  destruct (Nat.eq_dec u t) as [->|Hne].
  - repeat rewrite proj_cons_eq. cbn [map]. rewrite IH. reflexivity.
  - repeat rewrite proj_cons_neq by exact Hne. exact IH.
Qed.

(* ==================================== the model ==================================== *)
Section Model.
  Context {F : Type} (N : Num F).

  (* what a call returns (None = the Rust code panics) *)
  Definition output := option (list (F * F)).

  (* a call is made either on the calling thread's own generator or to the stateless free function *)
  Inductive call := OnGenerator (r : request (F:=F)) | Free (r : request (F:=F)).
  Definition call_req (c : call) : request (F:=F) := match c with OnGenerator r => r | Free r => r end.
  (* the requests that reach a generator *)
  Fixpoint gen_reqs (cs : list call) : list (request (F:=F)) :=
    match cs with
    | [] => []
    | OnGenerator r :: rest => r :: gen_reqs rest
    | Free _ :: rest => gen_reqs rest
    end.

  (* ---- one thread on its own ---- *)
  Definition thread_step (ch : cache (F:=F)) (c : call) : output * cache (F:=F) :=
    match c with
    | OnGenerator r => gen_call N ch r
    | Free r => (stateless N r, ch)
    end.
  (* outputs in order, and the final cache *)
  Fixpoint thread_run (ch : cache (F:=F)) (cs : list call) : list output * cache (F:=F) :=
    match cs with
    | [] => ([], ch)
    | c :: rest => let oc := thread_step ch c in
                   let rs := thread_run (snd oc) rest in
                   (fst oc :: fst rs, snd rs)
    end.

  (* ---- the system: one private cache per thread id ---- *)
  Definition sys := nat -> cache (F:=F).
  Definition sys_init : sys := fun _ => [].
  Definition upd (st : sys) (t : nat) (ch : cache (F:=F)) : sys := fun t' => if Nat.eqb t' t then ch else st t'.

  Definition event := (nat * call)%type.
  Definition schedule := list event.

  (* one atomic step: thread (fst ev) performs the call (snd ev) *)
  Definition sys_step (st : sys) (ev : event) : output * sys :=
    match snd ev with
    | OnGenerator r => let oc := gen_call N (st (fst ev)) r in (fst oc, upd st (fst ev) (snd oc))
    | Free r => (stateless N r, st)
    end.
  (* the trace (who received what, in schedule order) and the final system state *)
  Fixpoint sys_run (st : sys) (sched : schedule) : list (nat * output) * sys :=
    match sched with
    | [] => ([], st)
    | ev :: rest => let os := sys_step st ev in
                    let rs := sys_run (snd os) rest in
                    ((fst ev, fst os) :: fst rs, snd rs)
    end.

  (* ==================================== proofs ==================================== *)
  Lemma thread_run_cons ch c rest :
    thread_run ch (c :: rest)
    = (fst (thread_step ch c) :: fst (thread_run (snd (thread_step ch c)) rest),
       snd (thread_run (snd (thread_step ch c)) rest)).
  Proof. reflexivity. Qed.

  Lemma sys_run_cons st ev rest :
    sys_run st (ev :: rest)
    = ((fst ev, fst (sys_step st ev)) :: fst (sys_run (snd (sys_step st ev)) rest),
       snd (sys_run (snd (sys_step st ev)) rest)).
  Proof. reflexivity. Qed.

  Lemma upd_same st t ch : upd st t ch t = ch.
  Proof. unfold upd. rewrite Nat.eqb_refl. reflexivity. Qed.

  Lemma upd_other st t ch t' : t' <> t -> upd st t ch t' = st t'.
  Proof.
    intros Hne. unfold upd. destruct (Nat.eqb t' t) eqn:E; [apply Nat.eqb_eq in E; contradiction|reflexivity].
  Qed.

  (* 1. frame: a step of one thread leaves every other thread's generator as it was *)
  Theorem interleave_frame : forall (st : sys) (ev : event) t,
    t <> fst ev -> snd (sys_step st ev) t = st t.
  Proof.
    intros st [u [r|r]] t Hne; unfold sys_step; cbn [fst snd] in *; [|reflexivity].
    apply upd_other. exact Hne.
  Qed.

  (* the scheduled thread itself sees exactly the one-generator step on its own component *)
  Lemma sys_step_own : forall (st : sys) t c,
    fst (sys_step st (t, c)) = fst (thread_step (st t) c)
    /\ snd (sys_step st (t, c)) t = snd (thread_step (st t) c).
  Proof.
    intros st t [r|r]; unfold sys_step, thread_step; cbn [fst snd]; [|split; reflexivity].
    rewrite upd_same. split; reflexivity.
  Qed.

  (* 2. projection, from any system state *)
  Lemma interleave_projection_from : forall (sched : schedule) (st : sys) t,
    snd (sys_run st sched) t = snd (thread_run (st t) (proj t sched))
    /\ proj t (fst (sys_run st sched)) = fst (thread_run (st t) (proj t sched)).
  Proof.
    induction sched as [|[u c] rest IH]; intros st t; [split; reflexivity|].
    rewrite sys_run_cons. cbn [fst snd].
    destruct (IH (snd (sys_step st (u, c))) t) as [IH1 IH2].
    destruct (Nat.eq_dec u t) as [->|Hne].
    - rewrite (proj_cons_eq (X:=call)), (proj_cons_eq (X:=output)), thread_run_cons. cbn [fst snd].
      destruct (sys_step_own st t c) as [Ho Hs].
      rewrite IH1, IH2, Ho, Hs. split; reflexivity.
    - rewrite (proj_cons_neq (X:=call)), (proj_cons_neq (X:=output)) by exact Hne.
      assert (Hfr : snd (sys_step st (u, c)) t = st t).
      { apply interleave_frame. cbn [fst]. intros E. apply Hne. symmetry. exact E. }
      rewrite IH1, IH2, Hfr. split; reflexivity.
  Qed.

  (* 2. for every schedule and every thread t: the final generator state of t, and the outputs delivered to t, are
     those of t running its own calls alone, in order, on a fresh generator *)
  Theorem interleave_projection : forall (sched : schedule) t,
    snd (sys_run sys_init sched) t = snd (thread_run [] (proj t sched))
    /\ proj t (fst (sys_run sys_init sched)) = fst (thread_run [] (proj t sched)).
  Proof. intros sched t. exact (interleave_projection_from sched sys_init t). Qed.

  (* the cache of a thread running alone is the cache C08 speaks about: gen_run of the requests it sent to its
     generator (stateless calls leave no trace) *)
  Lemma thread_run_cache : forall (cs : list call) ch,
    snd (thread_run ch cs) = fold_left (fun ch r => snd (gen_call N ch r)) (gen_reqs cs) ch.
  Proof.
    induction cs as [|[r|r] cs IH]; intros ch; [reflexivity| |]; rewrite thread_run_cons; cbn [fst snd gen_reqs fold_left thread_step];
      apply IH.
  Qed.

  Corollary interleave_final_cache : forall (sched : schedule) t,
    snd (sys_run sys_init sched) t = gen_run N (gen_reqs (proj t sched)).
  Proof.
    intros sched t. destruct (interleave_projection sched t) as [H _]. rewrite H. apply thread_run_cache.
  Qed.

  (* reqs_ok only looks at which requests occur *)
  Lemma reqs_ok_incl (l l' : list (request (F:=F))) : incl l l' -> reqs_ok l' -> reqs_ok l.
  Proof.
    intros Hi [H1 H2]. split.
    - intros r en Hr Hen. apply (H1 r en (Hi r Hr) Hen).
    - intros r r' en en' Hr Hr' Hen Hen' Hs. apply (H2 r r' en en' (Hi r Hr) (Hi r' Hr') Hen Hen' Hs).
  Qed.

  (* one thread alone, continuing after any history `pre`: every answer is the stateless one *)
  Lemma thread_run_stateless : forall (cs : list call) (pre : list (request (F:=F))),
    reqs_ok (pre ++ gen_reqs cs) ->
    fst (thread_run (gen_run N pre) cs) = map (fun c => stateless N (call_req c)) cs.
  Proof.
    induction cs as [|[r|r] cs IH]; intros pre Hok; [reflexivity| |];
      rewrite thread_run_cons; cbn [thread_step map call_req fst snd gen_reqs] in *.
    - f_equal.
      + apply (generator_pure N). apply (reqs_ok_incl (r :: pre) (pre ++ r :: gen_reqs cs)); [|exact Hok].
        intros x [<-|Hx]; apply in_or_app; [right; left; reflexivity|left; exact Hx].
      + assert (E : @snd output _ (gen_call N (gen_run N pre) r) = gen_run N (pre ++ [r])).
        { unfold gen_run. rewrite fold_left_app. reflexivity. }
        rewrite E. apply IH. rewrite <- app_assoc. exact Hok.
    - f_equal. apply IH. exact Hok.
  Qed.

  Lemma trace_tids : forall (sched : schedule) (st : sys), map fst (fst (sys_run st sched)) = map fst sched.
  Proof.
    induction sched as [|ev rest IH]; intros st; [reflexivity|].
    rewrite sys_run_cons. cbn [fst map]. rewrite IH. reflexivity.
  Qed.

  (* 3. every output of every step of every schedule is the stateless function's answer to that step's request:
     the whole trace is the schedule with each call replaced by `stateless` of its request.
     The hypothesis is per thread: the requests ONE thread sends to ITS generator must be readable and must not use one
     symbol for two different elements (the hypothesis of C08_generator_pure); nothing relates the requests of
     different threads, and stateless calls need nothing. *)
  Theorem interleave_outputs_stateless : forall (sched : schedule),
    (forall t, reqs_ok (gen_reqs (proj t sched))) ->
    fst (sys_run sys_init sched) = map (fun ev => (fst ev, stateless N (call_req (snd ev)))) sched.
  Proof.
    intros sched Hok. apply proj_determines.
    - rewrite trace_tids, map_map. reflexivity.
    - intros t. destruct (interleave_projection sched t) as [_ Ho]. rewrite Ho.
      transitivity (map (fun c => stateless N (call_req c)) (proj t sched)).
      + apply (thread_run_stateless (proj t sched) []). exact (Hok t).
      + symmetry. apply (proj_map (fun c => stateless N (call_req c)) t sched).
  Qed.

  (* the same under the simpler (stronger) hypothesis on all generator requests of the schedule together *)
  Lemma gen_reqs_proj_incl : forall (sched : schedule) t, incl (gen_reqs (proj t sched)) (gen_reqs (map snd sched)).
  Proof.
    induction sched as [|[u c] rest IH]; intros t; [intros x Hx; exact Hx|].
    cbn [map snd]. destruct (Nat.eq_dec u t) as [->|Hne].
    - rewrite (proj_cons_eq (X:=call)). destruct c as [r|r]; cbn [gen_reqs]; [|apply IH].
      intros x [<-|Hx]; [left; reflexivity|right; apply (IH t x Hx)].
    - rewrite (proj_cons_neq (X:=call)) by exact Hne. destruct c as [r|r]; cbn [gen_reqs]; [|apply IH].
      intros x Hx. right. apply (IH t x Hx).
  Qed.

  Corollary interleave_outputs_stateless_global : forall (sched : schedule),
    reqs_ok (gen_reqs (map snd sched)) ->
    fst (sys_run sys_init sched) = map (fun ev => (fst ev, stateless N (call_req (snd ev)))) sched.
  Proof.
    intros sched Hok. apply interleave_outputs_stateless.
    intros t. apply (reqs_ok_incl _ _ (gen_reqs_proj_incl sched t) Hok).
  Qed.

  (* 4. what a thread receives, and the state its generator ends in, depend on that thread's own calls only.
     No hypothesis on the requests: this holds even where the cache of ONE generator would change its results
     (a symbol used for two different elements). *)
  Lemma interleave_thread_local : forall (s1 s2 : schedule) t,
    proj t s1 = proj t s2 ->
    proj t (fst (sys_run sys_init s1)) = proj t (fst (sys_run sys_init s2))
    /\ snd (sys_run sys_init s1) t = snd (sys_run sys_init s2) t.
  Proof.
    intros s1 s2 t E.
    destruct (interleave_projection s1 t) as [S1 O1]. destruct (interleave_projection s2 t) as [S2 O2].
    rewrite S1, O1, S2, O2, E. split; reflexivity.
  Qed.

  Theorem interleave_schedule_irrelevant : forall (s1 s2 : schedule),
    (forall t, proj t s1 = proj t s2) ->
    forall t, proj t (fst (sys_run sys_init s1)) = proj t (fst (sys_run sys_init s2))
              /\ snd (sys_run sys_init s1) t = snd (sys_run sys_init s2) t.
  Proof. intros s1 s2 E t. apply interleave_thread_local. exact (E t). Qed.
End Model.

(* ==================================== non-vacuity ==================================== *)
(* three threads, eight steps, the two requests of the C08 example (C6H12 and H2O, sharing hydrogen, asking for a
   different number of terms) on the regenerated table in exact arithmetic.  Thread 0 and thread 1 send both requests
   to their generators in opposite orders, thread 2 calls the free function and its generator once each; thread 1 ends
   with a stateless call.  The trace is computed by running the model, not by the theorems. *)
From Coq Require Import QArith Qcanon.
From CE Require Import NumQc Table.
Local Open Scope nat_scope.
Definition cc_el (s : string) : elem := match tbl_get s (build_table table_src) with Some e => e | None => elem0 end.
Definition cc_C : elem := Eval vm_compute in cc_el "C".
Definition cc_H : elem := Eval vm_compute in cc_el "H".
Definition cc_O : elem := Eval vm_compute in cc_el "O".
Definition cc_r1 : request (F:=Qc) := mkReq [(cc_C, 6%Z); (cc_H, 12%Z)] 3%Z (Q2Qc 1) 1%Z (PROTON NumQc).
Definition cc_r2 : request (F:=Qc) := mkReq [(cc_H, 2%Z); (cc_O, 1%Z)] 2%Z (Q2Qc 1) 0%Z (PROTON NumQc).
Definition cc_sched : schedule (F:=Qc) :=
  [ (0, OnGenerator cc_r1); (1, OnGenerator cc_r2); (2, Free cc_r1); (0, OnGenerator cc_r2);
    (1, OnGenerator cc_r1); (2, OnGenerator cc_r2); (0, OnGenerator cc_r1); (1, Free cc_r2) ].
(* the same calls per thread, scheduled thread after thread *)
Definition cc_sched' : schedule (F:=Qc) :=
  [ (2, Free cc_r1); (2, OnGenerator cc_r2);
    (1, OnGenerator cc_r2); (1, OnGenerator cc_r1); (1, Free cc_r2);
    (0, OnGenerator cc_r1); (0, OnGenerator cc_r2); (0, OnGenerator cc_r1) ].

Lemma cc_reqs_ok : reqs_ok [cc_r1; cc_r2].
Proof.
  split.
  - intros r en Hr Hen.
    assert (Hc : In en (rq_comp cc_r1) \/ In en (rq_comp cc_r2)).
    { destruct Hr as [<-|[<-|[]]]; auto. }
    destruct Hc as [H|H]; cbn in H; destruct H as [<-|[<-|[]]]; vm_compute; reflexivity.
  - intros r r' en en' Hr Hr' Hen Hen' Hs.
    assert (Hc : In en (rq_comp cc_r1) \/ In en (rq_comp cc_r2)) by (destruct Hr as [<-|[<-|[]]]; auto).
    assert (Hc' : In en' (rq_comp cc_r1) \/ In en' (rq_comp cc_r2)) by (destruct Hr' as [<-|[<-|[]]]; auto).
    destruct Hc as [H|H]; cbn in H; destruct H as [<-|[<-|[]]];
    destruct Hc' as [H'|H']; cbn in H'; destruct H' as [<-|[<-|[]]];
    first [reflexivity | (exfalso; vm_compute in Hs; discriminate Hs)].
Qed.

Example interleave_nonvacuous :
  (* the hypothesis of interleave_outputs_stateless holds *)
  (forall t, reqs_ok (gen_reqs (proj t cc_sched)))
  (* who received how many peaks, step by step: nobody panicked *)
  /\ map (fun o => (fst o, option_map (@List.length _) (snd o))) (fst (sys_run NumQc sys_init cc_sched))
     = [(0, Some 4); (1, Some 3); (2, Some 4); (0, Some 3); (1, Some 4); (2, Some 3); (0, Some 4); (1, Some 3)]
  (* the trace is the stateless one (here by evaluation) *)
  /\ fst (sys_run NumQc sys_init cc_sched) = map (fun ev => (fst ev, stateless NumQc (call_req (snd ev)))) cc_sched
  (* the generators really hold different private state at the end: cached (symbol, order) of threads 0..3
     (thread 0 computed hydrogen afresh for the larger request, thread 1 found the constants of its earlier smaller
     request sufficient; thread 3 never ran) *)
  /\ map (fun t => map (fun kv => (fst kv, ph_order (snd kv))) (snd (sys_run NumQc sys_init cc_sched) t)) [0; 1; 2; 3]
     = [[("O", 4%Z); ("C", 5%Z); ("H", 5%Z)]; [("O", 4%Z); ("C", 5%Z); ("H", 4%Z)]; [("H", 4%Z); ("O", 4%Z)]; []]%string
  (* the sequential schedule has the same projections, hence (and by evaluation) the same per-thread outputs *)
  /\ (forall t, proj t cc_sched = proj t cc_sched')
  /\ cc_sched <> cc_sched'
  /\ map (fun t => proj t (fst (sys_run NumQc sys_init cc_sched))) [0; 1; 2]
     = map (fun t => proj t (fst (sys_run NumQc sys_init cc_sched'))) [0; 1; 2].
Proof.
  split; [|split; [|split; [|split; [|split; [|split]]]]].
  - intros t. apply (reqs_ok_incl _ [cc_r1; cc_r2]); [|exact cc_reqs_ok].
    destruct t as [|[|[|t]]]; intros x Hx; cbn in Hx; repeat (destruct Hx as [<-|Hx]; [cbn; auto|]); destruct Hx.
  - vm_compute. reflexivity.
  - vm_compute. reflexivity.
  - vm_compute. reflexivity.
  - intros t. destruct t as [|[|[|t]]]; reflexivity.
  - intros E. discriminate E.
  - vm_compute. reflexivity.
Qed.
Print Assumptions interleave_nonvacuous.
