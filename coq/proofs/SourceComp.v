(* Source-level corollaries (SourceComp): property theorems restated about the generated definitions, through the tie lemmas. *)
From Coq Require Import String ZArith NArith Arith List Bool Permutation Sorted Lia.
From CE Require Import Num OField.
From CE Require Import Str TableTypes TableModel Comp ESpec CompOps CompSpec CompInv CompArith CompSim.
From CE Require Import ImpL ImpE ImpC ImpP ESpecGen ESpecTie CompGen CompTie PropsGen PropsTie.
Import ListNotations.
Local Open Scope nat_scope.


Section CompSrc.
  Context {F : Type} (N : Num F).
  Variable tbl : ptable.
  Variable ua : char -> bool.
  Notation ccomp := (ccomp F).
  Notation acomp := (acomp F).
  Notation clike := (clike F).
  Notation idS := (fun m : sents => m).
  Notation idE := (fun l : ents => l).
  (* the entries of a container of the source, read through the keys (symbol text, isotope) *)
  Notation ents_of c := (keys_of (composition c)).

  Lemma idE_perm : forall l : ents, Permutation (idE l) l.
  Proof. intros l. apply Permutation_refl. Qed.

  Lemma aorc_id : forall a : acomp, aorc a idS idE.
  Proof. intros [c|c]; cbn [aorc]; [exact I | split; reflexivity]. Qed.

  (* ---------------- C04: the generated operator impls are pointwise integer arithmetic ---------------- *)

  (* impl_arithmetic! at ChemicalCompositionVec *)
  Lemma v_ops_pointwise_src : forall shS (c : ccomp) (o : clike) n,
    coherent (keysL c ++ lkeys o) -> nodup_keys (ents_of c) = true -> nodup_keys (keys_of (lents o)) = true ->
    (exists r, v_add_ref_gen N tbl ua shS c o = POk r
               /\ forall k, e_get k (ents_of r) = (e_get k (ents_of c) + e_get k (keys_of (lents o)))%Z)
    /\ (exists r, v_sub_ref_gen N tbl ua shS c o = POk r
               /\ forall k, e_get k (ents_of r) = (e_get k (ents_of c) - e_get k (keys_of (lents o)))%Z)
    /\ (exists r, v_mul_ref_gen N tbl ua shS c n = POk r /\ forall k, e_get k (ents_of r) = (e_get k (ents_of c) * n)%Z)
    /\ (exists r, v_neg_gen N tbl ua shS c = POk r /\ forall k, e_get k (ents_of r) = (- e_get k (ents_of c))%Z).
  Proof.
    intros shS c o n Hc Hnc Hno.
    assert (P := fun k => apply_pointwise N tbl idE idE_perm FVecDirect (comp_of c) (lcomp o) 0 n k Hnc Hno).
    repeat split.
    - destruct (v_add_ref_tie N tbl ua shS c o Hc idE 0) as [r [Hr E]]. exists r. split; [exact Hr|]. intros k.
      pose proof (proj1 (P k)) as H. rewrite <- E in H. exact H.
    - destruct (v_sub_ref_tie N tbl ua shS c o Hc idE 0) as [r [Hr E]]. exists r. split; [exact Hr|]. intros k.
      pose proof (proj1 (proj2 (P k))) as H. rewrite <- E in H. exact H.
    - destruct (v_mul_ref_tie N tbl ua shS idE c n (lcomp o)) as [r [Hr E]]. exists r. split; [exact Hr|]. intros k.
      pose proof (proj1 (proj2 (proj2 (P k)))) as H. rewrite <- E in H. exact H.
    - destruct (v_neg_tie N tbl ua shS idE c (lcomp o)) as [r [Hr E]]. exists r. split; [exact Hr|]. intros k.
      pose proof (proj2 (proj2 (proj2 (P k)))) as H. rewrite <- E in H. exact H.
  Qed.

  (* impl_arithmetic! at ChemicalCompositionMap (identity iteration-order oracles: the side condition of the ties of the
     looping operators) *)
  Lemma m_ops_pointwise_src : forall (c : ccomp) (o : clike) n,
    nodup_keys (ents_of c) = true -> nodup_keys (keys_of (lents o)) = true ->
    (exists r, m_add_ref_gen N tbl ua idS c o = POk r
               /\ forall k, e_get k (ents_of r) = (e_get k (ents_of c) + e_get k (keys_of (lents o)))%Z)
    /\ (exists r, m_sub_ref_gen N tbl ua idS c o = POk r
               /\ forall k, e_get k (ents_of r) = (e_get k (ents_of c) - e_get k (keys_of (lents o)))%Z)
    /\ (exists r, m_mul_ref_gen N tbl ua idS c n = POk r /\ forall k, e_get k (ents_of r) = (e_get k (ents_of c) * n)%Z)
    /\ (exists r, m_neg_gen N tbl ua idS c = POk r /\ forall k, e_get k (ents_of r) = (- e_get k (ents_of c))%Z).
  Proof.
    intros c o n Hnc Hno.
    assert (P := fun k => apply_pointwise N tbl idE idE_perm FMapDirect (comp_of c) (lcomp o) 0 n k Hnc Hno).
    repeat split.
    - destruct (m_add_ref_tie N tbl ua c o 0) as [r [Hr E]]. exists r. split; [exact Hr|]. intros k.
      pose proof (proj1 (P k)) as H. rewrite <- E in H. exact H.
    - destruct (m_sub_ref_tie N tbl ua c o 0) as [r [Hr E]]. exists r. split; [exact Hr|]. intros k.
      pose proof (proj1 (proj2 (P k))) as H. rewrite <- E in H. exact H.
    - destruct (m_mul_ref_tie N tbl ua idS idE c n (lcomp o)) as [r [Hr E]]. exists r. split; [exact Hr|]. intros k.
      pose proof (proj1 (proj2 (proj2 (P k)))) as H. rewrite <- E in H. exact H.
    - destruct (m_neg_tie N tbl ua idS idE c (lcomp o)) as [r [Hr E]]. exists r. split; [exact Hr|]. intros k.
      pose proof (proj2 (proj2 (proj2 (P k)))) as H. rewrite <- E in H. exact H.
  Qed.

  (* impl_arithmetic! at the enum ChemicalComposition: the same, and the representation (arm) is kept *)
  Lemma a_ops_pointwise_src : forall (a : acomp) (o : clike) n,
    acoh a (lkeys o) -> nodup_keys (c_ents (acomp_of a)) = true -> nodup_keys (keys_of (lents o)) = true ->
    (exists r, a_add_ref_gen N tbl ua idS a o = POk r /\ afam r = afam a
               /\ forall k, e_get k (c_ents (acomp_of r)) = (e_get k (c_ents (acomp_of a)) + e_get k (keys_of (lents o)))%Z)
    /\ (exists r, a_sub_ref_gen N tbl ua idS a o = POk r /\ afam r = afam a
               /\ forall k, e_get k (c_ents (acomp_of r)) = (e_get k (c_ents (acomp_of a)) - e_get k (keys_of (lents o)))%Z)
    /\ (exists r, a_mul_ref_gen N tbl ua idS a n = POk r /\ afam r = afam a
               /\ forall k, e_get k (c_ents (acomp_of r)) = (e_get k (c_ents (acomp_of a)) * n)%Z)
    /\ (exists r, a_neg_gen N tbl ua idS a = POk r /\ afam r = afam a
               /\ forall k, e_get k (c_ents (acomp_of r)) = (- e_get k (c_ents (acomp_of a)))%Z).
  Proof.
    intros a o n Hc Hna Hno.
    assert (P := fun k => apply_pointwise N tbl idE idE_perm (afam a) (acomp_of a) (lcomp o) 0 n k Hna Hno).
    repeat split.
    - destruct (a_add_ref_tie N tbl ua idS idE a o Hc (aorc_id a) 0) as [r [Hr [E Hf]]]. exists r. split; [exact Hr|]. split; [exact Hf|].
      intros k. pose proof (proj1 (P k)) as H. rewrite <- E in H. exact H.
    - destruct (a_sub_ref_tie N tbl ua idS idE a o Hc (aorc_id a) 0) as [r [Hr [E Hf]]]. exists r. split; [exact Hr|]. split; [exact Hf|].
      intros k. pose proof (proj1 (proj2 (P k))) as H. rewrite <- E in H. exact H.
    - destruct (a_mul_ref_tie N tbl ua idS idE a n (lcomp o)) as [r [Hr [E Hf]]]. exists r. split; [exact Hr|]. split; [exact Hf|].
      intros k. pose proof (proj1 (proj2 (proj2 (P k)))) as H. rewrite <- E in H. exact H.
    - destruct (a_neg_tie N tbl ua idS idE a (lcomp o)) as [r [Hr [E Hf]]]. exists r. split; [exact Hr|]. split; [exact Hf|].
      intros k. pose proof (proj2 (proj2 (proj2 (P k)))) as H. rewrite <- E in H. exact H.
  Qed.

  (* the by-reference, by-value and in-place forms of `+` end with the same entries and cache (list form) *)
  Lemma v_add_forms_src : forall shS (c : ccomp) (o : clike), coherent (keysL c ++ lkeys o) ->
    exists r, v_add_ref_gen N tbl ua shS c o = POk r
      /\ (exists r', v_add_val_gen N tbl ua shS c o = POk r' /\ comp_of r' = comp_of r)
      /\ comp_of (fst (v_add_assign_gen N tbl ua shS c o)) = comp_of r /\ snd (v_add_assign_gen N tbl ua shS c o) <> PPanic
      /\ comp_of (fst (v_add_assign_mut_gen N tbl ua shS c o)) = comp_of r /\ snd (v_add_assign_mut_gen N tbl ua shS c o) <> PPanic.
  Proof.
    intros shS c o Hc.
    destruct (v_add_ref_tie N tbl ua shS c o Hc idE 0) as [r [Hr E]]. exists r. split; [exact Hr|].
    destruct (v_add_val_tie N tbl ua shS c o Hc idE 0) as [r' [Hr' E']].
    pose proof (v_add_assign_tie N tbl ua shS c o Hc idE 0) as E1. pose proof (v_add_assign_mut_tie N tbl ua shS c o Hc idE 0) as E2.
    cbv zeta in E1, E2.
    destruct (forms_agree N tbl idE FVecDirect (comp_of c) (lcomp o) 0 0 0 0 0%Z) as [A1 [A2 [A3 _]]].
    rewrite <- E, <- E' in A1. rewrite <- E, <- E1 in A2. rewrite <- E, <- E2 in A3.
    pose proof (f_equal fst A1) as B1. pose proof (f_equal fst A2) as B2. pose proof (f_equal snd A2) as O2.
    pose proof (f_equal fst A3) as B3. pose proof (f_equal snd A3) as O3. cbn [fst snd] in B1, B2, O2, B3, O3.
    split; [exists r'; split; [exact Hr' | symmetry; exact B1]|].
    split; [symmetry; exact B2|]. split; [intros Hp; rewrite Hp in O2; discriminate O2|].
    split; [symmetry; exact B3|]. intros Hp; rewrite Hp in O3; discriminate O3.
  Qed.

  (* ---------------- C02: the mass cache of the generated containers ---------------- *)

  (* The invariant: a populated cache holds the mass of the current entries.  It is the model's [cache_ok] of the
     container read through the keys; where the entries' elements are the table's, that is a statement about the
     generated calc_mass: *)
  Lemma v_cache_inv_source : forall c : ccomp, specs_in tbl (composition c) ->
    (cache_ok N tbl (comp_of c) <-> forall v, mass_cache c = Some v -> v_calc_mass_gen N tbl ua c = POk v).
  Proof.
    intros c Hin. unfold cache_ok. cbn [comp_of c_cache c_ents]. rewrite (v_calc_mass_tie N tbl ua c Hin).
    destruct (mass_cache c) as [w|]; [|split; [intros _ v Hv; discriminate Hv | intros _; exact I]].
    destruct (calc_mass N tbl (ents_of c)) as [x|]; split.
    - intros H v Hv. congruence.
    - intros H. specialize (H w eq_refl). congruence.
    - intros H. discriminate H.
    - intros H. specialize (H w eq_refl). discriminate H.
  Qed.

  Lemma m_cache_inv_source : forall shS (c : ccomp), specs_in tbl (composition c) ->
    (cache_ok N tbl (comp_of c) <-> forall v, mass_cache c = Some v -> m_calc_mass_gen N tbl ua shS c = POk v).
  Proof.
    intros shS c Hin. unfold cache_ok. cbn [comp_of c_cache c_ents]. rewrite (m_calc_mass_tie N tbl ua shS c Hin).
    destruct (mass_cache c) as [w|]; [|split; [intros _ v Hv; discriminate Hv | intros _; exact I]].
    destruct (calc_mass N tbl (ents_of c)) as [x|]; split.
    - intros H v Hv. congruence.
    - intros H. specialize (H w eq_refl). congruence.
    - intros H. discriminate H.
    - intros H. specialize (H w eq_refl). discriminate H.
  Qed.

  (* a state the model's machine reaches in one step from an invariant state is invariant *)
  Lemma inv_of_apply : forall sh f o (a b x : comp F) out,
    (x, out) = apply N tbl sh f o a b -> cache_ok N tbl a -> cache_ok N tbl b -> cache_ok N tbl x.
  Proof.
    intros sh f o a b x out E Ha Hb. replace x with (fst (apply N tbl sh f o a b)) by (rewrite <- E; reflexivity).
    apply apply_cache_ok; assumption.
  Qed.

  (* every generated mutator of the LIST form preserves the invariant (a write through the place returned by index_mut
     included) *)
  Lemma v_mutators_inv_src : forall (c o : ccomp) k n,
    coherent (k :: keysL c) -> coherent (keysL c ++ keysL o) -> cache_ok N tbl (comp_of c) -> cache_ok N tbl (comp_of o) ->
    cache_ok N tbl (comp_of (fst (v_set_gen N tbl ua c k n)))
    /\ cache_ok N tbl (comp_of (fst (v_inc_gen N tbl ua c k n)))
    /\ cache_ok N tbl (comp_of (fst (v_mul_by_gen N tbl ua c n)))
    /\ cache_ok N tbl (comp_of (fst (v_add_from_gen N tbl ua c o)))
    /\ cache_ok N tbl (comp_of (fst (v_sub_from_gen N tbl ua c o)))
    /\ cache_ok N tbl (comp_of (fst (v_iter_mut_gen N tbl ua c)))
    /\ (exists p, snd (v_index_mut_gen N tbl ua c k) = POk p
                  /\ forall g, cache_ok N tbl (comp_of (v_place_upd g p (fst (v_index_mut_gen N tbl ua c k))))).
  Proof.
    intros c o k n Hk Hko Hc Ho.
    split; [exact (inv_of_apply _ _ _ _ _ _ _ (v_set_tie N tbl ua c k n Hk idE (comp_of o)) Hc Ho)|].
    split; [exact (inv_of_apply _ _ _ _ _ _ _ (v_inc_tie N tbl ua c k n Hk idE (comp_of o)) Hc Ho)|].
    split; [exact (inv_of_apply _ _ _ _ _ _ _ (v_mul_by_tie N tbl ua c n idE (comp_of o)) Hc Ho)|].
    split; [exact (inv_of_apply idE FVecDirect (OAddAssign 0) _ _ _ _ (v_add_from_tie N tbl ua c o Hko idE) Hc Ho)|].
    split; [exact (inv_of_apply idE FVecDirect (OSubAssign 0) _ _ _ _ (v_sub_from_tie N tbl ua c o Hko idE) Hc Ho)|].
    split; [rewrite v_iter_mut_tie; apply cache_ok_none|].
    destruct (v_index_mut_tie N tbl ua c k Hk) as [p [Hp Hw]]. exists p. split; [exact Hp|].
    intros g. rewrite Hw. apply cache_ok_none.
  Qed.

  (* ... and of the MAP form (set, inc, mul_by for every pair of related iteration-order oracles; the loops for the
     identity oracles) *)
  Lemma m_mutators_inv_src : forall shS shE, (forall m, keys_of (shS m) = shE (keys_of m)) -> forall (c o : ccomp) k n,
    cache_ok N tbl (comp_of c) -> cache_ok N tbl (comp_of o) ->
    cache_ok N tbl (comp_of (fst (m_set_gen N tbl ua shS c k n)))
    /\ cache_ok N tbl (comp_of (fst (m_inc_gen N tbl ua shS c k n)))
    /\ cache_ok N tbl (comp_of (fst (m_mul_by_gen N tbl ua shS c n)))
    /\ cache_ok N tbl (comp_of (fst (m_add_from_gen N tbl ua idS c o)))
    /\ cache_ok N tbl (comp_of (fst (m_sub_from_gen N tbl ua idS c o)))
    /\ cache_ok N tbl (comp_of (fst (m_iter_mut_gen N tbl ua shS c))).
  Proof.
    intros shS shE Hsh c o k n Hc Ho.
    split; [exact (inv_of_apply _ _ _ _ _ _ _ (m_set_tie N tbl ua shS shE Hsh c k n (comp_of o)) Hc Ho)|].
    split; [exact (inv_of_apply _ _ _ _ _ _ _ (m_inc_tie N tbl ua shS shE Hsh c k n (comp_of o)) Hc Ho)|].
    split; [exact (inv_of_apply _ _ _ _ _ _ _ (m_mul_by_tie N tbl ua shS shE c n (comp_of o)) Hc Ho)|].
    split; [exact (inv_of_apply idE FMapDirect (OAddAssign 0) _ _ _ _ (m_add_from_tie N tbl ua c o) Hc Ho)|].
    split; [exact (inv_of_apply idE FMapDirect (OSubAssign 0) _ _ _ _ (m_sub_from_tie N tbl ua c o) Hc Ho)|].
    rewrite m_iter_mut_tie. apply cache_ok_none.
  Qed.

  (* on an invariant state whose elements are the table's: generated mass = generated fmass = generated calc_mass, and
     fmass (which fills the cache) keeps the invariant *)
  Lemma v_mass_coherent_src : forall c : ccomp, specs_in tbl (composition c) -> cache_ok N tbl (comp_of c) ->
    v_mass_gen N tbl ua c = v_calc_mass_gen N tbl ua c
    /\ snd (v_fmass_gen N tbl ua c) = v_calc_mass_gen N tbl ua c
    /\ cache_ok N tbl (comp_of (fst (v_fmass_gen N tbl ua c))).
  Proof.
    intros c Hin Hc. destruct (cache_ok_coherent N tbl (comp_of c) Hc) as [H1 [H2 H3]].
    destruct (v_fmass_tie N tbl ua c Hin) as [E1 E2].
    rewrite (v_mass_tie N tbl ua c Hin), (v_calc_mass_tie N tbl ua c Hin), E2, H1, H2, E1. repeat split; [exact H3].
  Qed.

  Lemma m_mass_coherent_src : forall shS (c : ccomp), specs_in tbl (composition c) -> cache_ok N tbl (comp_of c) ->
    m_mass_gen N tbl ua shS c = m_calc_mass_gen N tbl ua shS c
    /\ snd (m_fmass_gen N tbl ua shS c) = m_calc_mass_gen N tbl ua shS c
    /\ cache_ok N tbl (comp_of (fst (m_fmass_gen N tbl ua shS c))).
  Proof.
    intros shS c Hin Hc. destruct (cache_ok_coherent N tbl (comp_of c) Hc) as [H1 [H2 H3]].
    destruct (m_fmass_tie N tbl ua shS c Hin) as [E1 E2].
    rewrite (m_mass_tie N tbl ua shS c Hin), (m_calc_mass_tie N tbl ua shS c Hin), E2, H1, H2, E1. repeat split; [exact H3].
  Qed.

  (* the enum *)
  Lemma a_mass_coherent_src : forall shS (a : acomp), specs_in tbl (composition (a_inner a)) -> cache_ok N tbl (acomp_of a) ->
    a_mass_gen N tbl ua shS a = a_calc_mass_gen N tbl ua shS a
    /\ snd (a_fmass_gen N tbl ua shS a) = a_calc_mass_gen N tbl ua shS a
    /\ cache_ok N tbl (acomp_of (fst (a_fmass_gen N tbl ua shS a))).
  Proof.
    intros shS a Hin Hc. destruct (cache_ok_coherent N tbl (acomp_of a) Hc) as [H1 [H2 H3]].
    destruct (a_fmass_model N tbl ua shS a Hin) as [E1 [_ E2]].
    rewrite (a_mass_model N tbl ua shS a Hin), (a_calc_mass_model N tbl ua shS a Hin), E2, H1, H2, E1. repeat split; [exact H3].
  Qed.

  (* ---- operator level (props.rs) ---- *)
  Lemma c_ents_bin_id : forall f g (a b : comp F), (forall x, g x [] = x) ->
    c_ents (bin idE f g a b) = g (c_ents a) (c_ents b).
  Proof.
    intros f g a b Hg. unfold bin. destruct (c_ents b) as [|kv r]; [symmetry; apply Hg|].
    unfold dirty, sh. destruct (is_map f); reflexivity.
  Qed.

  (* `&a + &b` on the list form: the result is invariant, its mass (sum over the entries of count * mass) is the sum
     of the operands', and that is what the generated mass() returns for it when every key has a tabulated mass *)
  Lemma v_add_ref_mass_src : OField N -> forall shS (c : ccomp) (o : clike),
    coherent (keysL c ++ lkeys o) -> cache_ok N tbl (comp_of c) ->
    exists r, v_add_ref_gen N tbl ua shS c o = POk r /\ cache_ok N tbl (comp_of r)
      /\ mass_sum N tbl (ents_of r) = add N (mass_sum N tbl (ents_of c)) (mass_sum N tbl (keys_of (lents o)))
      /\ (specs_in tbl (composition r) -> CompSpec.keys_ok N tbl (ents_of r) = true ->
          v_mass_gen N tbl ua r = POk (mass_sum N tbl (ents_of r))).
  Proof.
    intros OF shS c o Hco Hc. destruct (v_add_ref_tie N tbl ua shS c o Hco idE 0) as [r [Hr E]]. exists r.
    assert (Hr' : comp_of r = bin idE FVecDirect e_add (comp_of c) (lcomp o)) by (exact (f_equal fst E)).
    assert (Hinv : cache_ok N tbl (comp_of r)) by (rewrite Hr'; apply cache_ok_bin; exact Hc).
    split; [exact Hr|]. split; [exact Hinv|]. split.
    - change (ents_of r) with (c_ents (comp_of r)). rewrite Hr', c_ents_bin_id by reflexivity.
      exact (proj1 (mass_additive N tbl OF (ents_of c) (keys_of (lents o)))).
    - intros Hin Hk. rewrite (v_mass_tie N tbl ua r Hin), (proj1 (cache_ok_coherent N tbl (comp_of r) Hinv)).
      cbn [comp_of c_ents]. rewrite (mass_is_sum N tbl OF _ Hk). reflexivity.
  Qed.

  (* `a * n` on the enum: linear *)
  Lemma a_mul_val_mass_src : OField N -> forall shS (a : acomp) n,
    exists r, a_mul_val_gen N tbl ua shS a n = POk r /\ afam r = afam a /\ cache_ok N tbl (acomp_of r)
      /\ mass_sum N tbl (c_ents (acomp_of r)) = mul N (of_Z N n) (mass_sum N tbl (c_ents (acomp_of a)))
      /\ (specs_in tbl (composition (a_inner r)) -> CompSpec.keys_ok N tbl (c_ents (acomp_of r)) = true ->
          a_mass_gen N tbl ua shS r = POk (mass_sum N tbl (c_ents (acomp_of r)))).
  Proof.
    intros OF shS a n. destruct (a_mul_val_tie N tbl ua shS idE a n empty_comp) as [r [Hr [E Hf]]]. exists r.
    assert (Hr' : acomp_of r = mkComp (e_mul (c_ents (acomp_of a)) n) None) by (exact (f_equal fst E)).
    assert (Hinv : cache_ok N tbl (acomp_of r)) by (rewrite Hr'; apply cache_ok_none).
    split; [exact Hr|]. split; [exact Hf|]. split; [exact Hinv|]. split.
    - rewrite Hr'. cbn [c_ents]. exact (mass_linear N tbl OF (c_ents (acomp_of a)) n).
    - intros Hin Hk. rewrite (a_mass_model N tbl ua shS r Hin), (proj1 (cache_ok_coherent N tbl (acomp_of r) Hinv)).
      rewrite (mass_is_sum N tbl OF _ Hk). reflexivity.
  Qed.
End CompSrc.

(* ---------------- C06: the generated list and map forms (and the enum over them) are observationally identical -------- *)
Section SimSrc.
  Context {F : Type} (N : Num F).
  Variable tbl : ptable.
  Variable ua : char -> bool.
  Notation ccomp := (ccomp F).
  Notation idS := (fun m : sents => m).
  Notation idE := (fun l : ents => l).
  Notation ents_of c := (keys_of (composition c)).

  (* [esim x y] (proofs/CompSim.v): x and y denote the same finite map and both have pairwise distinct keys *)

  (* the read accessors of the three generated types agree on containers that denote the same map *)
  Lemma observers_agree_src : forall shS (cv cm : ccomp), esim (ents_of cv) (ents_of cm) ->
    v_len_gen N tbl ua cv = m_len_gen N tbl ua shS cm
    /\ v_is_empty_gen N tbl ua cv = m_is_empty_gen N tbl ua shS cm
    /\ a_len_gen N tbl ua shS (AVec cv) = a_len_gen N tbl ua shS (AMap cm)
    /\ (forall k, coherent (k :: keysL cv) ->
          v_get_gen N tbl ua cv k = m_get_gen N tbl ua shS cm k
          /\ v_index_gen N tbl ua cv k = m_index_gen N tbl ua shS cm k
          /\ a_get_gen N tbl ua shS (AVec cv) k = a_get_gen N tbl ua shS (AMap cm) k).
  Proof.
    intros shS cv cm [Hs [Hn1 Hn2]].
    assert (Hlen : List.length (ents_of cv) = List.length (ents_of cm))
      by (apply Permutation_length, same_map_perm; assumption).
    split; [rewrite v_len_tie, m_len_tie; cbn [comp_of c_ents]; rewrite Hlen; reflexivity|].
    split; [rewrite v_is_empty_tie, m_is_empty_tie; cbn [comp_of c_ents]; rewrite Hlen; reflexivity|].
    split; [rewrite !a_len_model; unfold acomp_of; cbn [a_inner comp_of c_ents]; rewrite Hlen; reflexivity|].
    intros k Hk.
    rewrite (v_get_tie N tbl ua cv k Hk), m_get_tie, (v_index_tie N tbl ua cv k Hk), m_index_tie.
    rewrite (a_get_model N tbl ua shS (AVec cv) k Hk), (a_get_model N tbl ua shS (AMap cm) k I).
    unfold acomp_of. cbn [a_inner comp_of c_ents]. rewrite (proj1 (Hs (spec_key k))). repeat split.
  Qed.

  (* the text-keyed reads: needs the table facts of C06 ([table_syms_ok]: decided on the regenerated table in C06.v) and
     the side conditions of the ties *)
  Lemma str_observers_agree_src : table_syms_ok tbl = true -> ImpE.keys_ok tbl ->
    forall shS (cv cm : ccomp), specs_in tbl (composition cv) ->
    esim (ents_of cv) (ents_of cm) -> syms_in_table tbl (ents_of cv) = true ->
    forall s, v_index_str_gen N tbl ua cv s = m_index_str_gen N tbl ua shS cm s
              /\ v_get_str_gen N tbl ua cv s = m_get_str_gen N tbl ua shS cm s.
  Proof.
    intros Htbl Hk shS cv cm Hin [Hs [Hn1 Hn2]] Hsy s.
    destruct (observers tbl Htbl ua (ents_of cv) (ents_of cm) Hs Hn1 Hn2 Hsy) as [_ [_ [_ [H1 [H2 _]]]]].
    rewrite (v_index_str_tie N tbl ua cv s Hk Hin), (m_index_str_tie N tbl ua shS cm s Hk), v_get_str_tie,
      (m_get_str_tie N tbl ua shS cm s Hk), H1, H2. split; reflexivity.
  Qed.

  Lemma sim_of_apply : table_syms_ok tbl = true -> forall sh1 sh2,
    (forall l, Permutation (sh1 l) l) -> (forall l, Permutation (sh2 l) l) ->
    forall f1 f2 o (a1 a2 b1 b2 x1 x2 : comp F) out1 out2, not_get_str_mut o = true ->
    (x1, out1) = apply N tbl sh1 f1 o a1 b1 -> (x2, out2) = apply N tbl sh2 f2 o a2 b2 ->
    esim (c_ents a1) (c_ents a2) -> esim (c_ents b1) (c_ents b2) -> esim (c_ents x1) (c_ents x2) /\ out1 = out2.
  Proof.
    intros Htbl sh1 sh2 P1 P2 f1 f2 o a1 a2 b1 b2 x1 x2 out1 out2 Ho E1 E2 Ha Hb.
    pose proof (apply_sim N tbl Htbl sh1 sh2 P1 P2 f1 f2 o a1 a2 b1 b2 Ho Ha Hb) as H.
    rewrite <- E1, <- E2 in H. exact H.
  Qed.

  (* the same generated mutator applied to a list-form and a map-form container that denote the same map leaves
     containers that denote the same map *)
  Lemma mutators_sim_src : table_syms_ok tbl = true ->
    forall shS shE, (forall m, keys_of (shS m) = shE (keys_of m)) -> (forall l, Permutation (shE l) l) ->
    forall (cv cm ov om : ccomp) k n, coherent (k :: keysL cv) -> coherent (keysL cv ++ keysL ov) ->
    esim (ents_of cv) (ents_of cm) -> esim (ents_of ov) (ents_of om) ->
    esim (ents_of (fst (v_set_gen N tbl ua cv k n))) (ents_of (fst (m_set_gen N tbl ua shS cm k n)))
    /\ esim (ents_of (fst (v_inc_gen N tbl ua cv k n))) (ents_of (fst (m_inc_gen N tbl ua shS cm k n)))
    /\ esim (ents_of (fst (v_mul_by_gen N tbl ua cv n))) (ents_of (fst (m_mul_by_gen N tbl ua shS cm n)))
    /\ esim (ents_of (fst (v_add_from_gen N tbl ua cv ov))) (ents_of (fst (m_add_from_gen N tbl ua idS cm om)))
    /\ esim (ents_of (fst (v_sub_from_gen N tbl ua cv ov))) (ents_of (fst (m_sub_from_gen N tbl ua idS cm om))).
  Proof.
    intros Htbl shS shE Hsh Hp cv cm ov om k n Hk Hko Hc Ho.
    assert (Pid : forall l : ents, Permutation (idE l) l) by (intros l; apply Permutation_refl).
    split; [exact (proj1 (sim_of_apply Htbl idE shE Pid Hp FVecDirect FMapDirect (OSet (spec_key k) n) _ _ _ _ _ _ _ _ eq_refl
              (v_set_tie N tbl ua cv k n Hk idE (comp_of ov)) (m_set_tie N tbl ua shS shE Hsh cm k n (comp_of om)) Hc Ho))|].
    split; [exact (proj1 (sim_of_apply Htbl idE shE Pid Hp FVecDirect FMapDirect (OInc (spec_key k) n) _ _ _ _ _ _ _ _ eq_refl
              (v_inc_tie N tbl ua cv k n Hk idE (comp_of ov)) (m_inc_tie N tbl ua shS shE Hsh cm k n (comp_of om)) Hc Ho))|].
    split; [exact (proj1 (sim_of_apply Htbl idE shE Pid Hp FVecDirect FMapDirect (OMulAssign n) _ _ _ _ _ _ _ _ eq_refl
              (v_mul_by_tie N tbl ua cv n idE (comp_of ov)) (m_mul_by_tie N tbl ua shS shE cm n (comp_of om)) Hc Ho))|].
    split; [exact (proj1 (sim_of_apply Htbl idE idE Pid Pid FVecDirect FMapDirect (OAddAssign 0) _ _ _ _ _ _ _ _ eq_refl
              (v_add_from_tie N tbl ua cv ov Hko idE) (m_add_from_tie N tbl ua cm om) Hc Ho))|].
    exact (proj1 (sim_of_apply Htbl idE idE Pid Pid FVecDirect FMapDirect (OSubAssign 0) _ _ _ _ _ _ _ _ eq_refl
              (v_sub_from_tie N tbl ua cv ov Hko idE) (m_sub_from_tie N tbl ua cm om) Hc Ho)).
  Qed.

  Lemma coherent_after_set : forall (c : ccomp) k k' n, coherent (k' :: k :: keysL c) ->
    coherent (k' :: map fst (s_set k n (composition c))).
  Proof.
    intros c k k' n H. apply (coherent_incl _ (k' :: k :: keysL c)); [|exact H].
    intros x [<-|Hx]; [left; reflexivity | right; exact (s_set_incl k n (composition c) x Hx)].
  Qed.

  (* set / inc followed by get, len on the three generated types *)
  Lemma set_then_read_src : table_syms_ok tbl = true ->
    forall shS shE, (forall m, keys_of (shS m) = shE (keys_of m)) -> (forall l, Permutation (shE l) l) ->
    forall (cv cm : ccomp) k n k', coherent (k' :: k :: keysL cv) -> esim (ents_of cv) (ents_of cm) ->
    let cv1 := fst (v_set_gen N tbl ua cv k n) in let cm1 := fst (m_set_gen N tbl ua shS cm k n) in
    let cv2 := fst (v_inc_gen N tbl ua cv k n) in let cm2 := fst (m_inc_gen N tbl ua shS cm k n) in
    v_get_gen N tbl ua cv1 k' = m_get_gen N tbl ua shS cm1 k'
    /\ a_get_gen N tbl ua shS (AVec cv1) k' = a_get_gen N tbl ua shS (AMap cm1) k'
    /\ v_len_gen N tbl ua cv1 = m_len_gen N tbl ua shS cm1
    /\ v_get_gen N tbl ua cv2 k' = m_get_gen N tbl ua shS cm2 k'
    /\ a_get_gen N tbl ua shS (AVec cv2) k' = a_get_gen N tbl ua shS (AMap cm2) k'
    /\ v_len_gen N tbl ua cv2 = m_len_gen N tbl ua shS cm2.
  Proof.
    intros Htbl shS shE Hsh Hp cv cm k n k' Hk Hc. cbv zeta.
    assert (Hk1 : coherent (k :: keysL cv)) by (apply (coherent_incl _ (k' :: k :: keysL cv)); [intros x Hx; right; exact Hx | exact Hk]).
    assert (Hnil : coherent (keysL cv ++ keysL (mkCC (F:=F) [] None)))
      by (apply (coherent_incl _ (k' :: k :: keysL cv)); [intros x Hx; cbn in Hx; rewrite app_nil_r in Hx; right; right; exact Hx | exact Hk]).
    assert (He : esim (ents_of (mkCC (F:=F) [] None)) (ents_of (mkCC (F:=F) [] None))) by (apply esim_refl; reflexivity).
    destruct (mutators_sim_src Htbl shS shE Hsh Hp cv cm _ _ k n Hk1 Hnil Hc He) as [S1 [S2 _]].
    destruct (observers_agree_src shS _ _ S1) as [L1 [_ [_ G1]]]. destruct (observers_agree_src shS _ _ S2) as [L2 [_ [_ G2]]].
    assert (C1 : coherent (k' :: keysL (fst (v_set_gen N tbl ua cv k n))))
      by (unfold keysL; rewrite (v_set_entries N tbl ua cv k n Hk1); apply coherent_after_set, Hk).
    assert (C2 : coherent (k' :: keysL (fst (v_inc_gen N tbl ua cv k n))))
      by (unfold keysL; rewrite (v_inc_entries N tbl ua cv k n Hk1); apply coherent_after_set, Hk).
    destruct (G1 k' C1) as [A1 [_ A2]]. destruct (G2 k' C2) as [B1 [_ B2]]. repeat split; assumption.
  Qed.
End SimSrc.
