(* Proofs for C07: to_formula is canonical, ordered, and its text parses back to an equal composition. *)
From Coq Require Import List ZArith NArith Bool Arith String Permutation Sorted Lia.
From CE Require Import Str TableTypes TableModel Comp ESpec CompSpec Formula FormulaSpec Render
  CompArith CompSim FormulaComplete ESpecProofs.
Import ListNotations.
Local Open Scope nat_scope.

(* ------------------------------------------------------------------------------------------ *)
(* canonical text *)
Lemma idx_vm : forall (tbl : list (string * elem)) u s a, syms_in_table tbl a = true ->
  v_index_str tbl u s a = m_index_str tbl u s a.
Proof.
  intros tbl u s a Ht. unfold v_index_str, m_index_str. destruct (quick_check u s); try reflexivity.
  unfold v_find_str, m_get_str, plain_key. destruct (has_elem tbl s) eqn:E; [reflexivity|].
  apply (syms_absent tbl); assumption.
Qed.

Lemma idx_same : forall (tbl : list (string * elem)) u f s a b, (forall k, e_get k a = e_get k b) ->
  idx_str tbl u f s a = idx_str tbl u f s b.
Proof.
  intros tbl u f s a b Hg. unfold idx_str, m_index_str, v_index_str, v_find_str, m_get_str.
  destruct f; destruct (quick_check u s); try reflexivity.
  - destruct (plain_key tbl s); [apply Hg | reflexivity].
  - destruct (espec_parse tbl s); [apply Hg | reflexivity | reflexivity].
  - apply Hg.
  - destruct (espec_parse tbl s); [apply Hg | reflexivity | reflexivity].
Qed.

Lemma render_canonical : forall (tbl : list (string * elem)) (uni_alphabetic : char -> bool) a b f1 f2,
  same_map a b -> nodup_keys a = true -> nodup_keys b = true -> syms_in_table tbl a = true ->
  to_formula tbl uni_alphabetic f1 a = to_formula tbl uni_alphabetic f2 b.
Proof.
  intros tbl u a b f1 f2 H Ha Hb Ht.
  assert (Hg : forall k, e_get k a = e_get k b) by (intro k; apply (H k)).
  assert (Hi : forall s, idx_str tbl u f1 s a = idx_str tbl u f2 s b).
  { intros s. rewrite <- (idx_same tbl u f2 s a b Hg). unfold idx_str.
    destruct f1, f2; try reflexivity; [symmetry|]; apply idx_vm; exact Ht. }
  unfold to_formula. rewrite !Hi, (sort_perm_eq a b Ha (same_map_perm a b H Ha Hb)). reflexivity.
Qed.

(* ------------------------------------------------------------------------------------------ *)
(* the order *)
Lemma ssorted_SS : forall l, ssorted l -> StronglySorted (fun x y => key_leb (fst x) (fst y) = true) l.
Proof.
  induction l as [|x r IH]; intros H.
  - constructor.
  - destruct H as [H1 H2]. constructor; [apply IH; exact H2 | apply Forall_forall; exact H1].
Qed.

Lemma render_order : forall (tbl : list (string * elem)) (uni_alphabetic : char -> bool) l f,
  to_formula tbl uni_alphabetic f l
  = ((if (idx_str tbl uni_alphabetic f C_ l =? 0)%Z then [] else C_ ++ show_Z (idx_str tbl uni_alphabetic f C_ l))
     ++ (if (idx_str tbl uni_alphabetic f H_ l =? 0)%Z then [] else H_ ++ show_Z (idx_str tbl uni_alphabetic f H_ l))
     ++ List.concat (map show_item (sort_ents l)))%list
  /\ Permutation (sort_ents l) l
  /\ StronglySorted (fun x y => key_leb (fst x) (fst y) = true) (sort_ents l).
Proof.
  intros tbl u l f. split; [reflexivity|]. split; [apply sort_perm|]. apply ssorted_SS, sort_sorted.
Qed.

(* ------------------------------------------------------------------------------------------ *)
(* the formula AST of a composition *)
Definition plainCH (k : key) : bool := (str_eqb (fst k) C_ || str_eqb (fst k) H_) && (snd k =? 0)%N.
Definition iso_txt (i : N) : option str := if (i =? 0)%N then None else Some (show_N i).
Definition item_of (kv : key * Z) : list item :=
  if plainCH (fst kv) then [] else [El (fst (fst kv)) (iso_txt (snd (fst kv))) (Some (show_Z (snd kv)))].
Definition items_of (s : ents) : list item := flat_map item_of s.
Definition head_item (sym : str) (l : ents) : list item :=
  if (e_get (sym, 0%N) l =? 0)%Z then [] else [El sym None (Some (show_Z (e_get (sym, 0%N) l)))].
Definition ast_of (l : ents) : list item := head_item C_ l ++ head_item H_ l ++ items_of (sort_ents l).

Lemma plainCH_true : forall k, plainCH k = true -> k = (C_, 0%N) \/ k = (H_, 0%N).
Proof.
  intros [s i] H. unfold plainCH in H. cbn [fst snd] in H. apply andb_true_iff in H. destruct H as [H1 H2].
  apply N.eqb_eq in H2. subst i. apply orb_true_iff in H1.
  destruct H1 as [H1|H1]; apply str_eqb_eq in H1; subst s; [left | right]; reflexivity.
Qed.

Lemma render_app : forall a b, render (a ++ b) = (render a ++ render b)%list.
Proof. intros a b. unfold render. rewrite map_app, concat_app. reflexivity. Qed.

Lemma denote_nil : forall k, denote [] k = 0%Z.
Proof. reflexivity. Qed.

Lemma denote_app : forall a b k, denote (a ++ b) k = (denote a k + denote b k)%Z.
Proof.
  induction a as [|x a IH]; intros b k.
  - cbn [app]. rewrite denote_nil. lia.
  - cbn [app]. rewrite !denote_cons, IH. lia.
Qed.

Lemma named_app : forall a b k, named (a ++ b) k = named a k || named b k.
Proof. intros a b k. unfold named. apply existsb_app. Qed.

(* --- text --- *)
Lemma render_head : forall sym l,
  render (head_item sym l)
  = if (e_get (sym, 0%N) l =? 0)%Z then [] else (sym ++ show_Z (e_get (sym, 0%N) l))%list.
Proof.
  intros sym l. unfold head_item. destruct (e_get (sym, 0%N) l =? 0)%Z; [reflexivity|].
  rewrite render_cons, render_item_El. cbn [iso_text opt_text app]. unfold render. cbn [map List.concat].
  rewrite app_nil_r. reflexivity.
Qed.

Lemma render_items : forall s, render (items_of s) = List.concat (map show_item s).
Proof.
  induction s as [|[[sy iso] n] r IH].
  - reflexivity.
  - unfold items_of. cbn [flat_map]. fold (items_of r). rewrite render_app, IH. cbn [map List.concat]. f_equal.
    unfold item_of, show_item, plainCH. cbn [fst snd].
    destruct ((str_eqb sy C_ || str_eqb sy H_) && (iso =? 0)%N); [reflexivity|].
    rewrite render_cons, render_item_El. unfold iso_txt.
    destruct (iso =? 0)%N; cbn [negb iso_text opt_text]; unfold render; cbn [map List.concat]; rewrite app_nil_r.
    + reflexivity.
    + cbn [app]. rewrite <- app_assoc. reflexivity.
Qed.

(* --- numbers --- *)
Lemma show_Z_pos : forall n, (0 <= n)%Z -> show_Z n = show_N (Z.to_N n).
Proof.
  intros n H. unfold show_Z. destruct (n <? 0)%Z eqn:E; [|reflexivity]. apply Z.ltb_lt in E. lia.
Qed.

Lemma cnt_val_show : forall n, (0 <= n)%Z -> cnt_val (Some (show_Z n)) = n.
Proof.
  intros n H. unfold cnt_val. rewrite (show_Z_pos n H).
  destruct (show_N_spec (Z.to_N n)) as [_ [E _]]. rewrite E. apply Z2N.id. exact H.
Qed.

Lemma iso_val_txt : forall i, iso_val (iso_txt i) = i.
Proof.
  intros i. unfold iso_txt. destruct (i =? 0)%N eqn:E.
  - apply N.eqb_eq in E. subst i. reflexivity.
  - unfold iso_val. destruct (show_N_spec i) as [_ [E2 _]]. rewrite E2. reflexivity.
Qed.

Lemma digits_ok_show : forall n, digits_ok (show_N n) = true.
Proof.
  intros n. destruct (show_N_spec n) as [E1 [_ E3]]. unfold digits_ok. rewrite E1.
  destruct (show_N n) as [|c r]; [exfalso; apply E3; reflexivity | reflexivity].
Qed.

Lemma cnt_ok_show : forall n, (0 < n <= 2147483647)%Z -> cnt_ok (Some (show_Z n)) = true.
Proof.
  intros n H. unfold cnt_ok. rewrite (show_Z_pos n) by lia. rewrite digits_ok_show.
  unfold parse_i32. rewrite (parse_uint_show 2147483647 (Z.to_N n)) by lia. reflexivity.
Qed.

Lemma iso_ok_txt : forall hi s i, (i = 0%N \/ hi s i = true) -> (i < 65536)%N -> iso_ok hi s (iso_txt i) = true.
Proof.
  intros hi s i H Hlt. unfold iso_txt. destruct (i =? 0)%N eqn:E; [reflexivity|].
  apply N.eqb_neq in E. destruct H as [H|H]; [contradiction|].
  unfold iso_ok. rewrite digits_ok_show. unfold parse_u16. rewrite (parse_uint_show 65535 i) by lia.
  exact H.
Qed.

(* --- what the AST denotes --- *)
Lemma denote_item_of : forall k0 n0 k, (0 <= n0)%Z ->
  denote (item_of (k0, n0)) k = if plainCH k0 then 0%Z else if key_eqb k k0 then n0 else 0%Z.
Proof.
  intros [sy iso] n0 k Hn. unfold item_of. cbn [fst snd]. destruct (plainCH (sy, iso)); [reflexivity|].
  rewrite denote_cons, denote_nil. cbn [denote_item]. rewrite iso_val_txt, (cnt_val_show n0 Hn).
  destruct (key_eqb k (sy, iso)); lia.
Qed.

Lemma denote_items : forall s k, nodup_keys s = true -> (forall k n, In (k, n) s -> (0 <= n)%Z) ->
  denote (items_of s) k = if plainCH k then 0%Z else e_get k s.
Proof.
  induction s as [|[k0 n0] r IH]; intros k Hnd Hpos.
  - cbn [items_of flat_map e_get]. rewrite denote_nil. destruct (plainCH k); reflexivity.
  - cbn [nodup_keys] in Hnd. apply andb_true_iff in Hnd. destruct Hnd as [Hm Hnd]. apply negb_true_iff in Hm.
    unfold items_of. cbn [flat_map]. fold (items_of r). rewrite denote_app.
    rewrite (denote_item_of k0 n0 k) by (apply (Hpos k0); left; reflexivity).
    rewrite (IH k Hnd) by (intros k' n' Hin; apply (Hpos k'); right; exact Hin).
    cbn [e_get]. destruct (key_eqb k k0) eqn:E.
    + apply key_eqb_eq in E. subst k0. rewrite (get_notmem _ _ Hm). destruct (plainCH k); lia.
    + destruct (plainCH k0); destruct (plainCH k); lia.
Qed.

Lemma denote_head : forall sym l k, (0 <= e_get (sym, 0%N) l)%Z ->
  denote (head_item sym l) k = if key_eqb k (sym, 0%N) then e_get (sym, 0%N) l else 0%Z.
Proof.
  intros sym l k H. unfold head_item. destruct (e_get (sym, 0%N) l =? 0)%Z eqn:E.
  - apply Z.eqb_eq in E. rewrite E, denote_nil. destruct (key_eqb k (sym, 0%N)); reflexivity.
  - rewrite denote_cons, denote_nil. cbn [denote_item iso_val]. rewrite (cnt_val_show _ H).
    destruct (key_eqb k (sym, 0%N)); lia.
Qed.

Lemma named_items : forall s k, named (items_of s) k = true -> e_mem k s = true.
Proof.
  induction s as [|[[sy iso] n0] r IH]; intros k H.
  - discriminate H.
  - unfold items_of in H. cbn [flat_map] in H. fold (items_of r) in H. rewrite named_app in H.
    cbn [e_mem]. apply orb_true_iff in H. destruct H as [H|H].
    + unfold item_of in H. cbn [fst snd] in H. destruct (plainCH (sy, iso)); [discriminate H|].
      rewrite named_cons in H. cbn [named_item] in H. rewrite iso_val_txt in H.
      apply orb_true_iff in H. destruct H as [H|H]; [rewrite H; reflexivity | discriminate H].
    + rewrite (IH k H). apply orb_true_r.
Qed.

Lemma named_head : forall sym l k, named (head_item sym l) k = true -> e_mem k l = true.
Proof.
  intros sym l k H. unfold head_item in H. destruct (e_get (sym, 0%N) l =? 0)%Z eqn:E; [discriminate H|].
  rewrite named_cons in H. cbn [named_item iso_val] in H. apply orb_true_iff in H.
  destruct H as [H|H]; [|discriminate H]. apply key_eqb_eq in H. subst k.
  destruct (e_mem (sym, 0%N) l) eqn:M; [reflexivity|]. rewrite (get_notmem _ _ M) in E. discriminate E.
Qed.

Section Positive.
  Variable l : ents.
  Hypothesis Hnd : nodup_keys l = true.
  Hypothesis Hpos : forall k n, In (k, n) l -> (0 < n)%Z.

  Lemma get_nonneg : forall k, (0 <= e_get k l)%Z.
  Proof.
    intros k. destruct (e_mem k l) eqn:M.
    - apply In_get in M. apply Hpos in M. lia.
    - rewrite (get_notmem _ _ M). lia.
  Qed.

  Lemma denote_ast : forall k, denote (ast_of l) k = e_get k l.
  Proof.
    intros k. unfold ast_of. rewrite !denote_app.
    rewrite (denote_head C_ l k (get_nonneg _)), (denote_head H_ l k (get_nonneg _)).
    pose proof (sort_perm l) as P.
    rewrite (denote_items (sort_ents l) k).
    - rewrite (get_perm k _ _ P) by (apply (nodup_perm l); [apply Permutation_sym, P | exact Hnd]).
      destruct (key_eqb k (C_, 0%N)) eqn:EC.
      + apply key_eqb_eq in EC. subst k. change (key_eqb (C_, 0%N) (H_, 0%N)) with false.
        change (plainCH (C_, 0%N)) with true. cbv iota. lia.
      + destruct (key_eqb k (H_, 0%N)) eqn:EH.
        * apply key_eqb_eq in EH. subst k. change (plainCH (H_, 0%N)) with true. cbv iota. lia.
        * destruct (plainCH k) eqn:EP; [|lia]. apply plainCH_true in EP.
          destruct EP as [EP|EP]; subst k; [rewrite key_eqb_refl in EC; discriminate EC
                                           | rewrite key_eqb_refl in EH; discriminate EH].
    - apply (nodup_perm l); [apply Permutation_sym, P | exact Hnd].
    - intros k' n' Hin. apply (Permutation_in _ P) in Hin. apply Hpos in Hin. lia.
  Qed.

  Lemma named_ast : forall k, named (ast_of l) k = true -> e_mem k l = true.
  Proof.
    intros k H. unfold ast_of in H. rewrite !named_app in H.
    apply orb_true_iff in H. destruct H as [H|H]; [apply (named_head C_ l k H)|].
    apply orb_true_iff in H. destruct H as [H|H]; [apply (named_head H_ l k H)|].
    apply named_items in H. rewrite <- (mem_perm k _ _ (sort_perm l)). exact H.
  Qed.

  Lemma mem_get_pos : forall k, e_mem k l = true -> e_get k l <> 0%Z.
  Proof. intros k M. apply In_get in M. apply Hpos in M. lia. Qed.
End Positive.

(* --- the AST is well formed --- *)
Section WfAst.
  Variable tbl : list (string * elem).
  Variable uni_numeric : char -> bool.
  Variable l : ents.
  Hypothesis Hnd : nodup_keys l = true.
  Hypothesis Hall : forall k n, In (k, n) l ->
    (0 < n <= 2147483647)%Z /\ sym_shape uni_numeric (fst k) = true /\ has_elem tbl (fst k) = true
    /\ (snd k = 0%N \/ has_iso tbl (fst k) (snd k) = true) /\ (snd k < 65536)%N.

  Notation wfi := (wf_item uni_numeric (has_elem tbl) (has_iso tbl) false).

  Lemma wf_head_item : forall sym, sym_shape uni_numeric sym = true -> forallb wfi (head_item sym l) = true.
  Proof.
    intros sym Hs. unfold head_item. destruct (e_get (sym, 0%N) l =? 0)%Z eqn:E; [reflexivity|].
    apply Z.eqb_neq in E.
    assert (M : e_mem (sym, 0%N) l = true).
    { destruct (e_mem (sym, 0%N) l) eqn:M; [reflexivity|]. rewrite (get_notmem _ _ M) in E. contradiction. }
    apply In_get in M. destruct (Hall _ _ M) as [A1 [_ [A3 _]]]. cbn [fst] in A3.
    cbn [forallb wf_item iso_ok]. rewrite Hs, A3, (cnt_ok_show _ A1). reflexivity.
  Qed.

  Lemma wf_items : forall s, (forall kv, In kv s -> In kv l) -> forallb wfi (items_of s) = true.
  Proof.
    intros s Hs. apply forallb_forall. intros it Hit. unfold items_of in Hit. apply in_flat_map in Hit.
    destruct Hit as [[[sy iso] n] [Hin Hit]]. unfold item_of in Hit. cbn [fst snd] in Hit.
    destruct (plainCH (sy, iso)); [destruct Hit|]. destruct Hit as [Hit|[]]. subst it.
    destruct (Hall _ _ (Hs _ Hin)) as [A1 [A2 [A3 [A4 A5]]]]. cbn [fst snd] in A2, A3, A4, A5.
    cbn [wf_item]. rewrite A2, A3, (cnt_ok_show _ A1), (iso_ok_txt (has_iso tbl) sy iso A4 A5). reflexivity.
  Qed.

  Lemma ast_nonempty : l <> [] -> ast_of l <> [].
  Proof.
    intros Hne. destruct l as [|[k0 n0] r] eqn:Eql; [contradiction|]. rewrite <- Eql in *.
    assert (Hin : In (k0, n0) l) by (rewrite Eql; left; reflexivity).
    assert (Hg : e_get k0 l = n0) by (apply get_In; assumption).
    destruct (Hall _ _ Hin) as [A1 _].
    unfold ast_of. destruct (plainCH k0) eqn:EP.
    - apply plainCH_true in EP. destruct EP as [EP|EP]; subst k0; unfold head_item; rewrite Hg.
      + destruct (n0 =? 0)%Z eqn:E0; [apply Z.eqb_eq in E0; lia|]. discriminate.
      + destruct (n0 =? 0)%Z eqn:E0; [apply Z.eqb_eq in E0; lia|].
        intros C. apply app_eq_nil in C. destruct C as [_ C]. discriminate C.
    - intros C. apply app_eq_nil in C. destruct C as [_ C]. apply app_eq_nil in C. destruct C as [_ C].
      assert (Hs : In (k0, n0) (sort_ents l)) by (apply (Permutation_in _ (Permutation_sym (sort_perm l))); exact Hin).
      assert (Hi : In (El (fst k0) (iso_txt (snd k0)) (Some (show_Z n0))) (items_of (sort_ents l))).
      { unfold items_of. apply in_flat_map. exists (k0, n0). split; [exact Hs|].
        unfold item_of. cbn [fst snd]. rewrite EP. left. reflexivity. }
      rewrite C in Hi. destruct Hi.
  Qed.

  Lemma wf_ast : l <> [] -> wf uni_numeric (has_elem tbl) (has_iso tbl) false (ast_of l) = true.
  Proof.
    intros Hne. unfold wf. apply andb_true_iff. split.
    - pose proof (ast_nonempty Hne) as N. destruct (ast_of l); [contradiction | reflexivity].
    - unfold ast_of. rewrite !forallb_app.
      rewrite (wf_head_item C_) by reflexivity. rewrite (wf_head_item H_) by reflexivity.
      rewrite wf_items; [reflexivity|]. intros kv Hin. apply (Permutation_in _ (sort_perm l)). exact Hin.
  Qed.
End WfAst.

(* --- "C" and "H" are read as the isotope-free keys --- *)
Lemma idx_plain : forall (tbl : list (string * elem)) u f s l, table_syms_ok tbl = true ->
  syms_in_table tbl l = true -> split_lb s = None -> idx_str tbl u f s l = e_get (s, 0%N) l.
Proof.
  intros tbl u f s l Ht Hl Hs.
  destruct (index_str_spec tbl u Ht l s Hl) as [Hv Hm].
  assert (E : match espec_parse tbl s with EOk k => e_get k l | _ => 0%Z end = e_get (s, 0%N) l).
  { unfold espec_parse. rewrite Hs. destruct (has_elem tbl s) eqn:He; [reflexivity|].
    symmetry. apply (syms_absent tbl); assumption. }
  unfold idx_str. destruct f; [rewrite Hm | rewrite Hv]; exact E.
Qed.

(* ------------------------------------------------------------------------------------------ *)
(* the text of a non-empty composition with positive counts parses back to an equal composition.
   (For l = [] the text is empty and parse_formula answers FErr IncompleteFormula: the statement of
   C07_render_parse without `l <> []` is false.) *)
Lemma render_parse_nonempty : forall (tbl : list (string * elem)) (uni_alphabetic uni_numeric : char -> bool),
  table_syms_ok tbl = true -> forall l f,
  l <> [] ->
  nodup_keys l = true ->
  (forall k n, In (k, n) l ->
     (0 < n <= 2147483647)%Z /\ sym_shape uni_numeric (fst k) = true /\ has_elem tbl (fst k) = true
     /\ (snd k = 0%N \/ has_iso tbl (fst k) (snd k) = true) /\ (snd k < 65536)%N) ->
  exists c, parse_formula uni_numeric (has_elem tbl) (has_iso tbl) (to_formula tbl uni_alphabetic f l) = FOk c
            /\ same_map c l.
Proof.
  intros tbl u un Ht l f Hne Hnd Hall.
  assert (Hpos : forall k n, In (k, n) l -> (0 < n)%Z).
  { intros k n Hin. destruct (Hall k n Hin) as [A _]. lia. }
  assert (Hl : syms_in_table tbl l = true).
  { unfold syms_in_table. apply forallb_forall. intros [k n] Hin. destruct (Hall k n Hin) as [_ [_ [A _]]]. exact A. }
  assert (Hr : render (ast_of l) = to_formula tbl u f l).
  { unfold ast_of, to_formula. rewrite !render_app, !render_head, render_items.
    rewrite (idx_plain tbl u f C_ l Ht Hl) by reflexivity.
    rewrite (idx_plain tbl u f H_ l Ht Hl) by reflexivity. reflexivity. }
  destruct (parse_complete un (has_elem tbl) (has_iso tbl) (ast_of l) (wf_ast tbl un l Hnd Hall Hne))
    as [c [Hp [Hg Hm]]].
  exists c. split; [rewrite <- Hr; exact Hp|].
  assert (Hget : forall k, e_get k c = e_get k l).
  { intros k. rewrite Hg. apply denote_ast; assumption. }
  intros k. split; [apply Hget|].
  destruct (e_mem k c) eqn:Mc.
  - symmetry. apply (named_ast l). apply Hm. exact Mc.
  - destruct (e_mem k l) eqn:Ml; [|reflexivity].
    exfalso. apply (mem_get_pos l Hpos k Ml). rewrite <- Hget. apply get_notmem. exact Mc.
Qed.
