(* The reals are an ordered field in the sense of [OField]; Coq's primitive binary64 floats satisfy the standard
   model of rounding into them with u = 2^-53 (via Flocq: primitive operation = Bplus/Bmult/Bdiv with mode_NE =
   rounding to nearest even of the exact result in FLT(-1074, 53), unless it overflows); and the instance of
   normalize_rounded at binary64. *)
From Coq Require Import ZArith List Bool Reals Floats Lra Lia Field_theory Ring_theory RealField.
From Flocq Require Import Core.Core IEEE754.BinarySingleNaN IEEE754.PrimFloat Relative Plus_error.
From CE Require Import Num OField Peak Rounded NumFloat NumFloat64 Float64Std RoundedProofs.
Import ListNotations.

Local Open Scope R_scope.

(* ---------- booleans of NumRR vs the order of R ---------- *)

Lemma Rleb_true : forall a b, Rleb a b = true <-> a <= b.
Proof. intros a b. unfold Rleb. destruct (Rle_dec a b); split; intros; try easy. Qed.

Lemma Rleb_false : forall a b, Rleb a b = false <-> b < a.
Proof. intros a b. unfold Rleb. destruct (Rle_dec a b); split; intros; try easy; lra. Qed.

Lemma Rltb_true : forall a b, Rltb a b = true <-> a < b.
Proof. intros a b. unfold Rltb. destruct (Rlt_dec a b); split; intros; try easy. Qed.

Lemma Rltb_false : forall a b, Rltb a b = false <-> b <= a.
Proof. intros a b. unfold Rltb. destruct (Rlt_dec a b); split; intros; try easy; lra. Qed.

Lemma Reqb_true : forall a b, Reqb a b = true <-> a = b.
Proof. intros a b. unfold Reqb. destruct (Req_EM_T a b); split; intros; try easy. Qed.

Lemma fle_RR : forall a b, fle NumRR a b <-> a <= b.
Proof. intros a b. apply Rleb_true. Qed.

Lemma flt_RR : forall a b, flt NumRR a b <-> a < b.
Proof. intros a b. apply Rltb_true. Qed.

Lemma kpow_RR : forall x n, kpow NumRR x n = x ^ n.
Proof. intros x n. induction n as [|n IH]; simpl; [reflexivity | now rewrite IH]. Qed.

Lemma ksum_RR : forall l, ksum NumRR l = fold_right Rplus 0 l.
Proof. reflexivity. Qed.

Lemma exact_total_RR : forall {F} (v : F -> R) (p : tip (F:=F)),
  exact_total NumRR v p = fold_right Rplus 0 (map (fun q => v (inten q)) (peaks p)).
Proof. reflexivity. Qed.

Lemma within_RR : forall u exact got,
  within NumRR u exact got <-> exists d, Rabs d <= u /\ got = exact * (1 + d).
Proof.
  intros u exact got. unfold within. split; intros (d & H).
  - destruct H as (H1 & H2 & H3). apply fle_RR in H1. apply fle_RR in H2. simpl in H1.
    exists d. split; [apply Rabs_le; lra | exact H3].
  - destruct H as (H1 & H2). apply Rabs_le_inv in H1.
    exists d. split; [|split]; [apply fle_RR; simpl; lra | apply fle_RR; lra | exact H2].
Qed.

(* ---------- 1. the reals as an ordered field ---------- *)

Lemma OField_RR : OField NumRR.
Proof.
  constructor; simpl; try reflexivity.
  - (* field theory, inverse is x |-> 1 / x *)
    constructor.
    + exact (F_R Rfield).
    + exact (F_1_neq_0 Rfield).
    + intros p q. unfold finv; simpl. unfold Rdiv. ring.
    + intros p Hp. unfold finv; simpl. field. exact Hp.
  - intros a. apply fle_RR. lra.
  - intros a b H1 H2. apply fle_RR in H1. apply fle_RR in H2. lra.
  - intros a b c H1 H2. apply fle_RR in H1. apply fle_RR in H2. apply fle_RR. lra.
  - intros a b. destruct (Rle_or_lt a b); [left | right]; apply fle_RR; lra.
  - intros a b. unfold Rltb, Rleb. destruct (Rlt_dec a b), (Rle_dec b a); try reflexivity; lra.
  - intros a b. apply Reqb_true.
  - intros a b c H. apply fle_RR in H. apply fle_RR. simpl. lra.
  - intros a b H1 H2. apply fle_RR in H1. apply fle_RR in H2. apply fle_RR. simpl in *.
    now apply Rmult_le_pos.
  - intros a. unfold Rleb. destruct (Rle_dec 0 a).
    + now apply Rabs_pos_eq.
    + apply Rabs_left. lra.
  - intros a b. apply plus_IZR.
  - intros a b. apply mult_IZR.
  - intros a. apply opp_IZR.
Qed.

(* ---------- 2. binary64 ---------- *)

Notation emin64 := (-1074)%Z (only parsing).
Notation fexp64 := (FLT_exp (-1074) 53) (only parsing).

Lemma fin64_is_finite : forall x, fin64 x = BinarySingleNaN.is_finite (Prim2B x).
Proof.
  intros x. unfold fin64, f_is_finite. rewrite <- B2SF_Prim2B.
  now destruct (Prim2B x).
Qed.

Lemma v64_SF2R : forall x, v64 x = SF2R radix2 (Prim2SF x).
Proof. intros x. unfold v64. now rewrite <- SF2R_B2SF, B2SF_Prim2B. Qed.

Lemma v64_format : forall x, generic_format radix2 fexp64 (v64 x).
Proof. intros x. unfold v64. apply (generic_format_B2R prec emax). Qed.

Lemma v64_zero : v64 0%float = 0.
Proof. rewrite v64_SF2R. reflexivity. Qed.

Lemma v64_neg_zero : v64 (-0)%float = 0.
Proof. rewrite v64_SF2R. reflexivity. Qed.

Lemma v64_one : v64 1%float = 1.
Proof.
  rewrite v64_SF2R. change (Prim2SF 1%float) with (S754_finite false 4503599627370496 (-52)).
  unfold SF2R, F2R; simpl. lra.
Qed.

Lemma v64_min_normal : v64 0x1p-1022%float = bpow radix2 (-1022).
Proof.
  rewrite v64_SF2R. change (Prim2SF 0x1p-1022%float) with (S754_finite false 4503599627370496 (-1074)).
  unfold SF2R, F2R. change (-1022)%Z with (52 + -1074)%Z. rewrite bpow_plus.
  simpl Fnum. simpl Fexp. simpl cond_Zopp. f_equal.
Qed.

Lemma v64_abs : forall x, v64 (PrimFloat.abs x) = Rabs (v64 x).
Proof. intros x. unfold v64. rewrite abs_equiv. apply B2R_Babs. Qed.

Lemma fin64_abs : forall x, fin64 (PrimFloat.abs x) = fin64 x.
Proof. intros x. rewrite !fin64_is_finite, abs_equiv. apply is_finite_Babs. Qed.

Lemma ltb64_correct : forall x y, fin64 x = true -> fin64 y = true ->
  PrimFloat.ltb x y = Rlt_bool (v64 x) (v64 y).
Proof.
  intros x y Fx Fy. rewrite fin64_is_finite in Fx, Fy. rewrite ltb_equiv. now apply Bltb_correct.
Qed.

Lemma leb64_correct : forall x y, fin64 x = true -> fin64 y = true ->
  PrimFloat.leb x y = Rle_bool (v64 x) (v64 y).
Proof.
  intros x y Fx Fy. rewrite fin64_is_finite in Fx, Fy. rewrite leb_equiv. now apply Bleb_correct.
Qed.

Lemma eqb64_correct : forall x y, fin64 x = true -> fin64 y = true ->
  PrimFloat.eqb x y = Req_bool (v64 x) (v64 y).
Proof.
  intros x y Fx Fy. rewrite fin64_is_finite in Fx, Fy. rewrite eqb_equiv. now apply Beqb_correct.
Qed.

Lemma ltb64_pos : forall x, fin64 x = true -> PrimFloat.ltb 0%float x = true -> 0 < v64 x.
Proof.
  intros x Fx H. rewrite ltb64_correct in H by easy. rewrite v64_zero in H.
  revert H. case Rlt_bool_spec; easy.
Qed.

Lemma nrm64_spec : forall x, nrm64 x = true -> fin64 x = true /\ bpow radix2 (-1022) < Rabs (v64 x).
Proof.
  intros x H. unfold nrm64 in H. apply andb_true_iff in H. destruct H as (Fx & H).
  change (f_is_finite x) with (fin64 x) in Fx. split; [exact Fx|].
  rewrite ltb64_correct in H; [| reflexivity | now rewrite fin64_abs].
  rewrite v64_min_normal, v64_abs in H. revert H. case Rlt_bool_spec; easy.
Qed.

Lemma u64_u_ro : u64 = u_ro radix2 53.
Proof.
  unfold u64, u_ro. change (-53)%Z with (-1 + (-53 + 1))%Z. rewrite bpow_plus. reflexivity.
Qed.

Lemma u64_half : u64 = / 2 * bpow radix2 (-53 + 1).
Proof. exact u64_u_ro. Qed.

Lemma u64_pos : 0 < u64.
Proof. apply bpow_gt_0. Qed.

Lemma u64_lt_1 : u64 < 1.
Proof. change 1 with (bpow radix2 0). apply bpow_lt. lia. Qed.

(* an overflowing operation does not return a finite number *)
Lemma overflow_not_finite : forall (z : binary_float prec emax) s,
  B2SF z = binary_overflow prec emax mode_NE s -> BinarySingleNaN.is_finite z = false.
Proof. intros z s H. rewrite <- is_finite_SF_B2SF, H. reflexivity. Qed.

(* the rounding in force, as Flocq's relative-error theorems want it *)
Lemma round_above_min_normal : forall z,
  bpow radix2 (-1022) < Rabs (round radix2 fexp64 ZnearestE z) -> bpow radix2 (-1022) <= Rabs z.
Proof.
  intros z H. destruct (Rle_or_lt (bpow radix2 (-1022)) (Rabs z)) as [L|L]; [exact L|].
  exfalso. apply (Rlt_not_le _ _ H).
  apply abs_round_le_generic.
  - apply FLT_exp_valid. easy.
  - apply valid_rnd_N.
  - apply generic_format_FLT_bpow; [easy | lia].
  - lra.
Qed.

Lemma rel_err_normal : forall z, bpow radix2 (-1022) <= Rabs z ->
  within NumRR u64 z (round radix2 fexp64 ZnearestE z).
Proof.
  intros z H. apply within_RR.
  destruct (relative_error_N_FLT_ex radix2 (-1074) 53 (eq_refl _) (fun x => negb (Z.even x)) z H) as (d & Hd & E).
  exists d. split; [rewrite u64_half; exact Hd | exact E].
Qed.

Lemma binary64_add : forall a b, fin64 a = true -> fin64 b = true -> fin64 (a + b)%float = true ->
  within NumRR u64 (v64 a + v64 b) (v64 (a + b)%float).
Proof.
  intros a b Fa Fb Fr. rewrite fin64_is_finite in Fa, Fb, Fr.
  assert (Ga := v64_format a). assert (Gb := v64_format b).
  unfold v64 in *. rewrite add_equiv in *.
  generalize (Bplus_correct prec emax Hprec Hmax mode_NE (Prim2B a) (Prim2B b) Fa Fb).
  case Rlt_bool.
  - intros (E & _). rewrite E. apply within_RR.
    destruct (@FLT_plus_error_N_ex radix2 (-1074) 53 (eq_refl _) (fun x => negb (Z.even x)) _ _ Ga Gb) as (d & Hd & Ed).
    exists d. split; [| exact Ed].
    apply (Rle_trans _ _ _ Hd). rewrite u64_u_ro. apply u_rod1pu_ro_le_u_ro.
  - intros (E & _). apply overflow_not_finite in E. congruence.
Qed.

Lemma binary64_mul : forall a b, fin64 a = true -> fin64 b = true -> nrm64 (a * b)%float = true ->
  within NumRR u64 (v64 a * v64 b) (v64 (a * b)%float).
Proof.
  intros a b Fa Fb Hn. apply nrm64_spec in Hn. destruct Hn as (Fr & Hn).
  rewrite fin64_is_finite in Fa, Fb, Fr. unfold v64 in *. rewrite mul_equiv in *.
  generalize (Bmult_correct prec emax Hprec Hmax mode_NE (Prim2B a) (Prim2B b)).
  case Rlt_bool.
  - intros (E & _). rewrite E in *. apply rel_err_normal. now apply round_above_min_normal.
  - intros E. apply overflow_not_finite in E. congruence.
Qed.

Lemma binary64_div : forall a b, fin64 a = true -> fin64 b = true -> v64 b <> 0 -> nrm64 (a / b)%float = true ->
  within NumRR u64 (v64 a / v64 b) (v64 (a / b)%float).
Proof.
  intros a b Fa Fb Zb Hn. apply nrm64_spec in Hn. destruct Hn as (Fr & Hn).
  rewrite fin64_is_finite in Fa, Fb, Fr. unfold v64 in *. rewrite div_equiv in *.
  generalize (Bdiv_correct prec emax Hprec Hmax mode_NE (Prim2B a) (Prim2B b) Zb).
  case Rlt_bool.
  - intros (E & _). rewrite E in *. apply rel_err_normal. now apply round_above_min_normal.
  - intros E. apply overflow_not_finite in E. congruence.
Qed.

Lemma binary64_std_model : StdModel NumF NumRR v64 u64 fin64 nrm64.
Proof.
  constructor; simpl.
  - apply fle_RR. apply Rlt_le, u64_pos.
  - apply flt_RR. apply u64_lt_1.
  - exact v64_neg_zero.
  - exact v64_zero.
  - exact v64_one.
  - reflexivity.
  - reflexivity.
  - intros a H. now apply nrm64_spec in H.
  - exact binary64_add.
  - exact binary64_mul.
  - exact binary64_div.
Qed.

(* why [nrm64] is "finite and strictly above 2^-1022" and not "finite and zero or at least 2^-1022": with either of the
   latter two allowances [sm_mul] fails.  c * c = 0 although c is finite and non-zero; and a * b, whose exact value is
   (2^53 - 1) * 2^-1075, is returned as 2^-1022: relative error 2^-53 / (1 - 2^-53) > u64. *)
Example nrm64_boundary :
  let c := 0x1p-600%float in
  let a := Z.ldexp (f_of_Z 441650591) (-500) in
  let b := Z.ldexp (f_of_Z 20394401) (-575) in
  fin64 c = true /\ PrimFloat.eqb c 0 = false /\ PrimFloat.eqb (c * c) 0 = true /\ nrm64 (c * c) = false
  /\ (441650591 * 20394401 =? 2 ^ 53 - 1)%Z = true /\ (-500 + -575 =? -1075)%Z = true
  /\ fin64 a = true /\ fin64 b = true /\ PrimFloat.eqb (a * b) 0x1p-1022 = true /\ nrm64 (a * b) = false.
Proof. vm_compute. repeat split. Qed.

(* ---------- 3. normalize at binary64 ---------- *)

Lemma normalize_safe_fin : forall {F} (N : Num F) (fin nrm : F -> bool) (p : tip (F:=F)),
  normalize_safe N fin nrm p = true -> forall q, In q (peaks p) -> fin (inten q) = true.
Proof.
  intros F N fin nrm p H q Hq. unfold normalize_safe in H.
  apply andb_true_iff in H. destruct H as (H & _).
  apply andb_true_iff in H. destruct H as (H & _).
  apply andb_true_iff in H. destruct H as (H & _).
  rewrite forallb_forall in H. apply H. now apply in_map.
Qed.

Lemma positive_binary64 : forall p : tip (F:=PrimFloat.float),
  (forall q, In q (peaks p) -> PrimFloat.ltb 0%float (inten q) = true) ->
  normalize_safe NumF fin64 nrm64 p = true -> positive NumRR v64 p.
Proof.
  intros p Hp Hs q Hq. apply flt_RR. simpl.
  apply ltb64_pos; [exact (normalize_safe_fin _ _ _ _ Hs q Hq) | now apply Hp].
Qed.

Lemma normalize_binary64 :
  forall p : tip (F:=PrimFloat.float), peaks p <> [] ->
  (forall q, In q (peaks p) -> PrimFloat.ltb 0%float (inten q) = true) ->
  normalize_safe NumF fin64 nrm64 p = true ->
  let n := length (peaks p) in
  let s := fold_right Rplus 0%R (map (fun q => v64 (inten q)) (peaks (normalize NumF p))) in
  ((1 - u64) ^ 2 / (1 + u64) ^ n <= s /\ s <= (1 + u64) ^ 2 / (1 - u64) ^ n)%R.
Proof.
  intros p Hne Hpos Hs n s.
  destruct (normalize_rounded NumF NumRR v64 u64 fin64 nrm64 OField_RR binary64_std_model p Hne
              (positive_binary64 p Hpos Hs) Hs) as (_ & _ & Hlo & Hhi & _).
  apply fle_RR in Hlo. apply fle_RR in Hhi.
  rewrite !kpow_RR in Hlo, Hhi. rewrite exact_total_RR in Hlo, Hhi.
  split; [exact Hlo | exact Hhi].
Qed.

Print Assumptions OField_RR.
Print Assumptions binary64_std_model.
Print Assumptions normalize_binary64.
