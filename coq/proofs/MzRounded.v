(* Proofs for C10f: neutral_mass undoes mass_charge_ratio up to five roundings, in any numeric interpretation
   satisfying the extended standard model of rounding into an ordered field. *)
From Coq Require Import ZArith List Bool Arith Lia Field Ring Field_theory Ring_theory.
From CE Require Import Num OField Mz Rounded RoundedExt MzRoundedSpec RoundedProofs.
Import ListNotations.

(* ------------------------------------------------------------------------------------------ *)
(* Absolute value, integers, and relative-error products over an arbitrary ordered field.      *)
Section AbsK.
  Context {K : Type} (NK : Num K).
  Hypothesis OF : OField NK.
  Add Field FkA : (of_field NK OF).

  Local Notation k0 := (zero NK).
  Local Notation k1 := (one NK).
  Local Infix "+!" := (add NK) (at level 50, left associativity).
  Local Infix "-!" := (sub NK) (at level 50, left associativity).
  Local Infix "*!" := (mul NK) (at level 40, left associativity).
  Local Infix "/!" := (div NK) (at level 40, left associativity).
  Local Infix "<=!" := (fle NK) (at level 70).
  Local Infix "<!" := (flt NK) (at level 70).
  Local Notation "-! x" := (opp NK x) (at level 35, right associativity).
  Local Notation "|! x |" := (abs NK x) (at level 0, x at level 99).

  Lemma kopp_nonneg a : a <=! k0 -> k0 <=! -! a.
  Proof. intros H. replace (-! a) with (k0 -! a) by ring. apply (ksub_of_le NK OF). exact H. Qed.

  Lemma kopp_le a b : a <=! b -> -! b <=! -! a.
  Proof.
    intros H. apply (kle_of_sub NK OF). replace (-! a -! -! b) with (b -! a) by ring.
    apply (ksub_of_le NK OF). exact H.
  Qed.

  Lemma kabs_cases a : (k0 <=! a /\ |! a | = a) \/ (a <=! k0 /\ |! a | = -! a).
  Proof.
    rewrite (of_abs_def NK OF). destruct (leb NK k0 a) eqn:E.
    - left. split; [exact E|reflexivity].
    - right. split; [|reflexivity].
      destruct (of_le_total NK OF k0 a) as [H|H]; [|exact H].
      unfold fle in H. rewrite H in E. discriminate E.
  Qed.

  Lemma kabs_nonneg a : k0 <=! |! a |.
  Proof. destruct (kabs_cases a) as [[H ->]|[H ->]]; [exact H|apply kopp_nonneg; exact H]. Qed.

  Lemma kabs_pos_eq a : k0 <=! a -> |! a | = a.
  Proof.
    intros H. destruct (kabs_cases a) as [[_ E]|[H' E]]; [exact E|].
    rewrite E. assert (a = k0) as -> by (apply (of_le_antisym NK OF); assumption). ring.
  Qed.

  Lemma kle_abs a : a <=! |! a |.
  Proof.
    destruct (kabs_cases a) as [[H ->]|[H ->]]; [apply (kle_refl NK OF)|].
    apply (kle_trans NK OF _ k0); [exact H|apply kopp_nonneg; exact H].
  Qed.

  Lemma kabs_opp a : |! -! a | = |! a |.
  Proof.
    destruct (kabs_cases a) as [[H E]|[H E]]; destruct (kabs_cases (-! a)) as [[H' E']|[H' E']]; rewrite E, E'.
    - assert (k0 <=! a -> k0 <=! -! a -> -! a = a) as X; [|apply X; assumption].
      intros A B. assert (a = k0) as ->; [|ring].
      apply (of_le_antisym NK OF); [|exact A]. replace a with (-! -! a) by ring.
      replace k0 with (-! k0) by ring. apply kopp_le. exact B.
    - ring.
    - reflexivity.
    - assert (a = k0) as ->; [|ring].
      apply (of_le_antisym NK OF); [exact H|].
      replace a with (-! -! a) by ring. apply kopp_nonneg. exact H'.
  Qed.

  Lemma kle_opp_abs a : -! a <=! |! a |.
  Proof. rewrite <- kabs_opp. apply kle_abs. Qed.

  (* |a| <= e  from  -e <= a <= e *)
  Lemma kabs_le a e : -! e <=! a -> a <=! e -> |! a | <=! e.
  Proof.
    intros H1 H2. destruct (kabs_cases a) as [[_ ->]|[_ ->]]; [exact H2|].
    replace e with (-! -! e) by ring. apply kopp_le. exact H1.
  Qed.

  Lemma kabs_mul a b : |! a *! b | = |! a | *! |! b |.
  Proof.
    assert (P : forall x y, k0 <=! x -> k0 <=! y -> |! x *! y | = x *! y).
    { intros x y Hx Hy. apply kabs_pos_eq. apply (kmul_nonneg NK OF); assumption. }
    destruct (kabs_cases a) as [[Ha ->]|[Ha ->]]; destruct (kabs_cases b) as [[Hb ->]|[Hb ->]].
    - apply P; assumption.
    - rewrite <- kabs_opp. replace (-! (a *! b)) with (a *! -! b) by ring.
      apply P; [exact Ha|apply kopp_nonneg; exact Hb].
    - rewrite <- kabs_opp. replace (-! (a *! b)) with (-! a *! b) by ring.
      apply P; [apply kopp_nonneg; exact Ha|exact Hb].
    - replace (a *! b) with (-! a *! -! b) by ring.
      apply P; apply kopp_nonneg; assumption.
  Qed.

  Lemma kabs_triangle a b : |! a +! b | <=! |! a | +! |! b |.
  Proof.
    apply kabs_le.
    - replace (-! (|! a | +! |! b |)) with (-! |! a | +! -! |! b |) by ring.
      apply (kle_add NK OF).
      + replace a with (-! -! a) at 2 by ring. apply kopp_le. apply kle_opp_abs.
      + replace b with (-! -! b) at 2 by ring. apply kopp_le. apply kle_opp_abs.
    - apply (kle_add NK OF); apply kle_abs.
  Qed.

  Lemma kabs_neq0 a : a <> k0 -> |! a | <> k0.
  Proof.
    intros Ha. destruct (kabs_cases a) as [[_ ->]|[_ ->]]; [exact Ha|].
    intros E. apply Ha. replace a with (-! -! a) by ring. rewrite E. ring.
  Qed.

  (* a <= b, c <= d with everything non-negative: a c <= b d *)
  Lemma kle_mul a b c d : k0 <=! a -> k0 <=! c -> a <=! b -> c <=! d -> a *! c <=! b *! d.
  Proof.
    intros Ha Hc Hab Hcd. apply (kle_trans NK OF _ (a *! d)).
    - apply (kle_mul_l NK OF); assumption.
    - apply (kle_mul_r NK OF); [exact Hab|]. apply (kle_trans NK OF _ c); assumption.
  Qed.

  (* ---- the integers embed: of_Z z <> 0 for z <> 0 ---- *)
  Lemma of_Z_pos_pos p : k0 <! of_Z NK (Z.pos p).
  Proof.
    induction p as [|p IH] using Pos.peano_ind.
    - rewrite (of_Z_1 NK OF). apply (k01 NK OF).
    - rewrite Pos2Z.inj_succ. unfold Z.succ. rewrite (of_Z_add NK OF), (of_Z_1 NK OF).
      apply (klt_le_trans NK OF _ (of_Z NK (Z.pos p))); [exact IH|].
      apply (kle_of_sub NK OF). replace (of_Z NK (Z.pos p) +! k1 -! of_Z NK (Z.pos p)) with k1 by ring.
      apply (klt_le NK OF). apply (k01 NK OF).
  Qed.

  Lemma of_Z_neq0 z : z <> 0%Z -> of_Z NK z <> k0.
  Proof.
    intros Hz. destruct z as [|p|p]; [exfalso; apply Hz; reflexivity| |].
    - apply (klt_neq NK OF). apply of_Z_pos_pos.
    - change (Z.neg p) with (- Z.pos p)%Z. rewrite (of_Z_opp NK OF).
      pose proof (klt_neq NK OF _ _ (of_Z_pos_pos p)) as H. intros E. apply H.
      replace (of_Z NK (Z.pos p)) with (-! -! of_Z NK (Z.pos p)) by ring. rewrite E. ring.
  Qed.

  Lemma of_Z_abs_pos z : z <> 0%Z -> k0 <! |! of_Z NK z |.
  Proof.
    intros Hz. apply (klt_iff NK OF). split; [apply kabs_nonneg|].
    intros E. symmetry in E. revert E. apply kabs_neq0. apply of_Z_neq0. exact Hz.
  Qed.

  (* ---- accumulated relative errors ---- *)
  Context (u : K).
  Hypothesis Hu : k0 <=! u.
  Local Notation op := (k1 +! u).

  Lemma op_ge_1 : k1 <=! op.
  Proof. apply (kle_of_sub NK OF). replace (op -! k1) with u by ring. exact Hu. Qed.

  Lemma op_nonneg : k0 <=! op.
  Proof. apply (kle_trans NK OF _ k1); [apply (klt_le NK OF); apply (k01 NK OF)|exact op_ge_1]. Qed.

  Lemma kabs_d d : -! u <=! d -> d <=! u -> |! d | <=! u.
  Proof. apply kabs_le. Qed.

  Lemma kabs_1d d : -! u <=! d -> d <=! u -> |! k1 +! d | <=! op.
  Proof.
    intros H1 H2. apply (kle_trans NK OF _ (|! k1 | +! |! d |)); [apply kabs_triangle|].
    rewrite (kabs_pos_eq k1) by (apply (klt_le NK OF); apply (k01 NK OF)).
    apply (kle_add NK OF); [apply (kle_refl NK OF)|apply kabs_le; assumption].
  Qed.

  (* one more factor: |p - 1| <= e  ->  |p (1 + d) - 1| <= e (1 + u) + u *)
  Lemma relerr_step p e d : |! p -! k1 | <=! e -> -! u <=! d -> d <=! u ->
    |! p *! (k1 +! d) -! k1 | <=! e *! op +! u.
  Proof.
    intros Hp H1 H2.
    replace (p *! (k1 +! d) -! k1) with ((p -! k1) *! (k1 +! d) +! d) by ring.
    apply (kle_trans NK OF _ (|! (p -! k1) *! (k1 +! d) | +! |! d |)); [apply kabs_triangle|].
    apply (kle_add NK OF); [|apply kabs_le; assumption].
    rewrite kabs_mul. apply kle_mul; [apply kabs_nonneg|apply kabs_nonneg|exact Hp|apply kabs_1d; assumption].
  Qed.

  Lemma relerr_1 d : -! u <=! d -> d <=! u -> |! (k1 +! d) -! k1 | <=! kpow NK op 1 -! k1.
  Proof.
    intros H1 H2. cbn [kpow]. replace (k1 +! d -! k1) with d by ring.
    replace (op *! k1 -! k1) with u by ring. apply kabs_le; assumption.
  Qed.

  Lemma relerr_S p n d : |! p -! k1 | <=! kpow NK op n -! k1 -> -! u <=! d -> d <=! u ->
    |! p *! (k1 +! d) -! k1 | <=! kpow NK op (S n) -! k1.
  Proof.
    intros Hp H1 H2. eapply (kle_trans NK OF); [apply relerr_step; eassumption|].
    apply (kle_eq NK OF). cbn [kpow]. ring.
  Qed.
End AbsK.

(* ------------------------------------------------------------------------------------------ *)
Section MzRoundedAux.
  Context {F K : Type} (N : Num F) (NK : Num K) (v : F -> K) (u : K) (fin nrm : F -> bool).
  Hypothesis OF : OField NK.
  Hypothesis SX : StdModelExt N NK v u fin nrm.
  Add Field FkM : (of_field NK OF).

  Local Notation k0 := (zero NK).
  Local Notation k1 := (one NK).
  Local Infix "+!" := (add NK) (at level 50, left associativity).
  Local Infix "-!" := (sub NK) (at level 50, left associativity).
  Local Infix "*!" := (mul NK) (at level 40, left associativity).
  Local Infix "/!" := (div NK) (at level 40, left associativity).
  Local Infix "<=!" := (fle NK) (at level 70).
  Local Notation "|! x |" := (abs NK x) (at level 0, x at level 99).
  Local Notation op := (k1 +! u).

  Let SM : StdModel N NK v u fin nrm := sx_base _ _ _ _ _ _ SX.

  Theorem inverse_rounded_aux :
    forall (m : F) (z : Z) (c : F), z <> 0%Z -> (Z.abs z <= 2 ^ 53)%Z -> mz_safe N fin nrm m z c = true ->
    let r := neutral_mass N (mass_charge_ratio N m z c) z c in
    let e1 := sub NK (kpow NK (add NK (one NK) u) 4) (one NK) in
    fle NK (abs NK (sub NK (v r) (v m)))
           (mul NK e1 (add NK (abs NK (v m)) (mul NK (add NK (one NK) u) (abs NK (mul NK (of_Z NK z) (v c)))))).
  Proof.
    intros m z c Hz Hzb Hs r e1.
    pose proof (u_nonneg N NK v u fin nrm SM) as Hu.
    unfold mz_safe in Hs. cbn zeta in Hs.
    unfold r, neutral_mass, mass_charge_ratio. cbn zeta. clear r.
    destruct (sx_of_Z _ _ _ _ _ _ SX z Hzb) as [Vz Fz].
    set (zf := of_Z N z) in *.
    destruct (sx_abs _ _ _ _ _ _ SX zf Fz) as [Va Fa]. rewrite Vz in Va.
    set (az := abs N zf) in *.
    set (t := mul N zf c) in *. set (a := add N m t) in *.
    set (q := div N a az) in *. set (b := mul N q az) in *.
    apply andb_true_iff in Hs. destruct Hs as [Hs Fr].
    apply andb_true_iff in Hs. destruct Hs as [Hs Nb].
    apply andb_true_iff in Hs. destruct Hs as [Hs Nq].
    apply andb_true_iff in Hs. destruct Hs as [Hs Fadd].
    apply andb_true_iff in Hs. destruct Hs as [Hs Nt].
    apply andb_true_iff in Hs. destruct Hs as [Fm Fc].
    pose proof (sm_nrm_fin _ _ _ _ _ _ SM _ Nt) as Ft.
    pose proof (sm_nrm_fin _ _ _ _ _ _ SM _ Nq) as Fq.
    pose proof (sm_nrm_fin _ _ _ _ _ _ SM _ Nb) as Fb.
    set (Z0 := of_Z NK z) in *. set (A := |! Z0 |) in *.
    assert (HA : A <> k0) by (apply (kabs_neq0 NK OF); apply (of_Z_neq0 NK OF); exact Hz).
    assert (HvA : v az <> k0) by (rewrite Va; exact HA).
    destruct (sm_mul _ _ _ _ _ _ SM zf c Fz Fc Nt) as (d1 & L1 & U1 & E1). fold t in E1. rewrite Vz in E1.
    destruct (sm_add _ _ _ _ _ _ SM m t Fm Ft Fadd) as (d2 & L2 & U2 & E2). fold a in E2.
    destruct (sm_div _ _ _ _ _ _ SM a az Fadd Fa HvA Nq) as (d3 & L3 & U3 & E3). fold q in E3. rewrite Va in E3.
    destruct (sm_mul _ _ _ _ _ _ SM q az Fq Fa Nb) as (d4 & L4 & U4 & E4). fold b in E4. rewrite Va in E4.
    destruct (sx_sub _ _ _ _ _ _ SX b t Fb Ft Fr) as (d5 & L5 & U5 & E5).
    set (vm := v m) in *. set (vc := v c) in *. set (vt := v t) in *.
    set (P := (k1 +! d2) *! (k1 +! d3) *! (k1 +! d4)).
    assert (Eb : v b = (vm +! vt) *! P).
    { rewrite E4, E3, E2. unfold P. field. exact HA. }
    assert (Er : v (sub N b t) -! vm = vm *! (P *! (k1 +! d5) -! k1) +! vt *! ((P -! k1) *! (k1 +! d5))).
    { rewrite E5, Eb. ring. }
    rewrite Er. clear Er E5 Eb E4 E3 E2.
    (* error factors *)
    assert (HP3 : |! P -! k1 | <=! kpow NK op 3 -! k1).
    { unfold P. apply (relerr_S NK OF u); [|assumption|assumption].
      apply (relerr_S NK OF u); [|assumption|assumption].
      apply (relerr_1 NK OF u); assumption. }
    assert (HX : |! P *! (k1 +! d5) -! k1 | <=! e1).
    { unfold e1. apply (relerr_S NK OF u); assumption. }
    assert (H3nn : k0 <=! kpow NK op 3 -! k1).
    { apply (kle_trans NK OF _ (|! P -! k1 |)); [apply (kabs_nonneg NK OF)|exact HP3]. }
    assert (HY : |! (P -! k1) *! (k1 +! d5) | <=! e1).
    { rewrite (kabs_mul NK OF).
      apply (kle_trans NK OF _ ((kpow NK op 3 -! k1) *! op)).
      - apply (kle_mul NK OF); [apply (kabs_nonneg NK OF)|apply (kabs_nonneg NK OF)|exact HP3|].
        apply (kabs_1d NK OF u); assumption.
      - unfold e1. apply (kle_of_sub NK OF). cbn [kpow].
        match goal with |- k0 <=! ?x => replace x with u by ring end. exact Hu. }
    assert (Ht : |! vt | <=! op *! |! Z0 *! vc |).
    { rewrite E1, (kabs_mul NK OF).
      replace (op *! |! Z0 *! vc |) with (|! Z0 *! vc | *! op) by ring.
      apply (kle_mul_l NK OF); [|apply (kabs_nonneg NK OF)]. apply (kabs_1d NK OF u); assumption. }
    assert (He1 : k0 <=! e1).
    { apply (kle_trans NK OF _ (|! P *! (k1 +! d5) -! k1 |)); [apply (kabs_nonneg NK OF)|exact HX]. }
    eapply (kle_trans NK OF); [apply (kabs_triangle NK OF)|].
    rewrite (kabs_mul NK OF vm), (kabs_mul NK OF vt).
    replace (e1 *! (|! vm | +! op *! |! Z0 *! vc |)) with (|! vm | *! e1 +! (op *! |! Z0 *! vc |) *! e1) by ring.
    apply (kle_add NK OF).
    - apply (kle_mul_l NK OF); [exact HX|apply (kabs_nonneg NK OF)].
    - apply (kle_mul NK OF); [apply (kabs_nonneg NK OF)|apply (kabs_nonneg NK OF)|exact Ht|exact HY].
  Qed.
End MzRoundedAux.

Section MzRounded.
  Context {F K : Type} (N : Num F) (NK : Num K) (v : F -> K) (u : K) (fin nrm : F -> bool).
  Theorem inverse_rounded :
    OField NK -> StdModelExt N NK v u fin nrm ->
    forall (m : F) (z : Z) (c : F), z <> 0%Z -> (Z.abs z <= 2 ^ 53)%Z -> mz_safe N fin nrm m z c = true ->
    let r := neutral_mass N (mass_charge_ratio N m z c) z c in
    let e1 := sub NK (kpow NK (add NK (one NK) u) 4) (one NK) in
    fle NK (abs NK (sub NK (v r) (v m)))
           (mul NK e1 (add NK (abs NK (v m)) (mul NK (add NK (one NK) u) (abs NK (mul NK (of_Z NK z) (v c)))))).
  Proof. intros OF SX. exact (inverse_rounded_aux N NK v u fin nrm OF SX). Qed.
End MzRounded.

Print Assumptions inverse_rounded.
