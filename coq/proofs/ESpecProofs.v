(* Proofs for C16: the element-specification parser is total, sound, inverts Display, and the
   string-keyed reads of both representations return the count of the entry the text denotes. *)
From Coq Require Import List ZArith NArith Bool Arith String Lia.
From CE Require Import Str TableTypes TableModel Comp ESpec CompSpec CompArith CompSim.
Import ListNotations.
Local Open Scope nat_scope.

(* ------------------------------------------------------------------------------------------ *)
(* totality *)
Lemma parse_total : forall (tbl : list (string * elem)) s, espec_parse tbl s <> EPanic.
Proof.
  intros tbl s. unfold espec_parse.
  destruct (split_lb s) as [[sym rest]|].
  - destruct (strip_rb rest) as [ds|]; [|discriminate].
    destruct (negb (forallb is_digit ds)); [discriminate|].
    destruct (parse_u16 ds) as [n|]; [|discriminate].
    destruct (has_elem tbl sym); [|discriminate].
    destruct (has_iso tbl sym n); discriminate.
  - destruct (has_elem tbl s); discriminate.
Qed.

(* ------------------------------------------------------------------------------------------ *)
(* soundness *)
Lemma split_lb_some : forall s a b, split_lb s = Some (a, b) -> s = (a ++ [LB] ++ b)%list.
Proof.
  induction s as [|c t IH]; intros a b H.
  - discriminate H.
  - cbn [split_lb] in H. destruct (c =? LB)%N eqn:E.
    + apply N.eqb_eq in E. inversion H. subst. reflexivity.
    + destruct (split_lb t) as [[a' b']|]; [|discriminate H]. inversion H. subst.
      cbn [app]. f_equal. apply (IH a' b). reflexivity.
Qed.

Lemma strip_rb_some : forall r ds, strip_rb r = Some ds -> r = (ds ++ [RB])%list.
Proof.
  intros r ds H. unfold strip_rb in H. destruct (rev r) as [|c q] eqn:E; [discriminate H|].
  destruct (c =? RB)%N eqn:Ec; [|discriminate H]. apply N.eqb_eq in Ec. inversion H. subst.
  rewrite <- (rev_involutive r), E. reflexivity.
Qed.

Lemma parse_sound : forall (tbl : list (string * elem)) s k, espec_parse tbl s = EOk k ->
  has_elem tbl (fst k) = true /\
  ((s = fst k /\ snd k = 0%N /\ split_lb s = None) \/
   (exists ds, s = (fst k ++ [LB] ++ ds ++ [RB])%list /\ ds <> [] /\ forallb is_digit ds = true
               /\ parse_u16 ds = Some (snd k) /\ has_iso tbl (fst k) (snd k) = true)).
Proof.
  intros tbl s k H. unfold espec_parse in H.
  destruct (split_lb s) as [[sym rest]|] eqn:Es.
  - destruct (strip_rb rest) as [ds|] eqn:Er; [|discriminate H].
    destruct (forallb is_digit ds) eqn:Ed; cbn [negb] in H; [|discriminate H].
    destruct (parse_u16 ds) as [n|] eqn:En; [|discriminate H].
    destruct (has_elem tbl sym) eqn:He; [|discriminate H].
    destruct (has_iso tbl sym n) eqn:Hi; [|discriminate H].
    inversion H. subst k. cbn [fst snd]. split; [exact He|]. right. exists ds.
    split; [|split; [|split; [|split]]].
    + apply split_lb_some in Es. apply strip_rb_some in Er. subst rest. exact Es.
    + intros E. subst ds. vm_compute in En. discriminate En.
    + exact Ed.
    + exact En.
    + exact Hi.
  - destruct (has_elem tbl s) eqn:He; [|discriminate H]. inversion H. subst k. cbn [fst snd].
    split; [exact He|]. left. split; [reflexivity|]. split; reflexivity.
Qed.

(* ------------------------------------------------------------------------------------------ *)
(* decimal text: u16::to_string / i32::to_string followed by str::parse *)
Lemma digits_val_app : forall a b acc,
  digits_val (a ++ b) acc = match digits_val a acc with Some v => digits_val b v | None => None end.
Proof.
  induction a as [|c a IH]; intros b acc; cbn [app digits_val]; [reflexivity|].
  destruct (is_digit c); [apply IH | reflexivity].
Qed.

Lemma digit_char : forall d : N, (d < 10)%N -> is_digit (48 + d)%N = true.
Proof.
  intros d H. unfold is_digit. apply andb_true_iff. split; apply N.leb_le; lia.
Qed.

Lemma dof_spec : forall fuel n acc, (n < 2 ^ N.of_nat fuel)%N ->
  exists ds, digits_of_fuel fuel n acc = (ds ++ acc)%list /\ forallb is_digit ds = true
             /\ digits_val ds 0 = Some n /\ (fuel <> 0 -> ds <> []).
Proof.
  induction fuel as [|f IH]; intros n acc H.
  - exists []. assert (E : n = 0%N) by (cbn in H; lia). subst n.
    split; [reflexivity|]. split; [reflexivity|]. split; [reflexivity|]. intros C. exfalso. apply C. reflexivity.
  - cbn [digits_of_fuel].
    pose proof (N.div_mod n 10 ltac:(lia)) as Hdm.
    pose proof (N.mod_lt n 10 ltac:(lia)) as Hml.
    pose proof (digit_char (n mod 10) Hml) as Hd.
    destruct (n <? 10)%N eqn:E.
    + apply N.ltb_lt in E. exists [(48 + n mod 10)%N].
      split; [reflexivity|]. split; [cbn [forallb]; rewrite Hd; reflexivity|].
      split; [|intros _; discriminate].
      cbn [digits_val]. rewrite Hd. f_equal. rewrite (N.mod_small n 10 E). lia.
    + apply N.ltb_ge in E.
      assert (Hb : (n / 10 < 2 ^ N.of_nat f)%N).
      { rewrite Nat2N.inj_succ, N.pow_succ_r' in H. apply N.div_lt_upper_bound; lia. }
      destruct (IH (n / 10)%N ((48 + n mod 10)%N :: acc) Hb) as [ds [E1 [E2 [E3 _]]]].
      exists (ds ++ [(48 + n mod 10)%N])%list. rewrite E1, <- app_assoc.
      split; [reflexivity|]. split; [|split].
      * rewrite forallb_app, E2. cbn [forallb]. rewrite Hd. reflexivity.
      * rewrite digits_val_app, E3. cbn [digits_val]. rewrite Hd. f_equal. clear - Hdm Hml. set (q := (n / 10)%N) in *. set (m := (n mod 10)%N) in *. clearbody q m. lia.
      * intros _ C. apply app_eq_nil in C. destruct C as [_ C]. discriminate C.
Qed.

Lemma show_N_spec : forall n,
  forallb is_digit (show_N n) = true /\ digits_val (show_N n) 0 = Some n /\ show_N n <> [].
Proof.
  intros n. unfold show_N.
  destruct (dof_spec (S (N.to_nat (N.log2 n))) n []) as [ds [E1 [E2 [E3 E4]]]].
  - rewrite Nat2N.inj_succ, N2Nat.id. destruct n as [|p]; [reflexivity|].
    apply N.log2_spec. lia.
  - rewrite E1, app_nil_r. split; [exact E2|]. split; [exact E3|]. apply E4. discriminate.
Qed.

Lemma parse_uint_show : forall bound n, (n <= bound)%N -> parse_uint bound (show_N n) = Some n.
Proof.
  intros bound n H. destruct (show_N_spec n) as [_ [E2 E3]]. unfold parse_uint.
  destruct (show_N n) as [|c r] eqn:E; [exfalso; apply E3; reflexivity|].
  rewrite E2. apply N.leb_le in H. rewrite H. reflexivity.
Qed.

(* ------------------------------------------------------------------------------------------ *)
(* Display then parse *)
Lemma split_lb_app : forall a b, forallb plain_char a = true -> split_lb (a ++ [LB] ++ b) = Some (a, b).
Proof.
  induction a as [|c a IH]; intros b H.
  - reflexivity.
  - cbn [forallb] in H. apply andb_true_iff in H. destruct H as [H1 H2].
    apply plain_char_inv in H1. destruct H1 as [_ [H1 _]].
    cbn [app split_lb]. rewrite H1. cbn [app] in IH. rewrite (IH b H2). reflexivity.
Qed.

Lemma strip_rb_app : forall ds, strip_rb (ds ++ [RB]) = Some ds.
Proof.
  intros ds. unfold strip_rb. rewrite rev_app_distr. cbn [rev app].
  change ((RB =? RB)%N) with true. cbv iota. rewrite rev_involutive. reflexivity.
Qed.

Lemma roundtrip : forall (tbl : list (string * elem)), table_syms_ok tbl = true -> forall k,
  has_elem tbl (fst k) = true -> (snd k = 0%N \/ has_iso tbl (fst k) (snd k) = true) -> (snd k < 65536)%N ->
  espec_parse tbl (show_key k) = EOk k.
Proof.
  intros tbl Ht [sym iso] He Hi Hlt. cbn [fst snd] in *. unfold show_key. cbn [fst snd].
  destruct (iso =? 0)%N eqn:E.
  - apply N.eqb_eq in E. subst iso. apply espec_parse_plain; assumption.
  - apply N.eqb_neq in E. destruct Hi as [Hi | Hi]; [contradiction|].
    pose proof (has_elem_sym_ok tbl sym Ht He) as Hok.
    apply sym_ok_inv in Hok. destruct Hok as [c [r [_ [_ [Hp _]]]]].
    destruct (show_N_spec iso) as [D1 _].
    unfold espec_parse. rewrite (split_lb_app sym _ Hp), strip_rb_app, D1. cbn [negb].
    unfold parse_u16. rewrite (parse_uint_show 65535 iso) by lia. rewrite He, Hi. reflexivity.
Qed.

(* ------------------------------------------------------------------------------------------ *)
(* the quick check *)
Lemma alphabetic_not_LB : forall u c, is_alphabetic u c = true -> (c =? LB)%N = false.
Proof.
  intros u c H. destruct (N.eqb_spec c LB) as [E|E]; [|reflexivity]. subst c. vm_compute in H. discriminate H.
Qed.

Lemma width_ge1 : forall c, 1 <= width c.
Proof.
  intro c. unfold width. destruct (c <? 128)%N; [lia|]. destruct (c <? 2048)%N; [lia|].
  destruct (c <? 65536)%N; lia.
Qed.

Lemma len_le_blen : forall s, List.length s <= blen s.
Proof.
  induction s as [|c t IH]; [apply Nat.le_refl|]. cbn [List.length blen].
  pose proof (width_ge1 c). lia.
Qed.

(* a positive answer is only given to text without an opening bracket *)
Lemma likeyes_split : forall u s, quick_check u s = LikeYes -> split_lb s = None.
Proof.
  intros u s H. destruct s as [|c [|c2 [|c3 r]]].
  - discriminate H.
  - assert (Ha : is_alphabetic u c = true).
    { destruct (is_alphabetic u c) eqn:Ea; [reflexivity|]. exfalso.
      cbv beta iota zeta delta [quick_check rev app] in H. rewrite Ea in H.
      destruct (Nat.eqb (blen [c]) 1); [discriminate H|].
      destruct (Nat.ltb (blen [c]) 3); [rewrite andb_false_r in H; discriminate H|].
      destruct (Nat.eqb (blen [c]) 4); discriminate H. }
    cbn [split_lb]. rewrite (alphabetic_not_LB u c Ha). reflexivity.
  - cbv beta iota zeta delta [quick_check rev app] in H.
    pose proof (width_ge1 c) as W1. pose proof (width_ge1 c2) as W2.
    assert (Hn : blen [c; c2] = width c + (width c2 + 0)) by reflexivity.
    destruct (Nat.eqb_spec (blen [c; c2]) 1) as [E1|E1]; [lia|].
    destruct (Nat.ltb (blen [c; c2]) 3).
    + destruct (negb (c2 =? LB)%N && negb (c2 =? RB)%N && is_alphabetic u c) eqn:E; [|discriminate H].
      apply andb_true_iff in E. destruct E as [E Ha]. apply andb_true_iff in E. destruct E as [E2 _].
      apply negb_true_iff in E2.
      cbn [split_lb]. rewrite (alphabetic_not_LB u c Ha), E2. reflexivity.
    + destruct (Nat.eqb (blen [c; c2]) 4); [|discriminate H].
      destruct (is_alphabetic u c); [|discriminate H]. destruct (c2 =? RB)%N; discriminate H.
  - exfalso. cbv beta iota zeta delta [quick_check] in H.
    pose proof (len_le_blen (c :: c2 :: c3 :: r)) as L. cbn [List.length] in L.
    destruct (Nat.eqb_spec (blen (c :: c2 :: c3 :: r)) 1) as [E1|E1]; [lia|].
    destruct (Nat.ltb_spec (blen (c :: c2 :: c3 :: r)) 3) as [E2|E2]; [lia|].
    destruct (Nat.eqb (blen (c :: c2 :: c3 :: r)) 4); [|discriminate H].
    destruct (is_alphabetic u c); [|discriminate H].
    match type of H with (if ?b then _ else _) = _ => destruct b end; discriminate H.
Qed.

(* text of four or more bytes that starts with a letter and ends with ']' is always handed to the parser *)
Lemma quick_check_bracket : forall u c m, is_alphabetic u c = true -> 4 <= blen (c :: m ++ [RB]) ->
  quick_check u (c :: m ++ [RB]) = LikeMaybe.
Proof.
  intros u c m Ha Hn.
  assert (Er : exists x q, rev (c :: m ++ [RB]) = RB :: x :: q).
  { cbn [rev]. rewrite rev_app_distr. cbn [rev app].
    destruct (rev m ++ [c])%list as [|x q] eqn:E.
    - apply app_eq_nil in E. destruct E as [_ E]. discriminate E.
    - exists x, q. reflexivity. }
  destruct Er as [x [q Er]].
  cbv beta iota zeta delta [quick_check]. rewrite Er, Ha. cbv beta iota.
  change ((RB =? RB)%N) with true. cbv iota.
  destruct (Nat.eqb_spec (blen (c :: m ++ [RB])) 1) as [E1|E1]; [lia|].
  destruct (Nat.ltb_spec (blen (c :: m ++ [RB])) 3) as [E2|E2]; [lia|].
  destruct (Nat.eqb (blen (c :: m ++ [RB])) 4); reflexivity.
Qed.

Lemma likeno_fail : forall (tbl : list (string * elem)) u s, table_syms_ok tbl = true ->
  quick_check u s = LikeNo -> forall k, espec_parse tbl s <> EOk k.
Proof.
  intros tbl u s Ht Hq k Hp.
  destruct (parse_sound tbl s k Hp) as [He [[E1 _] | [ds [E1 [E2 _]]]]].
  - pose proof (has_elem_sym_ok tbl (fst k) Ht He) as Hok. rewrite <- E1 in Hok.
    destruct (quick_check_sym u s Hok) as [Q|Q]; rewrite Q in Hq; discriminate Hq.
  - pose proof (has_elem_sym_ok tbl (fst k) Ht He) as Hok.
    apply sym_ok_inv in Hok. destruct Hok as [c [r [Ek [Hal [Hp' _]]]]].
    assert (Ha : is_alphabetic u c = true).
    { rewrite Ek in Hp'. cbn [forallb] in Hp'. apply andb_true_iff in Hp'. destruct Hp' as [Hc _].
      apply plain_char_inv in Hc. destruct Hc as [Hc _]. unfold is_alphabetic. rewrite Hc. exact Hal. }
    assert (Es : s = c :: (r ++ [LB] ++ ds) ++ [RB]).
    { rewrite E1, Ek. cbn [app]. f_equal. rewrite <- !app_assoc. reflexivity. }
    assert (Hl : 4 <= blen s).
    { pose proof (len_le_blen s) as L. rewrite Es in L at 1. cbn [List.length] in L.
      rewrite !app_length in L. cbn [List.length] in L.
      destruct ds as [|d0 dr]; [exfalso; apply E2; reflexivity|]. cbn [List.length] in L. lia. }
    rewrite Es in Hq, Hl. rewrite (quick_check_bracket u c _ Ha Hl) in Hq. discriminate Hq.
Qed.

(* ------------------------------------------------------------------------------------------ *)
(* string-keyed reads *)
Lemma index_str_spec : forall (tbl : list (string * elem)) (uni_alphabetic : char -> bool),
  table_syms_ok tbl = true -> forall l s,
  syms_in_table tbl l = true ->
  v_index_str tbl uni_alphabetic s l = match espec_parse tbl s with EOk k => e_get k l | _ => 0%Z end
  /\ m_index_str tbl uni_alphabetic s l = match espec_parse tbl s with EOk k => e_get k l | _ => 0%Z end.
Proof.
  intros tbl u Ht l s Hl. unfold v_index_str, m_index_str.
  destruct (quick_check u s) eqn:Q.
  - (* LikeYes *)
    pose proof (likeyes_split u s Q) as Hs.
    unfold espec_parse. rewrite Hs. unfold v_find_str, m_get_str, plain_key.
    destruct (has_elem tbl s) eqn:He.
    + split; reflexivity.
    + split; [|reflexivity]. apply (syms_absent tbl); assumption.
  - (* LikeNo *)
    pose proof (likeno_fail tbl u s Ht Q) as Hn.
    destruct (espec_parse tbl s) as [k|e|]; [exfalso; apply (Hn k); reflexivity | split; reflexivity | split; reflexivity].
  - (* LikeMaybe *)
    split; reflexivity.
Qed.
