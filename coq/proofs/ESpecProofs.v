(* placeholder: proofs are being written *)
