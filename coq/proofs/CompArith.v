(* Proofs for C04: composition arithmetic is exact pointwise integer arithmetic. *)
From Coq Require Import List ZArith NArith Bool Arith String Permutation Lia.
From CE Require Import Num Str TableTypes TableModel Comp ESpec CompOps CompSpec.
Import ListNotations.

(* ------------------------------------------------------------------------------------------ *)
(* key equality *)
Lemma str_eqb_eq : forall a b, str_eqb a b = true <-> a = b.
Proof.
  intros a b. unfold str_eqb. destruct (list_eq_dec N.eq_dec a b) as [e|ne].
  - split; intros _; [exact e | reflexivity].
  - split; intros H; [discriminate H | contradiction].
Qed.

Lemma key_eqb_eq : forall a b, key_eqb a b = true <-> a = b.
Proof.
  intros [a1 a2] [b1 b2]. unfold key_eqb. cbn [fst snd].
  rewrite andb_true_iff, str_eqb_eq, N.eqb_eq. split.
  - intros [H1 H2]. subst. reflexivity.
  - intros H. inversion H. split; reflexivity.
Qed.

Lemma key_eqb_refl : forall k, key_eqb k k = true.
Proof. intros k. apply key_eqb_eq. reflexivity. Qed.

Lemma key_eqb_neq : forall a b, key_eqb a b = false <-> a <> b.
Proof.
  intros a b. split.
  - intros H E. apply key_eqb_eq in E. rewrite E in H. discriminate H.
  - intros H. destruct (key_eqb a b) eqn:E; [|reflexivity]. apply key_eqb_eq in E. contradiction.
Qed.

Lemma key_eqb_sym : forall a b, key_eqb a b = key_eqb b a.
Proof.
  intros a b. destruct (key_eqb a b) eqn:E.
  - apply key_eqb_eq in E. subst. symmetry. apply key_eqb_refl.
  - apply key_eqb_neq in E. symmetry. apply key_eqb_neq. intros H. apply E. symmetry. exact H.
Qed.

Lemma key_eq_dec : forall a b : key, {a = b} + {a <> b}.
Proof.
  intros a b. destruct (key_eqb a b) eqn:E.
  - left. apply key_eqb_eq. exact E.
  - right. apply key_eqb_neq. exact E.
Qed.

(* ------------------------------------------------------------------------------------------ *)
(* set / inc *)
Lemma get_set : forall l k n k', e_get k' (e_set k n l) = if key_eqb k' k then n else e_get k' l.
Proof.
  intros l k n k'. induction l as [|[k0 v] r IH].
  - cbn [e_set e_get]. reflexivity.
  - cbn [e_set e_get]. destruct (key_eqb k k0) eqn:E.
    + apply key_eqb_eq in E. subst k0. cbn [e_get].
      destruct (key_eqb k' k); reflexivity.
    + cbn [e_get]. rewrite IH. destruct (key_eqb k' k0) eqn:E0; [|reflexivity].
      destruct (key_eqb k' k) eqn:E1; [|reflexivity].
      apply key_eqb_eq in E0. apply key_eqb_eq in E1. subst. rewrite key_eqb_refl in E. discriminate E.
Qed.

Lemma get_inc : forall l k n k',
  e_get k' (e_inc k n l) = if key_eqb k' k then (e_get k l + n)%Z else e_get k' l.
Proof. intros l k n k'. unfold e_inc. apply get_set. Qed.

Lemma mem_set : forall l k n k', e_mem k' (e_set k n l) = key_eqb k' k || e_mem k' l.
Proof.
  intros l k n k'. induction l as [|[k0 v] r IH].
  - cbn [e_set e_mem]. reflexivity.
  - cbn [e_set e_mem]. destruct (key_eqb k k0) eqn:E.
    + apply key_eqb_eq in E. subst k0. cbn [e_mem].
      destruct (key_eqb k' k); reflexivity.
    + cbn [e_mem]. rewrite IH. destruct (key_eqb k' k0), (key_eqb k' k); reflexivity.
Qed.

Lemma mem_inc : forall l k n k', e_mem k' (e_inc k n l) = key_eqb k' k || e_mem k' l.
Proof. intros. unfold e_inc. apply mem_set. Qed.

Lemma nodup_set : forall l k n, nodup_keys l = true -> nodup_keys (e_set k n l) = true.
Proof.
  intros l k n. induction l as [|[k0 v] r IH]; intros H.
  - reflexivity.
  - cbn [nodup_keys] in H. apply andb_true_iff in H. destruct H as [H1 H2].
    cbn [e_set]. destruct (key_eqb k k0) eqn:E.
    + cbn [nodup_keys]. rewrite H1, H2. reflexivity.
    + cbn [nodup_keys]. rewrite mem_set, (key_eqb_sym k0 k), E. cbn [orb].
      rewrite H1, (IH H2). reflexivity.
Qed.

Lemma nodup_inc : forall l k n, nodup_keys l = true -> nodup_keys (e_inc k n l) = true.
Proof. intros. unfold e_inc. apply nodup_set. assumption. Qed.

Lemma get_notmem : forall k l, e_mem k l = false -> e_get k l = 0%Z.
Proof.
  intros k l. induction l as [|[k0 v] r IH]; intros H.
  - reflexivity.
  - cbn [e_mem] in H. apply orb_false_iff in H. destruct H as [H1 H2].
    cbn [e_get]. rewrite H1. apply IH. exact H2.
Qed.

(* ------------------------------------------------------------------------------------------ *)
(* add / sub / mul / neg *)
Lemma get_add : forall a b k, nodup_keys b = true -> e_get k (e_add a b) = (e_get k a + e_get k b)%Z.
Proof.
  intros a b. revert a. induction b as [|[k0 v] r IH]; intros a k H.
  - cbn [e_add fold_left e_get]. lia.
  - cbn [nodup_keys] in H. apply andb_true_iff in H. destruct H as [H1 H2].
    apply negb_true_iff in H1.
    unfold e_add in *. cbn [fold_left fst snd]. rewrite (IH _ k H2), get_inc.
    cbn [e_get]. destruct (key_eqb k k0) eqn:E.
    + apply key_eqb_eq in E. subst k0. rewrite (get_notmem _ _ H1). lia.
    + reflexivity.
Qed.

Lemma get_sub : forall a b k, nodup_keys b = true -> e_get k (e_sub a b) = (e_get k a - e_get k b)%Z.
Proof.
  intros a b. revert a. induction b as [|[k0 v] r IH]; intros a k H.
  - cbn [e_sub fold_left e_get]. lia.
  - cbn [nodup_keys] in H. apply andb_true_iff in H. destruct H as [H1 H2].
    apply negb_true_iff in H1.
    unfold e_sub in *. cbn [fold_left fst snd]. rewrite (IH _ k H2), get_inc.
    cbn [e_get]. destruct (key_eqb k k0) eqn:E.
    + apply key_eqb_eq in E. subst k0. rewrite (get_notmem _ _ H1). lia.
    + reflexivity.
Qed.

(* a map over the counts that leaves keys alone *)
Lemma get_mapv : forall (g : Z -> Z) a k,
  e_get k (map (fun kv => (fst kv, g (snd kv))) a) = if e_mem k a then g (e_get k a) else 0%Z.
Proof.
  intros g a k. induction a as [|[k0 v] r IH].
  - reflexivity.
  - cbn [map e_get e_mem fst snd]. destruct (key_eqb k k0); [reflexivity|]. cbn [orb]. exact IH.
Qed.

Lemma mem_mapv : forall (g : Z -> Z) a k,
  e_mem k (map (fun kv => (fst kv, g (snd kv))) a) = e_mem k a.
Proof.
  intros g a k. induction a as [|[k0 v] r IH].
  - reflexivity.
  - cbn [map e_mem fst snd]. rewrite IH. reflexivity.
Qed.

Lemma nodup_mapv : forall (g : Z -> Z) a,
  nodup_keys (map (fun kv => (fst kv, g (snd kv))) a) = nodup_keys a.
Proof.
  intros g a. induction a as [|[k0 v] r IH].
  - reflexivity.
  - cbn [map nodup_keys fst snd]. rewrite mem_mapv, IH. reflexivity.
Qed.

Lemma get_mul : forall a n k, e_get k (e_mul a n) = (e_get k a * n)%Z.
Proof.
  intros a n k. unfold e_mul. rewrite (get_mapv (fun v => (v * n)%Z)).
  destruct (e_mem k a) eqn:E; [reflexivity|]. rewrite (get_notmem _ _ E). reflexivity.
Qed.

Lemma get_neg : forall a k, e_get k (e_neg a) = (- e_get k a)%Z.
Proof. intros a k. unfold e_neg. rewrite get_mul. lia. Qed.

Lemma mem_mul : forall a n k, e_mem k (e_mul a n) = e_mem k a.
Proof. intros a n k. unfold e_mul. apply (mem_mapv (fun v => (v * n)%Z)). Qed.

Lemma nodup_mul : forall a n, nodup_keys (e_mul a n) = nodup_keys a.
Proof. intros a n. unfold e_mul. apply (nodup_mapv (fun v => (v * n)%Z)). Qed.

Lemma mem_add : forall a b k, e_mem k (e_add a b) = e_mem k a || e_mem k b.
Proof.
  intros a b. revert a. induction b as [|[k0 v] r IH]; intros a k.
  - cbn [e_add fold_left e_mem]. rewrite orb_false_r. reflexivity.
  - unfold e_add in *. cbn [fold_left fst snd]. rewrite IH, mem_inc. cbn [e_mem].
    destruct (key_eqb k k0), (e_mem k a); reflexivity.
Qed.

Lemma mem_sub : forall a b k, e_mem k (e_sub a b) = e_mem k a || e_mem k b.
Proof.
  intros a b. revert a. induction b as [|[k0 v] r IH]; intros a k.
  - cbn [e_sub fold_left e_mem]. rewrite orb_false_r. reflexivity.
  - unfold e_sub in *. cbn [fold_left fst snd]. rewrite IH, mem_inc. cbn [e_mem].
    destruct (key_eqb k k0), (e_mem k a); reflexivity.
Qed.

Lemma nodup_add : forall a b, nodup_keys a = true -> nodup_keys (e_add a b) = true.
Proof.
  intros a b. revert a. induction b as [|[k0 v] r IH]; intros a H.
  - exact H.
  - unfold e_add in *. cbn [fold_left]. apply IH. apply nodup_inc. exact H.
Qed.

Lemma nodup_sub : forall a b, nodup_keys a = true -> nodup_keys (e_sub a b) = true.
Proof.
  intros a b. revert a. induction b as [|[k0 v] r IH]; intros a H.
  - exact H.
  - unfold e_sub in *. cbn [fold_left]. apply IH. apply nodup_inc. exact H.
Qed.

Lemma nodup_copy_from : forall b acc, nodup_keys acc = true ->
  nodup_keys (fold_left (fun acc kv => e_set (fst kv) (snd kv) acc) b acc) = true.
Proof.
  intros b. induction b as [|[k0 v] r IH]; intros acc H.
  - exact H.
  - cbn [fold_left]. apply IH. apply nodup_set. exact H.
Qed.

Lemma nodup_copy : forall b, nodup_keys (e_copy b) = true.
Proof. intros b. unfold e_copy. apply nodup_copy_from. reflexivity. Qed.

Lemma nodup_collect : forall l, nodup_keys (e_collect l) = true.
Proof. intros l. unfold e_collect. apply nodup_add. reflexivity. Qed.

(* ------------------------------------------------------------------------------------------ *)
(* constructors *)
Lemma fold_add_acc : forall l acc, fold_left Z.add l acc = (acc + fold_left Z.add l 0)%Z.
Proof.
  intros l. induction l as [|x r IH]; intros acc.
  - cbn [fold_left]. lia.
  - cbn [fold_left]. rewrite (IH (acc + x)%Z), (IH (0 + x)%Z). lia.
Qed.

Lemma listed_cons : forall k k0 v r,
  listed k ((k0, v) :: r) = if key_eqb k k0 then (v + listed k r)%Z else listed k r.
Proof.
  intros k k0 v r. unfold listed. cbn [filter fst]. destruct (key_eqb k k0); [|reflexivity].
  cbn [map snd fold_left]. rewrite fold_add_acc. lia.
Qed.

Lemma get_add_listed : forall l a k, e_get k (e_add a l) = (e_get k a + listed k l)%Z.
Proof.
  intros l. induction l as [|[k0 v] r IH]; intros a k.
  - cbn [e_add fold_left]. unfold listed. cbn. lia.
  - rewrite listed_cons. unfold e_add in *. cbn [fold_left fst snd]. rewrite IH, get_inc.
    destruct (key_eqb k k0) eqn:E; [|reflexivity].
    apply key_eqb_eq in E. subst k0. lia.
Qed.

Lemma get_collect : forall l k, e_get k (e_collect l) = listed k l /\ nodup_keys (e_collect l) = true.
Proof.
  intros l k. split.
  - unfold e_collect. rewrite get_add_listed. cbn [e_get]. lia.
  - apply nodup_collect.
Qed.

Lemma nodup_invariant : forall a b k n,
  nodup_keys a = true ->
  nodup_keys (e_set k n a) = true /\ nodup_keys (e_inc k n a) = true /\ nodup_keys (e_add a b) = true
  /\ nodup_keys (e_sub a b) = true /\ nodup_keys (e_mul a n) = true /\ nodup_keys (e_neg a) = true
  /\ nodup_keys (e_copy b) = true.
Proof.
  intros a b k n H. repeat split.
  - apply nodup_set. exact H.
  - apply nodup_inc. exact H.
  - apply nodup_add. exact H.
  - apply nodup_sub. exact H.
  - rewrite nodup_mul. exact H.
  - unfold e_neg. rewrite nodup_mul. exact H.
  - apply nodup_copy.
Qed.

(* ------------------------------------------------------------------------------------------ *)
(* entries as a set of pairs *)
Lemma mem_In : forall k l, e_mem k l = true <-> exists v, In (k, v) l.
Proof.
  intros k l. induction l as [|[k0 v0] r IH].
  - cbn [e_mem In]. split; [discriminate | intros [v []]].
  - cbn [e_mem In]. rewrite orb_true_iff, IH, key_eqb_eq. split.
    + intros [E | [v Hv]].
      * subst k0. exists v0. left. reflexivity.
      * exists v. right. exact Hv.
    + intros [v [E | Hv]].
      * inversion E. left. reflexivity.
      * right. exists v. exact Hv.
Qed.

Lemma mem_In_keys : forall k l, e_mem k l = true <-> In k (map fst l).
Proof.
  intros k l. rewrite mem_In, in_map_iff. split.
  - intros [v Hv]. exists (k, v). split; [reflexivity | exact Hv].
  - intros [[k1 v] [E Hv]]. cbn [fst] in E. subst k1. exists v. exact Hv.
Qed.

Lemma nodup_keys_NoDup : forall l, nodup_keys l = true <-> NoDup (map fst l).
Proof.
  intros l. induction l as [|[k0 v0] r IH].
  - cbn. split; [intros _; constructor | reflexivity].
  - cbn [nodup_keys map fst]. rewrite andb_true_iff, negb_true_iff, IH. split.
    + intros [H1 H2]. constructor; [|exact H2].
      intros Hin. apply mem_In_keys in Hin. rewrite Hin in H1. discriminate H1.
    + intros H. inversion H as [|x l' Hn Hd]. subst. split; [|exact Hd].
      destruct (e_mem k0 r) eqn:E; [|reflexivity]. apply mem_In_keys in E. contradiction.
Qed.

Lemma get_In : forall k v l, nodup_keys l = true -> In (k, v) l -> e_get k l = v.
Proof.
  intros k v l. induction l as [|[k0 v0] r IH]; intros Hn Hin.
  - destruct Hin.
  - cbn [nodup_keys] in Hn. apply andb_true_iff in Hn. destruct Hn as [H1 H2].
    apply negb_true_iff in H1. cbn [e_get]. destruct Hin as [E | Hin].
    + inversion E. subst. rewrite key_eqb_refl. reflexivity.
    + destruct (key_eqb k k0) eqn:E.
      * apply key_eqb_eq in E. subst k0.
        assert (Hm : e_mem k r = true) by (apply mem_In; exists v; exact Hin).
        rewrite Hm in H1. discriminate H1.
      * apply IH; assumption.
Qed.

Lemma In_get : forall k l, e_mem k l = true -> In (k, e_get k l) l.
Proof.
  intros k l. induction l as [|[k0 v0] r IH]; intros H.
  - discriminate H.
  - cbn [e_mem] in H. cbn [e_get]. destruct (key_eqb k k0) eqn:E.
    + apply key_eqb_eq in E. subst k0. left. reflexivity.
    + cbn [orb] in H. right. apply IH. exact H.
Qed.

Lemma nodup_perm : forall l l', Permutation l l' -> nodup_keys l = true -> nodup_keys l' = true.
Proof.
  intros l l' P H. apply nodup_keys_NoDup. apply nodup_keys_NoDup in H.
  apply (Permutation_NoDup (l := map fst l)); [|exact H]. apply Permutation_map. exact P.
Qed.

Lemma mem_perm : forall k l l', Permutation l l' -> e_mem k l = e_mem k l'.
Proof.
  intros k l l' P. destruct (e_mem k l) eqn:E; symmetry.
  - apply mem_In in E. destruct E as [v Hv]. apply mem_In. exists v.
    apply (Permutation_in _ P). exact Hv.
  - destruct (e_mem k l') eqn:E'; [|reflexivity].
    apply mem_In in E'. destruct E' as [v Hv].
    assert (Hm : e_mem k l = true).
    { apply mem_In. exists v. apply (Permutation_in _ (Permutation_sym P)). exact Hv. }
    rewrite Hm in E. discriminate E.
Qed.

Lemma get_perm : forall k l l', Permutation l l' -> nodup_keys l = true -> e_get k l = e_get k l'.
Proof.
  intros k l l' P H. destruct (e_mem k l) eqn:E.
  - symmetry. apply get_In.
    + apply (nodup_perm _ _ P H).
    + apply (Permutation_in _ P). apply In_get. exact E.
  - rewrite (get_notmem _ _ E). rewrite (mem_perm k _ _ P) in E. rewrite (get_notmem _ _ E). reflexivity.
Qed.

(* ------------------------------------------------------------------------------------------ *)
(* the register machine *)
Lemma forms_agree {F : Type} (N : Num F) (tbl : list (string * elem)) (shuffle : ents -> ents) :
  forall f a b (q1 q2 q3 q4 : nat) n,
    apply N tbl shuffle f (OAddRef q1) a b = apply N tbl shuffle f (OAddVal q2) a b
    /\ apply N tbl shuffle f (OAddRef q1) a b = apply N tbl shuffle f (OAddAssign q3) a b
    /\ apply N tbl shuffle f (OAddRef q1) a b = apply N tbl shuffle f (OAddAssignMut q4) a b
    /\ apply N tbl shuffle f (OSubRef q1) a b = apply N tbl shuffle f (OSubVal q2) a b
    /\ apply N tbl shuffle f (OSubRef q1) a b = apply N tbl shuffle f (OSubAssign q3) a b
    /\ apply N tbl shuffle f (OSubRef q1) a b = apply N tbl shuffle f (OSubAssignMut q4) a b
    /\ apply N tbl shuffle f (OMulRef n) a b = apply N tbl shuffle f (OMulVal n) a b
    /\ apply N tbl shuffle f (OMulRef n) a b = apply N tbl shuffle f (OMulAssign n) a b
    /\ apply N tbl shuffle f (OMulRef n) a b = apply N tbl shuffle f (OMulAssignMut n) a b
    /\ apply N tbl shuffle f ONeg a b = apply N tbl shuffle f ONegRef a b.
Proof. intros. repeat split. Qed.

Lemma nth_error_set_nth : forall {A} (l : list A) r q x, q <> r -> nth_error (set_nth r x l) q = nth_error l q.
Proof.
  intros A l. induction l as [|y t IH]; intros r q x H.
  - destruct r; reflexivity.
  - destruct r as [|r'].
    + destruct q as [|q']; [contradiction|]. reflexivity.
    + destruct q as [|q']; [reflexivity|]. cbn [set_nth nth_error]. apply IH. lia.
Qed.

Lemma step_regs {F : Type} (N : Num F) (tbl : list (string * elem)) (shuffle : ents -> ents) :
  forall regs r o, exists f' c, fst (step N tbl shuffle regs (r, o)) = set_nth r (mkReg f' c) regs.
Proof.
  intros regs r o. unfold step.
  destruct (apply N tbl shuffle _ o _ _) as [c out].
  eexists. eexists. cbn [fst]. reflexivity.
Qed.

Lemma operands_untouched {F : Type} (N : Num F) (tbl : list (string * elem)) (shuffle : ents -> ents) :
  forall regs r o q,
    q <> r -> nth_error (fst (step N tbl shuffle regs (r, o))) q = nth_error regs q.
Proof.
  intros regs r o q H. destruct (step_regs N tbl shuffle regs r o) as [f' [c E]].
  rewrite E. apply nth_error_set_nth. exact H.
Qed.

Section Machine.
  Context {F : Type} (N : Num F).
  Variable tbl : list (string * elem).
  Variable shuffle : ents -> ents.
  Hypothesis shuffle_perm : forall l, Permutation (shuffle l) l.

  Lemma sh_perm : forall f l, Permutation (sh shuffle f l) l.
  Proof. intros f l. unfold sh. destruct (is_map f); [apply shuffle_perm | apply Permutation_refl]. Qed.

  Lemma nodup_sh : forall f l, nodup_keys l = true -> nodup_keys (sh shuffle f l) = true.
  Proof. intros f l H. apply (nodup_perm l); [apply Permutation_sym, sh_perm | exact H]. Qed.

  Lemma get_sh : forall f l k, nodup_keys l = true -> e_get k (sh shuffle f l) = e_get k l.
  Proof. intros f l k H. symmetry. apply get_perm; [apply Permutation_sym, sh_perm | exact H]. Qed.

  Lemma mem_sh : forall f l k, e_mem k (sh shuffle f l) = e_mem k l.
  Proof. intros f l k. apply mem_perm. apply sh_perm. Qed.

  Lemma apply_pointwise : forall f (a b : comp F) (q : nat) n k,
    nodup_keys (c_ents a) = true -> nodup_keys (c_ents b) = true ->
    e_get k (c_ents (fst (apply N tbl shuffle f (OAddRef q) a b))) = (e_get k (c_ents a) + e_get k (c_ents b))%Z
    /\ e_get k (c_ents (fst (apply N tbl shuffle f (OSubRef q) a b))) = (e_get k (c_ents a) - e_get k (c_ents b))%Z
    /\ e_get k (c_ents (fst (apply N tbl shuffle f (OMulRef n) a b))) = (e_get k (c_ents a) * n)%Z
    /\ e_get k (c_ents (fst (apply N tbl shuffle f ONeg a b))) = (- e_get k (c_ents a))%Z.
  Proof.
    intros f a b q n k Ha Hb. cbn [apply fst c_ents]. repeat split.
    - unfold bin. destruct (c_ents b) as [|x r] eqn:Eb.
      + cbn [e_get]. lia.
      + unfold dirty. cbn [c_ents]. rewrite get_sh by (apply nodup_add; exact Ha).
        apply get_add. exact Hb.
    - unfold bin. destruct (c_ents b) as [|x r] eqn:Eb.
      + cbn [e_get]. lia.
      + unfold dirty. cbn [c_ents]. rewrite get_sh by (apply nodup_sub; exact Ha).
        apply get_sub. exact Hb.
    - apply get_mul.
    - apply get_neg.
  Qed.

  (* every operation keeps the keys of its target distinct *)
  Lemma nodup_dirty : forall f l, nodup_keys l = true -> nodup_keys (c_ents (dirty (F:=F) shuffle f l)) = true.
  Proof. intros f l H. unfold dirty. cbn [c_ents]. apply nodup_sh. exact H. Qed.

  Lemma nodup_bin : forall f g (a b : comp F),
    (forall x y, nodup_keys x = true -> nodup_keys (g x y) = true) ->
    nodup_keys (c_ents a) = true -> nodup_keys (c_ents (bin shuffle f g a b)) = true.
  Proof.
    intros f g a b Hg Ha. unfold bin. destruct (c_ents b); [exact Ha|].
    apply nodup_dirty. apply Hg. exact Ha.
  Qed.

  Lemma apply_nodup : forall f o (a b : comp F),
    nodup_keys (c_ents a) = true -> nodup_keys (c_ents b) = true ->
    nodup_keys (c_ents (fst (apply N tbl shuffle f o a b))) = true.
  Proof.
    intros f o a b Ha Hb.
    assert (Hset : forall k n, nodup_keys (c_ents (dirty (F:=F) shuffle f (e_set k n (c_ents a)))) = true).
    { intros. apply nodup_dirty, nodup_set, Ha. }
    assert (Hinc : forall k n, nodup_keys (c_ents (dirty (F:=F) shuffle f (e_inc k n (c_ents a)))) = true).
    { intros. apply nodup_dirty, nodup_inc, Ha. }
    destruct o; cbn [apply].
    - apply Hset.
    - apply Hinc.
    - apply Hset.
    - apply Hinc.
    - destruct (espec_parse tbl s) as [k0| |]; cbn [fst c_ents]; [apply Hset | exact Ha | exact Ha].
    - destruct f.
      + destruct (espec_parse tbl s) as [k0| |]; cbn [fst c_ents]; [apply Hinc | exact Ha | exact Ha].
      + destruct (plain_key tbl s) as [k0|].
        * destruct (e_mem k0 (c_ents a)); [apply Hinc|].
          destruct (espec_parse tbl s) as [k1| |]; cbn [fst c_ents]; [apply Hinc | exact Ha | exact Ha].
        * destruct (espec_parse tbl s) as [k1| |]; cbn [fst c_ents]; [apply Hinc | exact Ha | exact Ha].
      + destruct (espec_parse tbl s) as [k0| |]; cbn [fst c_ents]; [apply Hinc | exact Ha | exact Ha].
      + destruct (plain_key tbl s) as [k0|].
        * destruct (e_mem k0 (c_ents a)); [apply Hinc|].
          destruct (espec_parse tbl s) as [k1| |]; cbn [fst c_ents]; [apply Hinc | exact Ha | exact Ha].
        * destruct (espec_parse tbl s) as [k1| |]; cbn [fst c_ents]; [apply Hinc | exact Ha | exact Ha].
    - destruct f; cbn [fst]; try exact Ha.
      destruct (plain_key tbl s) as [k0|]; [|exact Ha].
      destruct (e_mem k0 (c_ents a)); cbn [fst c_ents]; [apply nodup_set, Ha | exact Ha].
    - cbn [fst]. apply nodup_bin; [intros; apply nodup_add; assumption | exact Ha].
    - cbn [fst]. apply nodup_bin; [intros; apply nodup_add; assumption | exact Ha].
    - cbn [fst]. apply nodup_bin; [intros; apply nodup_add; assumption | exact Ha].
    - cbn [fst]. apply nodup_bin; [intros; apply nodup_add; assumption | exact Ha].
    - cbn [fst]. apply nodup_bin; [intros; apply nodup_sub; assumption | exact Ha].
    - cbn [fst]. apply nodup_bin; [intros; apply nodup_sub; assumption | exact Ha].
    - cbn [fst]. apply nodup_bin; [intros; apply nodup_sub; assumption | exact Ha].
    - cbn [fst]. apply nodup_bin; [intros; apply nodup_sub; assumption | exact Ha].
    - cbn [fst c_ents]. rewrite nodup_mul. exact Ha.
    - cbn [fst c_ents]. rewrite nodup_mul. exact Ha.
    - cbn [fst c_ents]. rewrite nodup_mul. exact Ha.
    - cbn [fst c_ents]. rewrite nodup_mul. exact Ha.
    - cbn [fst c_ents]. unfold e_neg. rewrite nodup_mul. exact Ha.
    - cbn [fst c_ents]. unfold e_neg. rewrite nodup_mul. exact Ha.
    - cbn [fst c_ents]. rewrite (nodup_mapv (fun v => (v * a0 + b0)%Z)). exact Ha.
    - cbn [fst]. exact Hb.
    - destruct f; cbn [fst]; try exact Ha; apply nodup_dirty, nodup_copy.
    - destruct f; cbn [fst c_ents]; try exact Ha; try apply nodup_copy; apply nodup_dirty, nodup_copy.
    - cbn [fst]. apply nodup_dirty, nodup_collect.
    - cbn [fst]. unfold c_fmass. destruct (c_cache a); [exact Ha|].
      destruct (calc_mass N tbl (c_ents a)); cbn [fst c_ents]; exact Ha.
    - cbn [fst]. exact Ha.
  Qed.

  Definition regs_nodup (regs : list (reg (F:=F))) : Prop :=
    Forall (fun r => nodup_keys (c_ents (r_comp r)) = true) regs.

  Lemma nth_regs_nodup : forall regs i,
    regs_nodup regs -> nodup_keys (c_ents (r_comp (nth i regs (mkReg FVecDirect empty_comp)))) = true.
  Proof.
    intros regs i H. destruct (nth_in_or_default i regs (mkReg FVecDirect empty_comp)) as [Hin | E].
    - unfold regs_nodup in H. rewrite Forall_forall in H. apply H. exact Hin.
    - rewrite E. reflexivity.
  Qed.

  Lemma set_nth_Forall : forall {A} (P : A -> Prop) l i x, Forall P l -> P x -> Forall P (set_nth i x l).
  Proof.
    intros A P l. induction l as [|y t IH]; intros i x Hl Hx.
    - destruct i; constructor.
    - inversion Hl; subst. destruct i as [|i']; cbn [set_nth].
      + constructor; assumption.
      + constructor; [assumption | apply IH; assumption].
  Qed.

  Lemma step_nodup : forall regs ro, regs_nodup regs -> regs_nodup (fst (step N tbl shuffle regs ro)).
  Proof.
    intros regs [r o] H. unfold step.
    set (a := nth r regs (mkReg FVecDirect empty_comp)).
    set (b := match operand o with
              | Some q => r_comp (nth q regs (mkReg FVecDirect empty_comp))
              | None => empty_comp end).
    assert (Ha : nodup_keys (c_ents (r_comp a)) = true) by (apply nth_regs_nodup; exact H).
    assert (Hb : nodup_keys (c_ents b) = true).
    { unfold b. destruct (operand o); [apply nth_regs_nodup; exact H | reflexivity]. }
    pose proof (apply_nodup (r_fam a) o (r_comp a) b Ha Hb) as Hc.
    match goal with |- context [apply N tbl shuffle (r_fam a) o (r_comp a) ?bb] =>
      replace bb with b by (destruct o; reflexivity) end.
    destruct (apply N tbl shuffle (r_fam a) o (r_comp a) b) as [c out].
    cbn [fst] in Hc |- *. apply set_nth_Forall; [exact H|]. cbn [r_comp]. exact Hc.
  Qed.

  Lemma run_nodup : forall ops regs, regs_nodup regs -> regs_nodup (run_ops N tbl shuffle regs ops).
  Proof.
    intros ops. induction ops as [|ro t IH]; intros regs H.
    - exact H.
    - unfold run_ops in *. cbn [fold_left]. apply IH. apply step_nodup. exact H.
  Qed.

  Lemma reachable_nodup : forall f n ops r,
    In r (run_ops N tbl shuffle (init_regs f n) ops) -> nodup_keys (c_ents (r_comp r)) = true.
  Proof.
    intros f n ops r Hin.
    assert (H : regs_nodup (run_ops N tbl shuffle (init_regs f n) ops)).
    { apply run_nodup. unfold regs_nodup, init_regs. apply Forall_forall.
      intros x Hx. apply repeat_spec in Hx. subst x. reflexivity. }
    unfold regs_nodup in H. rewrite Forall_forall in H. apply H. exact Hin.
  Qed.
End Machine.

Lemma C04_example :
  let H := (codes "H", 0%N) in let D := (codes "H", 2%N) in let O := (codes "O", 0%N) in
  let a := e_collect [(H, 1%Z); (O, 1%Z); (H, 2%Z)] in
  let b := e_collect [(D, 5%Z); (H, 1%Z)] in
  nodup_keys a = true /\ nodup_keys b = true /\ e_get H a = 3%Z
  /\ e_get H (e_sub a b) = 2%Z /\ e_get D (e_sub a b) = (-5)%Z /\ e_get O (e_mul (e_add a b) (-3)) = (-3)%Z.
Proof. vm_compute. repeat split. Qed.

