(* Proofs for C11b: the whole public function [isotopic_convolution] over an ordered field.
   The result is sorted by m/z; when something survives, the intensities sum to 1 and none lies below the threshold. *)
From Coq Require Import ZArith List Bool Lia Field Ring Field_theory Ring_theory Permutation Sorted.
From CE Require Import Num OField Mz Peak Conv ConvSpec PeakSpec PeakProofs PoissonProofs ChargeProofs ConvProofs.
Import ListNotations.

(* ---------- list plumbing ---------- *)

Lemma SSorted_map {A B : Type} (R : A -> A -> Prop) (R' : B -> B -> Prop) (f : A -> B) :
  (forall a b, R a b -> R' (f a) (f b)) ->
  forall l, StronglySorted R l -> StronglySorted R' (map f l).
Proof.
  intros H l. induction 1 as [|a l Hs IH Hf]; cbn [map]; constructor.
  - exact IH.
  - apply Forall_forall. intros y Hy. apply in_map_iff in Hy. destruct Hy as [b [<- Hb]].
    apply H. rewrite Forall_forall in Hf. apply Hf. exact Hb.
Qed.

Lemma SSorted_filter {A : Type} (R : A -> A -> Prop) (p : A -> bool) (l : list A) :
  StronglySorted R l -> StronglySorted R (filter p l).
Proof.
  induction 1 as [|a l Hs IH Hf]; cbn [filter]; [constructor|].
  destruct (p a); [|exact IH]. constructor; [exact IH|].
  apply Forall_forall. intros y Hy. apply filter_In in Hy.
  rewrite Forall_forall in Hf. apply Hf. apply Hy.
Qed.

Section ConvOutput.
  Context {F : Type} (N : Num F).

  Notation distF := (dist (F:=F)).
  Notation peakF := (peak (F:=F)).

  (* ---------- the stable sort is a permutation (every Num) ---------- *)

  Lemma ins_mass_perm x : forall l : distF, Permutation (ins_mass N x l) (x :: l).
  Proof.
    induction l as [|y l IH]; [apply Permutation_refl|].
    cbn [ins_mass]. destruct (ltb N (fst x) (fst y)); [apply Permutation_refl|].
    eapply Permutation_trans; [apply perm_skip; exact IH | apply perm_swap].
  Qed.

  Lemma sort_mass_fold_perm : forall (l acc : distF),
    Permutation (fold_left (fun a x => ins_mass N x a) l acc) (l ++ acc).
  Proof.
    induction l as [|x l IH]; intros acc; [apply Permutation_refl|].
    cbn [fold_left app].
    eapply Permutation_trans; [apply IH|].
    eapply Permutation_trans; [apply Permutation_app_head; apply ins_mass_perm|].
    apply Permutation_sym. apply Permutation_middle.
  Qed.

  Lemma sort_mass_perm (l : distF) : Permutation (sort_mass N l) l.
  Proof.
    unfold sort_mass. eapply Permutation_trans; [apply sort_mass_fold_perm|].
    rewrite app_nil_r. apply Permutation_refl.
  Qed.

  (* the tail of the public function, as a function of the charge-converted peak list *)
  Definition tail_of (pk : list peakF) (o thr : F) : list peakF :=
    peaks (ignore_below N (normalize N (mkTip pk o)) thr).

  Lemma tail_of_eq (pk : list peakF) o thr :
    tail_of pk o thr
    = map (fun q => mkPeak (mz q) (mul N (inten q)
             (div N (one N) (total N (mkTip (filter (fun q => geb N (inten q) thr)
                                                    (peaks (normalize N (mkTip pk o)))) o)))))
          (filter (fun q => geb N (inten q) thr) (peaks (normalize N (mkTip pk o)))).
  Proof. reflexivity. Qed.

  Lemma iso_conv_tail c z carrier thr :
    isotopic_convolution N c z carrier thr
    = let pk := map (fun mi : F * F => mkPeak (charged N (fst mi) z carrier) (snd mi))
                    (sort_mass N (conv_all N c thr)) in
      tail_of pk (match pk with p :: _ => mz p | [] => zero N end) thr.
  Proof. reflexivity. Qed.

  Section WithField.
    Hypothesis OF : OField N.
    Add Field Fo : (of_field N OF).

    Local Notation "0" := (zero N).
    Local Notation "1" := (one N).
    Local Infix "+!" := (add N) (at level 50, left associativity).
    Local Infix "*!" := (mul N) (at level 40, left associativity).
    Local Infix "/!" := (div N) (at level 40, left associativity).
    Local Infix "<=!" := (fle N) (at level 70).
    Local Infix "<!" := (flt N) (at level 70).

    (* ================= sortedness ================= *)

    Definition le1 (a b : F * F) : Prop := leb N (fst a) (fst b) = true.
    Definition lemz (a b : peakF) : Prop := leb N (mz a) (mz b) = true.

    Lemma ins_mass_sorted x (l : distF) : StronglySorted le1 l -> StronglySorted le1 (ins_mass N x l).
    Proof.
      induction 1 as [|y r Hs IH Hf]; cbn [ins_mass].
      - constructor; constructor.
      - destruct (ltb N (fst x) (fst y)) eqn:E.
        + assert (Hxy : le1 x y) by (apply (ConvProofs.lt_le N OF); exact E).
          constructor; [constructor; assumption|].
          constructor; [exact Hxy|].
          eapply Forall_impl; [|exact Hf]. intros b Hb. exact (of_le_trans N OF _ _ _ Hxy Hb).
        + constructor; [exact IH|].
          apply Forall_forall. intros b Hb. apply (Permutation_in _ (ins_mass_perm x r)) in Hb.
          destruct Hb as [<-|Hb].
          * rewrite (of_ltb_def N OF) in E. unfold le1.
            destruct (leb N (fst y) (fst x)); [reflexivity | discriminate E].
          * rewrite Forall_forall in Hf. apply Hf. exact Hb.
    Qed.

    Lemma sort_mass_fold_sorted : forall (l acc : distF),
      StronglySorted le1 acc -> StronglySorted le1 (fold_left (fun a x => ins_mass N x a) l acc).
    Proof.
      induction l as [|x l IH]; intros acc H; [exact H|].
      cbn [fold_left]. apply IH. apply ins_mass_sorted. exact H.
    Qed.

    Lemma sort_mass_sorted (l : distF) : StronglySorted le1 (sort_mass N l).
    Proof. unfold sort_mass. apply sort_mass_fold_sorted. constructor. Qed.

    (* the charge conversion is monotone (strictly, in fact) *)
    Lemma charged_leb z carrier a b :
      leb N (charged N a z carrier) (charged N b z carrier) = leb N a b.
    Proof.
      unfold charged. destruct (Z.eqb_spec z 0) as [E|E]; [reflexivity|].
      pose proof (mcr_ltb N OF z carrier E b a) as H. rewrite !(of_ltb_def N OF) in H.
      destruct (leb N (mass_charge_ratio N a z carrier) (mass_charge_ratio N b z carrier)), (leb N a b);
        cbn [negb] in H; congruence.
    Qed.

    Lemma tail_sorted (pk : list peakF) o thr : StronglySorted lemz pk -> StronglySorted lemz (tail_of pk o thr).
    Proof.
      intros H. rewrite tail_of_eq.
      apply (SSorted_map lemz lemz); [intros a b Hab; exact Hab|].
      apply SSorted_filter.
      unfold normalize, scale_by. cbn [peaks].
      apply (SSorted_map lemz lemz); [intros a b Hab; exact Hab|]. exact H.
    Qed.

    Lemma output_sorted : forall c z carrier thr,
      StronglySorted (fun a b => leb N (mz a) (mz b) = true) (isotopic_convolution N c z carrier thr).
    Proof.
      intros c z carrier thr. rewrite iso_conv_tail. cbv zeta.
      apply tail_sorted.
      apply (SSorted_map le1 lemz).
      - intros a b Hab. unfold lemz. cbn [mz]. rewrite charged_leb. exact Hab.
      - apply sort_mass_sorted.
    Qed.

    (* ================= positivity ================= *)

    Lemma nonneg_neq_pos a : 0 <=! a -> a <> 0 -> 0 <! a.
    Proof.
      intros H Hn. apply (leb_false_flt N OF).
      destruct (leb N a 0) eqn:E; [exfalso|reflexivity].
      apply Hn. apply (of_le_antisym N OF); [exact E | exact H].
    Qed.

    Lemma inv_pos T : 0 <! T -> 0 <! 1 /! T.
    Proof.
      intros HT. pose proof (flt_neq N OF _ _ HT) as HTn. pose proof (flt_fle N OF _ _ HT) as HT0.
      apply nonneg_neq_pos.
      - apply (div_nonneg N OF); [apply (le_0_1 N OF) | exact HT0 | exact HTn].
      - intros E. apply (one_neq_0 N OF).
        replace 1 with ((1 /! T) *! T) by (field; exact HTn). rewrite E. ring.
    Qed.

    Lemma In_nonnil {A : Type} (x : A) l : In x l -> l <> [].
    Proof. intros H E. rewrite E in H. destruct H. Qed.

    Lemma normalize_positive (p : tip (F:=F)) : positive N p -> positive N (normalize N p).
    Proof.
      intros Hp q Hq. unfold normalize, scale_by in Hq. cbn [peaks] in Hq.
      apply in_map_iff in Hq. destruct Hq as [q0 [<- Hq0]]. cbn [inten].
      apply (mul_pos N OF); [apply Hp; exact Hq0|].
      apply inv_pos. destruct p as [l o]. apply (total_pos N OF).
      - exact (In_nonnil _ _ Hq0).
      - exact Hp.
    Qed.

    (* ================= the tail on positive input ================= *)

    Lemma tail_sum (pk : list peakF) o thr :
      positive N (mkTip pk o) -> tail_of pk o thr <> [] ->
      fsum N (map inten (tail_of pk o thr)) = 1.
    Proof.
      intros Hp Hne.
      change (total N (ignore_below N (normalize N (mkTip pk o)) thr) = 1).
      apply (ignore_sum N OF); [apply normalize_positive; exact Hp|].
      rewrite tail_of_eq in Hne.
      destruct (filter (fun q => geb N (inten q) thr) (peaks (normalize N (mkTip pk o)))) as [|q r] eqn:EK.
      - exfalso. apply Hne. reflexivity.
      - assert (Hin : In q (filter (fun q => geb N (inten q) thr) (peaks (normalize N (mkTip pk o)))))
          by (rewrite EK; left; reflexivity).
        apply filter_In in Hin. exists q. exact Hin.
    Qed.

    Lemma tail_above (pk : list peakF) o thr p :
      positive N (mkTip pk o) -> In p (tail_of pk o thr) -> leb N thr (inten p) = true.
    Proof.
      intros Hp Hin.
      pose proof (normalize_positive _ Hp) as Hp1.
      rewrite tail_of_eq in Hin.
      set (P1 := normalize N (mkTip pk o)) in *.
      set (f := fun q : peakF => geb N (inten q) thr) in *.
      set (K := filter f (peaks P1)) in *.
      set (S' := total N (mkTip K o)) in *.
      apply in_map_iff in Hin. destruct Hin as [q [<- HqK]]. cbn [inten].
      assert (HK : forall q', In q' K -> 0 <! inten q').
      { intros q' Hq'. apply filter_In in Hq'. apply Hp1. apply Hq'. }
      assert (HS : 0 <! S') by (apply (total_pos N OF); [exact (In_nonnil _ _ HqK) | exact HK]).
      pose proof (flt_neq N OF _ _ HS) as HSn.
      pose proof (HK q HqK) as Hq0.
      assert (Hy0 : 0 <! inten q *! (1 /! S')) by (apply (mul_pos N OF); [exact Hq0 | apply inv_pos; exact HS]).
      pose proof HqK as HqK'. apply filter_In in HqK'. destruct HqK' as [HqP Hqt].
      unfold f, geb in Hqt.
      destruct (leb N 0 thr) eqn:Et.
      - (* thr >= 0: the kept total is at most 1 *)
        assert (Hpk : pk <> []).
        { intros E. subst pk. destruct HqP. }
        assert (HT1 : total N P1 = 1).
        { apply (normalize_sum N OF). apply (flt_neq N OF). apply (total_pos N OF); [exact Hpk | exact Hp]. }
        assert (HS1 : S' <=! 1).
        { rewrite <- HT1. change (total N P1) with (fsum N (map inten (peaks P1))).
          rewrite (fsum_filter_split N OF f (peaks P1)).
          apply (ConvProofs.le_add_r N OF). apply (fsum_nonneg N OF).
          intros x Hx. apply in_map_iff in Hx. destruct Hx as [q' [<- Hq']].
          apply filter_In in Hq'. apply Hp1. apply Hq'. }
        apply (of_le_trans N OF _ (inten q)); [exact Hqt|].
        pose proof (ConvProofs.mul_le_l N OF _ _ (flt_fle N OF _ _ Hy0) HS1) as H.
        replace (inten q *! (1 /! S') *! S') with (inten q) in H by (field; exact HSn).
        exact H.
      - (* thr < 0 < every returned intensity *)
        apply (of_le_trans N OF _ 0).
        + apply (flt_fle N OF). apply (leb_false_flt N OF). exact Et.
        + apply (flt_fle N OF). exact Hy0.
    Qed.

    (* ================= the public function ================= *)

    Section Public.
      Variable c : list (distF * Z).
      Variables (z : Z) (carrier thr : F).
      Hypothesis Hne : c <> [].
      Hypothesis Hb : forall ec, In ec c -> (0 <= snd ec < 2 ^ 31)%Z.
      Hypothesis Hab : abundances_ok N c.

      Lemma conv_all_pos x : In x (conv_all N c thr) -> 0 <! snd x.
      Proof.
        intros Hx. apply (naive_all_okd N OF c Hne Hb Hab). apply (no_junk N OF c thr x Hne Hb Hx).
      Qed.

      Lemma pk_positive o :
        positive N (mkTip (map (fun mi : F * F => mkPeak (charged N (fst mi) z carrier) (snd mi))
                               (sort_mass N (conv_all N c thr))) o).
      Proof.
        intros q Hq. cbn [peaks] in Hq. apply in_map_iff in Hq. destruct Hq as [mi [<- Hmi]]. cbn [inten].
        apply conv_all_pos. exact (Permutation_in _ (sort_mass_perm _) Hmi).
      Qed.
    End Public.

    Lemma output_sum : forall c z carrier thr,
      c <> [] -> (forall ec, In ec c -> (0 <= snd ec < 2 ^ 31)%Z) -> abundances_ok N c ->
      isotopic_convolution N c z carrier thr <> [] ->
      fsum N (map inten (isotopic_convolution N c z carrier thr)) = one N.
    Proof.
      intros c z carrier thr Hne Hb Hab. rewrite iso_conv_tail. cbv zeta.
      apply tail_sum. apply pk_positive; assumption.
    Qed.

    Lemma output_above : forall c z carrier thr p,
      c <> [] -> (forall ec, In ec c -> (0 <= snd ec < 2 ^ 31)%Z) -> abundances_ok N c ->
      In p (isotopic_convolution N c z carrier thr) -> leb N thr (inten p) = true.
    Proof.
      intros c z carrier thr p Hne Hb Hab. rewrite iso_conv_tail. cbv zeta.
      apply tail_above. apply pk_positive; assumption.
    Qed.
  End WithField.
End ConvOutput.

Print Assumptions output_sorted. Print Assumptions output_sum. Print Assumptions output_above.
