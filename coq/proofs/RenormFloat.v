(* The binary64 reading of the renormalisation corollaries (one representative: ignore_below). *)
From Coq Require Import List ZArith Bool Reals Floats Lra.
From CE Require Import Num OField Peak PeakSpec Rounded NumFloat NumFloat64 Float64Std RoundedProofs FloatStd RenormRounded.
Import ListNotations.

Lemma ignore_below_binary64 : forall (p : tip (F:=PrimFloat.float)) t,
  let kept := mkTip (filter (fun q => PrimFloat.leb t (inten q)) (peaks p)) (origin p) in
  good NumF NumRR v64 fin64 nrm64 kept ->
  let s := fold_right Rplus 0%R (map (fun q => v64 (inten q)) (peaks (ignore_below NumF p t))) in
  let n := length (peaks kept) in
  ((1 - u64) ^ 2 / (1 + u64) ^ n <= s /\ s <= (1 + u64) ^ 2 / (1 - u64) ^ n)%R.
Proof.
  intros p t kept Hg s n.
  pose proof (ignore_below_rounded NumF NumRR v64 u64 fin64 nrm64 OField_RR binary64_std_model p t Hg) as [Hlo Hhi].
  apply fle_RR in Hlo. apply fle_RR in Hhi.
  rewrite !kpow_RR in Hlo, Hhi. rewrite exact_total_RR in Hlo, Hhi.
  split; [exact Hlo | exact Hhi].
Qed.
