(* Source-level corollaries (SourceFormula): property theorems restated about the generated definitions, through the tie lemmas. *)
From Coq Require Import List ZArith NArith Bool Arith String Lia Permutation Sorted.
From CE Require Import Num Str TableTypes TableModel Comp ESpec CompSpec Formula FormulaSpec Render CBind.
From CE Require Import ImpS.
From CE Require Import FormulaGen.
From CE Require Import FormulaTie.
From CE Require Import FormulaSafe FormulaComplete.
From CE Require Import Table.
Import ListNotations.
Local Open Scope nat_scope.

(* ====================================================================================================== *)
(* C05 / C01: the translated formula parser (gen/FormulaGen.v)                                              *)
(* ====================================================================================================== *)
Section FormulaSource.
  Variable O : oracles.
  Notation un := (ImpS.uni_numeric O).
  Notation he := (ImpS.has_elem O).
  Notation hi := (ImpS.has_iso O).

  (* ---- C05: no panic ---- *)

  (* the recursion `parse_with_table` (one level of fuel per parenthesis nesting) *)
  Lemma src_parse_with_table_no_panic : forall fuel s, List.length s < fuel ->
    parse_with_table_gen O fuel s <> FPanic.
  Proof. intros fuel s Hf. rewrite parse_with_table_tie. apply parse_safe. exact Hf. Qed.

  (* the entry points: FormulaParser::parse, the free functions parse_formula / parse_formula_with_table *)
  Lemma src_parse_entries_no_panic : forall fuel s, List.length s <= fuel ->
    FormulaGen.parse_gen O fuel s <> FPanic
    /\ FormulaGen.parse_formula_gen O fuel s <> FPanic
    /\ parse_formula_with_table_gen O (S fuel) s <> FPanic.
  Proof.
    intros fuel s Hf.
    rewrite FormulaTie.parse_tie, FormulaTie.parse_formula_tie, parse_formula_with_table_tie.
    repeat split; apply parse_safe; lia.
  Qed.

  (* ---- C05: soundness (any fuel: a result that is returned at all is right) ---- *)

  Lemma model_parse_sound_fuel :
    (forall sy, he sy = true -> forallb (fun x => negb (x =? RP)%N) sy = true) ->
    forall fuel s c, parse un he hi fuel s = FOk c ->
    exists f, wf un he hi true f = true /\ render f = s /\ (forall k, e_get k c = denote f k).
  Proof.
    intros Hrp fuel s c H.
    destruct (FormulaSafe.parse_sound un he hi Hrp fuel s c H) as (f & H1 & H2 & _ & H3).
    exists f. auto.
  Qed.

  Lemma src_parse_with_table_sound :
    (forall sy, he sy = true -> forallb (fun x => negb (x =? RP)%N) sy = true) ->
    forall fuel s c, parse_with_table_gen O fuel s = FOk c ->
    exists f, wf un he hi true f = true /\ render f = s /\ (forall k, e_get k c = denote f k).
  Proof. intros Hrp fuel s c H. rewrite parse_with_table_tie in H. exact (model_parse_sound_fuel Hrp fuel s c H). Qed.

  Lemma src_parse_entries_sound :
    (forall sy, he sy = true -> forallb (fun x => negb (x =? RP)%N) sy = true) ->
    forall fuel s c,
    FormulaGen.parse_gen O fuel s = FOk c \/ FormulaGen.parse_formula_gen O fuel s = FOk c
    \/ parse_formula_with_table_gen O fuel s = FOk c ->
    exists f, wf un he hi true f = true /\ render f = s /\ (forall k, e_get k c = denote f k).
  Proof.
    intros Hrp fuel s c H.
    rewrite FormulaTie.parse_tie, FormulaTie.parse_formula_tie, parse_formula_with_table_tie in H.
    destruct H as [H|[H|H]]; exact (model_parse_sound_fuel Hrp _ s c H).
  Qed.

  (* ---- C01: completeness ---- *)

  Lemma src_parse_with_table_complete : forall fuel f,
    wf un he hi false f = true -> List.length (render f) < fuel ->
    exists c, parse_with_table_gen O fuel (render f) = FOk c
              /\ (forall k, e_get k c = denote f k)
              /\ (forall k, e_mem k c = true -> named f k = true).
  Proof.
    intros fuel f Hwf Hf. rewrite parse_with_table_tie.
    destruct (parse_fuel un he hi fuel f Hwf Hf) as [g [H1 [_ [H2 H3]]]].
    exists g. split; [exact H1|]. split; assumption.
  Qed.

  Lemma src_parse_entries_complete : forall fuel f,
    wf un he hi false f = true -> List.length (render f) <= fuel ->
    exists c, FormulaGen.parse_gen O fuel (render f) = FOk c
              /\ FormulaGen.parse_formula_gen O fuel (render f) = FOk c
              /\ parse_formula_with_table_gen O (S fuel) (render f) = FOk c
              /\ (forall k, e_get k c = denote f k)
              /\ (forall k, e_mem k c = true -> named f k = true).
  Proof.
    intros fuel f Hwf Hf.
    rewrite FormulaTie.parse_tie, FormulaTie.parse_formula_tie, parse_formula_with_table_tie.
    assert (Hlt : List.length (render f) < S fuel) by lia.
    destruct (parse_fuel un he hi (S fuel) f Hwf Hlt) as [g [H1 [_ [H2 H3]]]].
    exists g. repeat split; assumption.
  Qed.
End FormulaSource.

(* the fuel bound of the no-panic statements cannot be dropped: with fuel 1 a group needs a level that is not there *)
Example src_parse_fuel_needed :
  let O := mkOracles (fun _ => false) (fun _ => false) (fun _ => false) (fun _ => false)
                     (fun s => str_eqb s (codes "H")) (fun _ _ => false) in
  parse_with_table_gen O 1 (codes "(H)") = FPanic /\ parse_with_table_gen O 2 (codes "(H)") = FOk [((codes "H", 0%N), 1%Z)].
Proof. split; vm_compute; reflexivity. Qed.

