(* The canonical rationals satisfy every ordered-field law of [OField]. *)
From Coq Require Import ZArith QArith Qcanon List Bool Field_theory Ring_theory.
From CE Require Import Num OField NumQc.

Local Open Scope Qc_scope.

Lemma Qc_leb_iff : forall a b : Qc, Qc_leb a b = true <-> a <= b.
Proof. intros a b. unfold Qc_leb, Qcle. apply Qle_bool_iff. Qed.

Lemma Qc_of_Z_add : forall a b, Qc_of_Z (a + b) = Qc_of_Z a + Qc_of_Z b.
Proof.
  intros a b. apply Qc_is_canon. unfold Qc_of_Z, Qcplus, Q2Qc; cbn [this].
  rewrite !Qred_correct. rewrite inject_Z_plus. reflexivity.
Qed.

Lemma Qc_of_Z_mul : forall a b, Qc_of_Z (a * b) = Qc_of_Z a * Qc_of_Z b.
Proof.
  intros a b. apply Qc_is_canon. unfold Qc_of_Z, Qcmult, Q2Qc; cbn [this].
  rewrite !Qred_correct. rewrite inject_Z_mult. reflexivity.
Qed.

Lemma Qc_of_Z_opp : forall a, Qc_of_Z (- a) = - Qc_of_Z a.
Proof.
  intros a. apply Qc_is_canon. unfold Qc_of_Z, Qcopp, Q2Qc; cbn [this].
  rewrite !Qred_correct. rewrite inject_Z_opp. reflexivity.
Qed.

Theorem NumQc_OField : OField NumQc.
Proof.
  constructor; cbn [NumQc zero one sum0 add sub mul div opp abs fma of_Z of_dec ltb leb eqb is_finite is_infinite];
    unfold fle, flt, finv; cbn [NumQc zero one sum0 add sub mul div opp abs fma of_Z of_dec ltb leb eqb is_finite is_infinite].
  - constructor.
    + exact Qcrt.
    + exact (F_1_neq_0 Qcft).
    + intros p q. unfold Qcdiv. rewrite Qcmult_1_l. reflexivity.
    + intros p Hp. unfold Qcdiv. rewrite Qcmult_1_l. apply (Finv_l Qcft). exact Hp.
  - reflexivity.
  - reflexivity.
  - intros a. apply Qc_leb_iff. apply Qcle_refl.
  - intros a b H1 H2. apply Qc_leb_iff in H1, H2. apply Qcle_antisym; assumption.
  - intros a b c H1 H2. apply Qc_leb_iff in H1, H2. apply Qc_leb_iff. eapply Qcle_trans; eassumption.
  - intros a b. rewrite !Qc_leb_iff. destruct (Qclt_le_dec a b) as [H|H].
    + left. apply Qclt_le_weak. exact H.
    + right. exact H.
  - reflexivity.
  - intros a b. split.
    + apply Qc_eq_bool_correct.
    + intros ->. unfold Qc_eq_bool. destruct (Qc_eq_dec b b) as [_|n]; [reflexivity|exfalso; apply n; reflexivity].
  - intros a b c H. apply Qc_leb_iff in H. apply Qc_leb_iff. apply Qcplus_le_compat; [exact H|apply Qcle_refl].
  - intros a b Ha Hb. apply Qc_leb_iff in Ha, Hb. apply Qc_leb_iff.
    replace (Q2Qc 0) with (Q2Qc 0 * b) by ring. apply Qcmult_le_compat_r; assumption.
  - reflexivity.
  - reflexivity.
  - reflexivity.
  - exact Qc_of_Z_add.
  - exact Qc_of_Z_mul.
  - exact Qc_of_Z_opp.
  - reflexivity.
  - reflexivity.
  - reflexivity.
Qed.

Print Assumptions NumQc_OField.
