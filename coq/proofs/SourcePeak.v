(* Source-level corollaries (SourcePeak): property theorems restated about the generated definitions, through the tie lemmas. *)
From Coq Require Import String ZArith NArith Arith List Bool Permutation Sorted Lia.
From CE Require Import Num OField Mz Peak PeakSpec PeakProofs PeakFrame.
From CE Require Import PeakGen PeakTie.
Import ListNotations.
Local Open Scope nat_scope.


(* ======================================================================================================== *)
(* C13 / C14: isotopic_pattern/peak.rs                                                                       *)
(* ======================================================================================================== *)
Section PeakSrc.
  Context {F : Type} (N : Num F).
  Notation tip := (tip (F:=F)).
  Notation peak := (peak (F:=F)).

  (* ---- C13 ---- *)
  Lemma shift_src : forall (p : tip) off,
    peaks (shift_gen N p off) = map (fun q => mkPeak (add N (mz q) off) (inten q)) (peaks p)
    /\ origin (shift_gen N p off) = add N (origin p) off
    /\ clone_shifted_gen N p off = shift_gen N p off.
  Proof. intros p off. rewrite clone_shifted_tie, shift_tie. exact (shift_spec N p off). Qed.

  Lemma scale_by_src : forall (p : tip) f,
    peaks (scale_by_gen N p f) = map (fun q => mkPeak (mz q) (mul N (inten q) f)) (peaks p)
    /\ origin (scale_by_gen N p f) = origin p.
  Proof. intros p f. rewrite scale_by_tie. exact (scale_by_spec N p f). Qed.

  Lemma normalize_shape_src : forall (p : tip),
    map mz (peaks (normalize_gen N p)) = map mz (peaks p) /\ origin (normalize_gen N p) = origin p
    /\ ints (normalize_gen N p) = map (fun x => mul N x (div N (one N) (total_gen N p))) (ints p).
  Proof. intros p. rewrite normalize_tie, total_tie. exact (normalize_shape N p). Qed.

  Lemma truncate_after_src : forall (p : tip) t,
    (forall k, k < length (peaks p) -> reaches N p t k = true -> (forall j, j < k -> reaches N p t j = false) ->
       truncate_after_gen N p t = normalize_gen N (mkTip (firstn (S k) (peaks p)) (origin p)))
    /\ ((forall j, j < length (peaks p) -> reaches N p t j = false) ->
       truncate_after_gen N p t = normalize_gen N (mkTip (peaks p) (origin p))).
  Proof.
    intros p t. rewrite truncate_after_tie. split.
    - intros k Hk Hr Hmin. rewrite normalize_tie. exact (proj1 (truncate_after_spec N p t) k Hk Hr Hmin).
    - intros Hno. rewrite normalize_tie. exact (proj2 (truncate_after_spec N p t) Hno).
  Qed.

  Lemma ignore_below_src : forall (p : tip) t,
    ignore_below_gen N p t = normalize_gen N (mkTip (filter (fun q => leb N t (inten q)) (peaks p)) (origin p))
    /\ (forall q, In q (filter (fun q => leb N t (inten q)) (peaks p)) <-> In q (peaks p) /\ leb N t (inten q) = true).
  Proof. intros p t. rewrite ignore_below_tie, normalize_tie. exact (ignore_below_spec N p t). Qed.

  (* frame laws (what the operations leave alone), about the generated definitions *)
  Lemma frame_shift_src : forall (p : tip) off,
    ints (shift_gen N p off) = ints p /\ length (peaks (shift_gen N p off)) = length (peaks p).
  Proof. intros p off. rewrite shift_tie. exact (frame_shift N p off). Qed.
  Lemma frame_normalize_src : forall (p : tip),
    map mz (peaks (normalize_gen N p)) = map mz (peaks p) /\ length (peaks (normalize_gen N p)) = length (peaks p)
    /\ origin (normalize_gen N p) = origin p.
  Proof. intros p. rewrite normalize_tie. exact (frame_normalize N p). Qed.
  Lemma frame_ignore_below_src : forall (p : tip) t,
    map mz (peaks (ignore_below_gen N p t)) = map mz (filter (fun q => geb N (inten q) t) (peaks p))
    /\ length (peaks (ignore_below_gen N p t)) <= length (peaks p)
    /\ origin (ignore_below_gen N p t) = origin p.
  Proof. intros p t. rewrite ignore_below_tie. exact (frame_ignore_below N p t). Qed.
  Lemma frame_truncate_after_src : forall (p : tip) t,
    exists k, map mz (peaks (truncate_after_gen N p t)) = firstn (S k) (map mz (peaks p))
              /\ k <= Nat.pred (length (peaks p))
              /\ length (peaks (truncate_after_gen N p t)) <= length (peaks p)
              /\ (peaks p <> [] -> peaks (truncate_after_gen N p t) <> [])
              /\ origin (truncate_after_gen N p t) = origin p.
  Proof. intros p t. rewrite truncate_after_tie. exact (frame_truncate_after N p t). Qed.

  Lemma normalize_sum_src : OField N -> forall (p : tip),
    total_gen N p <> zero N -> total_gen N (normalize_gen N p) = one N.
  Proof. intros OF p. rewrite normalize_tie, !total_tie. exact (normalize_sum N OF p). Qed.

  Lemma normalize_ratio_src : OField N -> forall (p : tip) i j,
    total_gen N p <> zero N ->
    mul N (nth i (ints (normalize_gen N p)) (zero N)) (nth j (ints p) (zero N))
    = mul N (nth j (ints (normalize_gen N p)) (zero N)) (nth i (ints p) (zero N)).
  Proof. intros OF p i j. rewrite normalize_tie, total_tie. exact (normalize_ratio N OF p i j). Qed.

  Lemma truncate_sum_src : OField N -> forall (p : tip) t,
    positive N p -> peaks p <> [] -> total_gen N (truncate_after_gen N p t) = one N.
  Proof. intros OF p t. rewrite truncate_after_tie, total_tie. exact (truncate_sum N OF p t). Qed.

  Lemma ignore_sum_src : OField N -> forall (p : tip) t,
    positive N p -> (exists q, In q (peaks p) /\ leb N t (inten q) = true) -> total_gen N (ignore_below_gen N p t) = one N.
  Proof. intros OF p t. rewrite ignore_below_tie, total_tie. exact (ignore_sum N OF p t). Qed.

  (* ---- C14 ---- *)
  Lemma drop_last_src : forall (p : tip),
    clone_drop_last_gen N p = normalize_gen N (mkTip (removelast (peaks p)) (origin p)).
  Proof. intros p. rewrite clone_drop_last_tie, normalize_tie. exact (drop_last_spec N p). Qed.

  Lemma slice_src : forall (p : tip) a b,
    (a <= b <= length (peaks p) ->
       slice_normalized_gen N p a b = Ok (normalize_gen N (mkTip (firstn (b - a) (skipn a (peaks p))) (origin p))))
    /\ (~ (a <= b <= length (peaks p)) -> slice_normalized_gen N p a b = Panic).
  Proof. intros p a b. rewrite slice_normalized_tie, normalize_tie. exact (slice_spec N p a b). Qed.

  Lemma peak_eq_src : OField N -> forall (x y : peak),
    peak_eq_gen N x y = true <->
    fle N (abs N (sub N (mz x) (mz y))) (of_dec N 1 3) /\ fle N (abs N (sub N (inten x) (inten y))) (of_dec N 1 3).
  Proof. intros OF x y. rewrite peak_eq_tie. exact (peak_eq_spec N OF x y). Qed.

  Lemma fused_stepwise_src : OField N -> forall (p : tip) t1 t2 sh,
    positive N p -> peaks p <> [] ->
    peaks (truncate_after_ignore_below_shift_normalize_gen N p t1 t2 sh)
    = peaks (shift_gen N (ignore_below_gen N (truncate_after_gen N p t1) t2) sh).
  Proof.
    intros OF p t1 t2 sh. rewrite truncate_after_ignore_below_shift_normalize_tie, shift_tie, ignore_below_tie, truncate_after_tie.
    exact (fused_stepwise N OF p t1 t2 sh).
  Qed.
End PeakSrc.
