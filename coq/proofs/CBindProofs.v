(* placeholder *)
