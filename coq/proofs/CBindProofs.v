(* Proofs for C17: the C binding's handle table.  No call aborts (the two parsers are total), failing calls
   leave the table unchanged, successful calls have the effect of the Rust operation, and the number of live
   handles is allocations minus frees. *)
From Coq Require Import List ZArith NArith Bool Arith String Lia.
From CE Require Import Num Str TableTypes TableModel Comp ESpec Formula FormulaSpec CBind FormulaSafe ESpecProofs.
Import ListNotations.
(* NOT Local, on purpose: TableModel.v does a global [Open Scope Z_scope], so in Properties/C17.v the accounting
   statement [live_count _ + frees _ = allocs _] would be read in Z_scope and fail to typecheck.  This file is the
   last import of C17.v, so exporting nat_scope here puts it back on top there.  All Z literals in C17.v are either
   explicitly [%Z] or arguments of RCode/RAlloc (argument scope Z_scope), so nothing else changes meaning. *)
Local Open Scope nat_scope.

(* ------------------------------------------------------------------------------------------ *)
(* handle-table facts (independent of the table and the unicode oracles) *)

Lemma live_count_app : forall (hs : handles) l, live_count (hs ++ [Some l]) = S (live_count hs).
Proof.
  intros hs l. unfold live_count. rewrite filter_app, app_length. simpl. lia.
Qed.

Lemma live_count_cons : forall (o : option ents) (hs : handles),
  live_count (o :: hs) = (match o with Some _ => 1 | None => 0 end) + live_count hs.
Proof. intros [l|] hs; unfold live_count; simpl; reflexivity. Qed.

Lemma live_cons_S : forall (o : option ents) (hs : handles) h, live (o :: hs) (S h) = live hs h.
Proof. reflexivity. Qed.

Lemma live_count_set_some : forall (hs : handles) h l l',
  live hs h = Some l -> live_count (set_h hs h (Some l')) = live_count hs.
Proof.
  induction hs as [|o hs IH]; intros h l l' H.
  - destruct h; discriminate H.
  - destruct h as [|h].
    + unfold live in H. simpl in H. destruct o; [|discriminate]. simpl. rewrite !live_count_cons. reflexivity.
    + rewrite live_cons_S in H. simpl. rewrite !live_count_cons. rewrite (IH _ _ l' H). reflexivity.
Qed.

Lemma live_count_set_none : forall (hs : handles) h l,
  live hs h = Some l -> S (live_count (set_h hs h None)) = live_count hs.
Proof.
  induction hs as [|o hs IH]; intros h l H.
  - destruct h; discriminate H.
  - destruct h as [|h].
    + unfold live in H. simpl in H. destruct o; [|discriminate]. simpl. rewrite !live_count_cons. reflexivity.
    + rewrite live_cons_S in H. simpl. rewrite !live_count_cons. rewrite <- (IH _ _ H). lia.
Qed.

Lemma nth_error_set_h_other : forall (hs : handles) h v q,
  q <> h -> nth_error (set_h hs h v) q = nth_error hs q.
Proof.
  induction hs as [|o hs IH]; intros h v q Hq.
  - destruct h; reflexivity.
  - destruct h as [|h]; destruct q as [|q]; simpl; try reflexivity.
    + congruence.
    + apply IH. congruence.
Qed.

Section CBindProofs.
  Variable tbl : list (string * elem).
  Variable uni_numeric uni_alphabetic : char -> bool.
  Notation step := (cstep tbl uni_numeric uni_alphabetic).

  (* ---------------------------------------------------------------------------------------- *)
  Lemma no_abort : forall hs c, snd (step hs c) <> RAbort.
  Proof.
    intros hs c. destruct c; simpl.
    - discriminate.
    - pose proof (parse_formula_no_panic uni_numeric (has_elem tbl) (has_iso tbl) text) as P.
      destruct (parse_formula uni_numeric (has_elem tbl) (has_iso tbl) text); simpl; try discriminate.
      congruence.
    - destruct (live hs h); simpl; discriminate.
    - destruct (live hs h); simpl; discriminate.
    - destruct (live hs h); simpl; try discriminate.
      pose proof (parse_total tbl text) as P.
      destruct (espec_parse tbl text); simpl; try discriminate. congruence.
    - destruct (live hs h); simpl; try discriminate.
      pose proof (parse_total tbl text) as P.
      destruct (espec_parse tbl text); simpl; try discriminate. congruence.
    - destruct (live hs h); [destruct (live hs g)|]; simpl; discriminate.
    - destruct (live hs h); [destruct (live hs g)|]; simpl; discriminate.
    - destruct (live hs h); simpl; discriminate.
    - destruct (live hs h); simpl; discriminate.
    - destruct (live hs h); simpl; discriminate.
  Qed.

  (* ---------------------------------------------------------------------------------------- *)
  Lemma errors_change_nothing : forall hs c,
    (forall code isnull, snd (step hs c) = RAlloc code isnull -> code <> 0%Z -> fst (step hs c) = hs /\ isnull = true)
    /\ (forall code, snd (step hs c) = RCode code -> code <> 0%Z -> fst (step hs c) = hs)
    /\ (forall v, snd (step hs c) = RValue v -> fst (step hs c) = hs)
    /\ (snd (step hs c) = RMass -> fst (step hs c) = hs)
    /\ (snd (step hs c) = RContract -> fst (step hs c) = hs).
  Proof.
    intros hs c.
    assert (T : forall (x : handles * cresult),
      x = step hs c ->
      (forall code isnull, snd x = RAlloc code isnull -> code <> 0%Z -> fst x = hs /\ isnull = true)
      /\ (forall code, snd x = RCode code -> code <> 0%Z -> fst x = hs)
      /\ (forall v, snd x = RValue v -> fst x = hs)
      /\ (snd x = RMass -> fst x = hs)
      /\ (snd x = RContract -> fst x = hs)); [| apply (T _ eq_refl)].
    intros x Hx.
    assert (OK0 : forall hs', x = (hs', RCode 0) ->
      (forall code isnull, snd x = RAlloc code isnull -> code <> 0%Z -> fst x = hs /\ isnull = true)
      /\ (forall code, snd x = RCode code -> code <> 0%Z -> fst x = hs)
      /\ (forall v, snd x = RValue v -> fst x = hs)
      /\ (snd x = RMass -> fst x = hs)
      /\ (snd x = RContract -> fst x = hs)).
    { intros hs' ->. simpl. repeat split; try discriminate. intros code E. inversion E. congruence. }
    assert (OKA : forall hs', x = (hs', RAlloc 0 false) ->
      (forall code isnull, snd x = RAlloc code isnull -> code <> 0%Z -> fst x = hs /\ isnull = true)
      /\ (forall code, snd x = RCode code -> code <> 0%Z -> fst x = hs)
      /\ (forall v, snd x = RValue v -> fst x = hs)
      /\ (snd x = RMass -> fst x = hs)
      /\ (snd x = RContract -> fst x = hs)).
    { intros hs' ->. simpl. repeat split; try discriminate; inversion H; congruence. }
    assert (SAME : forall r, x = (hs, r) -> (forall code, r = RAlloc code false -> code = 0%Z) ->
      (forall code isnull, snd x = RAlloc code isnull -> code <> 0%Z -> fst x = hs /\ isnull = true)
      /\ (forall code, snd x = RCode code -> code <> 0%Z -> fst x = hs)
      /\ (forall v, snd x = RValue v -> fst x = hs)
      /\ (snd x = RMass -> fst x = hs)
      /\ (snd x = RContract -> fst x = hs)).
    { intros r -> Hr. simpl. repeat split; try reflexivity.
      destruct isnull; [reflexivity|]. subst r. specialize (Hr _ eq_refl). congruence. }
    destruct c; simpl in Hx.
    - eapply OKA; eassumption.
    - pose proof (parse_formula_no_panic uni_numeric (has_elem tbl) (has_iso tbl) text) as P.
      destruct (parse_formula uni_numeric (has_elem tbl) (has_iso tbl) text).
      + eapply OKA; eassumption.
      + eapply SAME; [eassumption|]. discriminate.
      + congruence.
    - destruct (live hs h).
      + eapply OKA; eassumption.
      + eapply SAME; [eassumption|]. discriminate.
    - destruct (live hs h); (eapply SAME; [eassumption|]; discriminate).
    - destruct (live hs h); [|eapply SAME; [eassumption|]; discriminate].
      destruct (espec_parse tbl text).
      + eapply OK0; eassumption.
      + eapply SAME; [eassumption|]; discriminate.
      + eapply SAME; [eassumption|]; discriminate.
    - destruct (live hs h); [|eapply SAME; [eassumption|]; discriminate].
      destruct (espec_parse tbl text).
      + eapply OK0; eassumption.
      + eapply SAME; [eassumption|]; discriminate.
      + eapply SAME; [eassumption|]; discriminate.
    - destruct (live hs h); [destruct (live hs g)|].
      + eapply OK0; eassumption.
      + eapply SAME; [eassumption|]; discriminate.
      + eapply SAME; [eassumption|]; discriminate.
    - destruct (live hs h); [destruct (live hs g)|].
      + eapply OK0; eassumption.
      + eapply SAME; [eassumption|]; discriminate.
      + eapply SAME; [eassumption|]; discriminate.
    - destruct (live hs h).
      + eapply OK0; eassumption.
      + eapply SAME; [eassumption|]; discriminate.
    - destruct (live hs h); (eapply SAME; [eassumption|]; discriminate).
    - destruct (live hs h).
      + eapply OK0; eassumption.
      + eapply SAME; [eassumption|]; discriminate.
  Qed.

  (* ---------------------------------------------------------------------------------------- *)
  Lemma effects : forall hs h g t n a b,
    live hs h = Some a -> live hs g = Some b ->
    (forall k, espec_parse tbl t = EOk k -> step hs (CSet h t n) = (set_h hs h (Some (e_set k n a)), RCode 0))
    /\ (forall k, espec_parse tbl t = EOk k -> step hs (CInc h t n) = (set_h hs h (Some (e_inc k n a)), RCode 0))
    /\ (espec_parse tbl t = EErr UnclosedIsotope -> step hs (CSet h t n) = (hs, RCode 1))
    /\ (espec_parse tbl t = EErr UnknownElement -> step hs (CSet h t n) = (hs, RCode 2))
    /\ step hs (CAdd h g) = (set_h hs h (Some (e_add a b)), RCode 0)
    /\ step hs (CSub h g) = (set_h hs h (Some (e_sub a b)), RCode 0)
    /\ step hs (CScale h n) = (set_h hs h (Some (e_mul a n)), RCode 0)
    /\ step hs (CGet h t) = (hs, RValue (v_index_str tbl uni_alphabetic t a))
    /\ step hs (CCopy h) = (hs ++ [Some a], RAlloc 0 false)
    /\ (forall q, q <> h -> nth_error (set_h hs h (Some (e_add a b))) q = nth_error hs q).
  Proof.
    intros hs h g t n a b Ha Hb.
    repeat split.
    - intros k Hk. simpl. rewrite Ha, Hk. reflexivity.
    - intros k Hk. simpl. rewrite Ha, Hk. reflexivity.
    - intros Hk. simpl. rewrite Ha, Hk. reflexivity.
    - intros Hk. simpl. rewrite Ha, Hk. reflexivity.
    - simpl. rewrite Ha, Hb. reflexivity.
    - simpl. rewrite Ha, Hb. reflexivity.
    - simpl. rewrite Ha. reflexivity.
    - simpl. rewrite Ha. reflexivity.
    - simpl. rewrite Ha. reflexivity.
    - intros q Hq. apply nth_error_set_h_other. exact Hq.
  Qed.

  (* ---------------------------------------------------------------------------------------- *)
  Lemma parse_handle : forall hs t,
    (forall l, parse_formula uni_numeric (has_elem tbl) (has_iso tbl) t = FOk l -> step hs (CParse t) = (hs ++ [Some l], RAlloc 0 false))
    /\ (forall e, parse_formula uni_numeric (has_elem tbl) (has_iso tbl) t = FErr e -> step hs (CParse t) = (hs, RAlloc (ferr_code e) true)
                  /\ (1 <= ferr_code e <= 6)%Z).
  Proof.
    intros hs t. split.
    - intros l H. simpl. rewrite H. reflexivity.
    - intros e H. split.
      + simpl. rewrite H. reflexivity.
      + destruct e; simpl; lia.
  Qed.

  (* ---------------------------------------------------------------------------------------- *)
  (* accounting *)
  Definition f_alloc : ccall -> cresult -> bool := fun _ r => is_alloc_ok r.
  Definition f_free : ccall -> cresult -> bool :=
    fun c r => match c, r with CFree _, RCode 0%Z => true | _, _ => false end.
  Definition cnt (f : ccall -> cresult -> bool) (st : handles * nat) (c : ccall) : handles * nat :=
    let '(hs, n) := st in
    let '(hs', r) := step hs c in
    (hs', if f c r then S n else n).

  Lemma step_count : forall hs c hs' r na nf,
    step hs c = (hs', r) -> live_count hs + nf = na ->
    live_count hs' + (if f_free c r then S nf else nf) = (if f_alloc c r then S na else na).
  Proof.
    intros hs c hs' r na nf Hs Hinv.
    assert (ALLOC : forall l, (hs', r) = (hs ++ [Some l], RAlloc 0 false) -> (forall x, c <> CFree x) ->
      live_count hs' + (if f_free c r then S nf else nf) = (if f_alloc c r then S na else na)).
    { intros l E Hc. inversion E; subst hs' r. rewrite live_count_app.
      unfold f_alloc, f_free. simpl. destruct c; try lia. }
    assert (SAME : forall hs'', (hs', r) = (hs'', r) -> live_count hs'' = live_count hs ->
      f_free c r = false -> f_alloc c r = false ->
      live_count hs' + (if f_free c r then S nf else nf) = (if f_alloc c r then S na else na)).
    { intros hs'' E Hl H1 H2. inversion E; subst hs''. rewrite H1, H2. lia. }
    destruct c; simpl in Hs; symmetry in Hs.
    - eapply ALLOC; [eassumption|discriminate].
    - pose proof (parse_formula_no_panic uni_numeric (has_elem tbl) (has_iso tbl) text) as P.
      destruct (parse_formula uni_numeric (has_elem tbl) (has_iso tbl) text).
      + eapply ALLOC; [eassumption|discriminate].
      + inversion Hs; subst. eapply SAME; try reflexivity. unfold f_alloc. simpl. destruct (ferr_code e); reflexivity.
      + congruence.
    - destruct (live hs h).
      + eapply ALLOC; [eassumption|discriminate].
      + inversion Hs; subst. eapply SAME; reflexivity.
    - destruct (live hs h); inversion Hs; subst; eapply SAME; reflexivity.
    - destruct (live hs h) eqn:L; [|inversion Hs; subst; eapply SAME; reflexivity].
      destruct (espec_parse tbl text); inversion Hs; subst.
      + eapply SAME; try reflexivity. eapply live_count_set_some; eassumption.
      + eapply SAME; reflexivity.
      + eapply SAME; reflexivity.
    - destruct (live hs h) eqn:L; [|inversion Hs; subst; eapply SAME; reflexivity].
      destruct (espec_parse tbl text); inversion Hs; subst.
      + eapply SAME; try reflexivity. eapply live_count_set_some; eassumption.
      + eapply SAME; reflexivity.
      + eapply SAME; reflexivity.
    - destruct (live hs h) eqn:L; [destruct (live hs g)|]; inversion Hs; subst.
      + eapply SAME; try reflexivity. eapply live_count_set_some; eassumption.
      + eapply SAME; reflexivity.
      + eapply SAME; reflexivity.
    - destruct (live hs h) eqn:L; [destruct (live hs g)|]; inversion Hs; subst.
      + eapply SAME; try reflexivity. eapply live_count_set_some; eassumption.
      + eapply SAME; reflexivity.
      + eapply SAME; reflexivity.
    - destruct (live hs h) eqn:L; inversion Hs; subst.
      + eapply SAME; try reflexivity. eapply live_count_set_some; eassumption.
      + eapply SAME; reflexivity.
    - destruct (live hs h); inversion Hs; subst; eapply SAME; reflexivity.
    - destruct (live hs h) eqn:L; inversion Hs; subst.
      + unfold f_alloc, f_free. simpl. pose proof (live_count_set_none _ _ _ L). lia.
      + eapply SAME; reflexivity.
  Qed.

  Lemma accounting_gen : forall cs hs na nf,
    live_count hs + nf = na ->
    live_count (fold_left (fun hs c => fst (step hs c)) cs hs) + snd (fold_left (cnt f_free) cs (hs, nf))
    = snd (fold_left (cnt f_alloc) cs (hs, na)).
  Proof.
    induction cs as [|c cs IH]; intros hs na nf Hinv.
    - simpl. exact Hinv.
    - simpl. destruct (step hs c) as [hs' r] eqn:Hs. simpl.
      apply IH. eapply step_count; eassumption.
  Qed.

  Lemma accounting : forall cs,
    live_count (crun tbl uni_numeric uni_alphabetic cs) + frees tbl uni_numeric uni_alphabetic cs
    = allocs tbl uni_numeric uni_alphabetic cs.
  Proof.
    intros cs. exact (accounting_gen cs [] 0 0 eq_refl).
  Qed.

  (* ---------------------------------------------------------------------------------------- *)
  Lemma no_use_after_free : forall hs h c,
    live hs h = None -> uses c h = true -> snd (step hs c) = RContract.
  Proof.
    intros hs h c L U.
    destruct c; simpl in U; try discriminate;
      try (apply Nat.eqb_eq in U; subst; simpl; rewrite L; reflexivity).
    - apply orb_true_iff in U. destruct U as [U|U]; apply Nat.eqb_eq in U; subst; simpl.
      + rewrite L. reflexivity.
      + destruct (live hs h0); [rewrite L|]; reflexivity.
    - apply orb_true_iff in U. destruct U as [U|U]; apply Nat.eqb_eq in U; subst; simpl.
      + rewrite L. reflexivity.
      + destruct (live hs h0); [rewrite L|]; reflexivity.
  Qed.
End CBindProofs.

About no_abort. About errors_change_nothing. About effects. About parse_handle. About accounting. About no_use_after_free.
Print Assumptions no_abort. Print Assumptions errors_change_nothing. Print Assumptions effects.
Print Assumptions parse_handle. Print Assumptions accounting. Print Assumptions no_use_after_free.
