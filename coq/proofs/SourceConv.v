(* Source-level corollaries (SourceConv): property theorems restated about the generated definitions, through the tie lemmas. *)
From Coq Require Import String ZArith NArith Arith List Bool Permutation Sorted Lia.
From CE Require Import Num OField Mz Peak PeakSpec PeakProofs.
From CE Require Import Poisson PoissonSpec PoissonProofs SrcGen SrcTie PoissonGen PoissonTie PeakGen PeakTie SourcePeak SourcePoisson ChargeProofs.
From CE Require Import Conv ConvSpec ConvProofs ConvOutput ImpW ConvGen ConvTie.
Import ListNotations.
Local Open Scope nat_scope.


Section ConvSrc.
  Context {F : Type} (N : Num F).
  Notation dist := (list (F * F)).

  (* ---- the two translated functions ---- *)

  (* exact arithmetic: the generated convolve_with appends, to what `out` held, the cross product filtered at the
     threshold *)
  Lemma convolve_with_filter_src : OField N -> forall (d e out0 : dist) thr,
    convolve_with_gen N d e out0 thr = out0 ++ filter (fun x => leb N thr (snd x)) (cross_all N d e).
  Proof. intros OF d e out0 thr. rewrite convolve_with_tie, (conv_filter N OF thr d e). reflexivity. Qed.

  Lemma naive_pow_okd : OField N -> forall (d : dist) n, okd N d -> okd N (naive_pow N d n).
  Proof.
    intros OF d n Hd. induction n as [|n IH]; cbn [naive_pow]; [apply (okd_unit N OF) | apply (okd_cross N OF); assumption].
  Qed.

  (* the generated convolve_pow (called, as everywhere in the crate, with an empty `out`), for an i32 count n >= 0 and
     abundances in (0, 1]: at a threshold <= 0 it is the full n-fold expansion up to order ... *)
  Lemma pow_threshold_zero_src : OField N -> forall (d : dist) n thr,
    (0 <= n < 2 ^ 31)%Z -> (forall x, In x d -> flt N (zero N) (snd x) /\ fle N (snd x) (one N)) ->
    leb N thr (zero N) = true ->
    Permutation (convolve_pow_gen N d n [] thr) (naive_pow N d (Z.to_nat n)).
  Proof.
    intros OF d n thr Hn Hd Ht. rewrite convolve_pow_tie. apply (pow_expansion_below N OF d n thr Hn Hd).
    intros x Hx. apply (of_le_trans N OF _ (zero N)); [exact Ht|].
    apply (lt_le N OF). exact (proj1 (naive_pow_okd OF d _ Hd x Hx)).
  Qed.

  (* ... and at any threshold its entries at or above the threshold are, with multiplicities, those of the expansion *)
  Lemma pow_multiset_src : OField N -> forall (d : dist) n thr,
    (0 <= n < 2 ^ 31)%Z -> (forall x, In x d -> flt N (zero N) (snd x) /\ fle N (snd x) (one N)) ->
    Permutation (filter (fun x => leb N thr (snd x)) (convolve_pow_gen N d n [] thr))
                (filter (fun x => leb N thr (snd x)) (naive_pow N d (Z.to_nat n))).
  Proof. intros OF d n thr Hn Hd. rewrite convolve_pow_tie. exact (pow_multiset N OF d n thr Hn Hd). Qed.

  Lemma pow_no_junk_src : OField N -> forall (d : dist) n thr x,
    (0 <= n < 2 ^ 31)%Z -> In x (convolve_pow_gen N d n [] thr) -> In x (naive_pow N d (Z.to_nat n)).
  Proof. intros OF d n thr x Hn. rewrite convolve_pow_tie. exact (pow_no_junk N OF d n thr x Hn). Qed.

  (* ---- the public function.  Its driver (the fold over the elements, the stable sort by mass, the charge conversion)
          is not translated; [isotopic_convolution_src] is that driver - the model's - around the GENERATED functions:
          convolve_pow_gen / convolve_with_gen (ConvGen.v), mass_charge_ratio_gen (SrcGen.v), normalize_gen /
          ignore_below_gen (PeakGen.v) ---- *)
  Definition conv_all_src (c : list (dist * Z)) (thr : F) : dist :=
    snd (fold_left (fun st ec =>
           let '(first, out) := st in
           let tmp := convolve_pow_gen N (fst ec) (snd ec) [] thr in
           if (first : bool) then (false, tmp) else (false, convolve_with_gen N tmp out [] thr))
         c (true, [])).

  Definition isotopic_convolution_src (c : list (dist * Z)) (charge : Z) (carrier thr : F) : list (peak (F:=F)) :=
    let sorted := sort_mass N (conv_all_src c thr) in
    let pk := map (fun mi => mkPeak (charged_src N (fst mi) charge carrier) (snd mi)) sorted in
    let origin := match pk with p :: _ => mz p | [] => zero N end in
    peaks (ignore_below_gen N (normalize_gen N (mkTip pk origin)) thr).

  Lemma fold_left_ext_all {A B : Type} (f g : A -> B -> A) : (forall a x, f a x = g a x) ->
    forall l a, fold_left f l a = fold_left g l a.
  Proof. intros H. induction l as [|x r IH]; intros a; [reflexivity|]. cbn [fold_left]. rewrite H. apply IH. Qed.

  Lemma conv_all_src_model : forall c thr, conv_all_src c thr = conv_all N c thr.
  Proof.
    intros c thr. unfold conv_all_src, conv_all. apply f_equal, fold_left_ext_all.
    intros [first out] ec. rewrite convolve_pow_tie, convolve_with_tie. reflexivity.
  Qed.

  Lemma isotopic_convolution_src_model : forall c z carrier thr,
    isotopic_convolution_src c z carrier thr = isotopic_convolution N c z carrier thr.
  Proof.
    intros c z carrier thr. unfold isotopic_convolution_src, isotopic_convolution. cbv zeta.
    rewrite ignore_below_tie, normalize_tie, conv_all_src_model.
    rewrite (map_ext (fun mi => mkPeak (charged_src N (fst mi) z carrier) (snd mi))
                     (fun mi => mkPeak (charged N (fst mi) z carrier) (snd mi)))
      by (intros mi; apply f_equal2; [apply charged_src_model | reflexivity]).
    reflexivity.
  Qed.

  Lemma all_threshold_zero_src : OField N -> forall c thr,
    c <> [] -> (forall ec, In ec c -> (0 <= snd ec < 2 ^ 31)%Z) -> abundances_ok N c ->
    leb N thr (zero N) = true -> Permutation (conv_all_src c thr) (naive_all N c).
  Proof. intros OF c thr. rewrite conv_all_src_model. exact (all_expansion_nonpos N OF c thr). Qed.

  Lemma all_multiset_src : OField N -> forall c thr,
    c <> [] -> (forall ec, In ec c -> (0 <= snd ec < 2 ^ 31)%Z) -> abundances_ok N c ->
    Permutation (filter (fun x => leb N thr (snd x)) (conv_all_src c thr))
                (filter (fun x => leb N thr (snd x)) (naive_all N c)).
  Proof. intros OF c thr. rewrite conv_all_src_model. exact (all_multiset N OF c thr). Qed.

  Lemma output_sorted_src : OField N -> forall c z carrier thr,
    StronglySorted (fun a b => leb N (mz a) (mz b) = true) (isotopic_convolution_src c z carrier thr).
  Proof. intros OF c z carrier thr. rewrite isotopic_convolution_src_model. exact (output_sorted N OF c z carrier thr). Qed.

  Lemma output_sum_src : OField N -> forall c z carrier thr,
    c <> [] -> (forall ec, In ec c -> (0 <= snd ec < 2 ^ 31)%Z) -> abundances_ok N c ->
    isotopic_convolution_src c z carrier thr <> [] ->
    fsum N (map inten (isotopic_convolution_src c z carrier thr)) = one N.
  Proof. intros OF c z carrier thr. rewrite isotopic_convolution_src_model. exact (output_sum N OF c z carrier thr). Qed.

  Lemma output_above_src : OField N -> forall c z carrier thr p,
    c <> [] -> (forall ec, In ec c -> (0 <= snd ec < 2 ^ 31)%Z) -> abundances_ok N c ->
    In p (isotopic_convolution_src c z carrier thr) -> leb N thr (inten p) = true.
  Proof. intros OF c z carrier thr p. rewrite isotopic_convolution_src_model. exact (output_above N OF c z carrier thr p). Qed.

  (* C10 for this generator: every numeric interpretation *)
  Lemma convolution_charge_src : forall c z carrier thr,
    isotopic_convolution_src c z carrier thr
    = map (fun p => mkPeak (charged_src N (mz p) z carrier) (inten p)) (isotopic_convolution_src c 0 carrier thr).
  Proof.
    intros c z carrier thr. rewrite !isotopic_convolution_src_model.
    transitivity (map (fun p => mkPeak (charged N (mz p) z carrier) (inten p)) (isotopic_convolution N c 0 carrier thr));
      [exact (convolution_charge N c z carrier thr)|].
    apply map_ext. intros p. apply f_equal2; [symmetry; apply charged_src_model | reflexivity].
  Qed.
End ConvSrc.

