(* Proofs for C15f: the Poisson generator in rounded arithmetic (standard model of floating point, extended, into an
   ordered field), and its instance at binary64. *)
From Coq Require Import ZArith List Bool Arith Lia Field Ring Field_theory Ring_theory.
From CE Require Import Num OField Mz Peak Poisson Rounded RoundedExt PoissonRoundedSpec RoundedProofs PoissonProofs.
Import ListNotations.

(* ---------- list plumbing ---------- *)

Lemma map_combine_seq_snd {A B : Type} (g : nat * A -> B) (h : A -> B) :
  (forall i x, g (i, x) = h x) ->
  forall (l : list A) s, map g (combine (seq s (length l)) l) = map h l.
Proof.
  intros E. induction l as [|x l IH]; intros s; [reflexivity|].
  cbn [length seq combine map]. rewrite E, IH. reflexivity.
Qed.

Section PoissonRounded.
  Context {F K : Type} (N : Num F) (NK : Num K) (v : F -> K) (u : K) (fin nrm : F -> bool).
  Hypothesis OF : OField NK.
  Hypothesis SMX : StdModelExt N NK v u fin nrm.
  Add Field Fk3 : (of_field NK OF).

  Local Notation k0 := (zero NK).
  Local Notation k1 := (one NK).
  Local Infix "+!" := (add NK) (at level 50, left associativity).
  Local Infix "-!" := (sub NK) (at level 50, left associativity).
  Local Infix "*!" := (mul NK) (at level 40, left associativity).
  Local Infix "/!" := (div NK) (at level 40, left associativity).
  Local Infix "<=!" := (fle NK) (at level 70).
  Local Infix "<!" := (flt NK) (at level 70).
  Local Notation om := (k1 -! u).
  Local Notation op := (k1 +! u).

  Let SM : StdModel N NK v u fin nrm := sx_base _ _ _ _ _ _ SMX.
  Let Hom : k0 <! om := om_pos N NK v u fin nrm OF SM.
  Let Hop : k0 <! op := op_pos N NK v u fin nrm OF SM.
  Let Hu : k0 <=! u := u_nonneg N NK v u fin nrm SM.

  (* ---------- factors 1 + d, |d| <= u ---------- *)

  Definition fac (t : K) : Prop := om <=! t /\ t <=! op.

  Lemma within_fac e g : within NK u e g -> exists t, fac t /\ g = e *! t.
  Proof.
    intros [d [H1 [H2 ->]]]. exists (k1 +! d). split; [split|reflexivity].
    - apply (kle_of_sub NK OF). replace (k1 +! d -! om) with (d -! opp NK u) by ring.
      apply (ksub_of_le NK OF). exact H1.
    - apply (kle_of_sub NK OF). replace (op -! (k1 +! d)) with (u -! d) by ring.
      apply (ksub_of_le NK OF). exact H2.
  Qed.

  Lemma fac_pos t : fac t -> k0 <! t.
  Proof. intros [H _]. exact (klt_le_trans NK OF _ _ _ Hom H). Qed.

  Lemma fac_neq t : fac t -> t <> k0.
  Proof. intros H. apply (klt_neq NK OF). apply fac_pos. exact H. Qed.

  Lemma fac_1 : fac k1.
  Proof.
    split; apply (kle_of_sub NK OF).
    - replace (k1 -! om) with u by ring. exact Hu.
    - replace (op -! k1) with u by ring. exact Hu.
  Qed.

  Lemma within_pos e g : k0 <! e -> within NK u e g -> k0 <! g.
  Proof.
    intros He W. destruct (within_fac _ _ W) as [t [Ht ->]].
    apply (kmul_pos NK OF); [exact He|apply fac_pos; exact Ht].
  Qed.

  Lemma kdiv_pos a b : k0 <! a -> k0 <! b -> k0 <! a /! b.
  Proof.
    intros Ha Hb. replace (a /! b) with (a *! (k1 /! b)) by (field; apply (klt_neq NK OF); exact Hb).
    apply (kmul_pos NK OF); [exact Ha|apply (kinv_pos NK OF); exact Hb].
  Qed.

  Lemma kofZ_pos z : (0 < z)%Z -> k0 <! of_Z NK z.
  Proof.
    intros Hz. destruct z as [|p|p]; try lia. clear Hz.
    induction p as [|p IH] using Pos.peano_ind.
    - rewrite (of_Z_1 NK OF). apply (k01 NK OF).
    - rewrite Pos2Z.inj_succ, <- Z.add_1_r, (of_Z_add NK OF), (of_Z_1 NK OF).
      apply (klt_le_trans NK OF _ (of_Z NK (Z.pos p))); [exact IH|].
      apply (kle_of_sub NK OF).
      replace (of_Z NK (Z.pos p) +! k1 -! of_Z NK (Z.pos p)) with k1 by ring.
      apply (klt_le NK OF). apply (k01 NK OF).
  Qed.

  (* products and quotients of bounded positive quantities *)
  Lemma btw_mul lo1 hi1 lo2 hi2 x y : k0 <=! lo1 -> k0 <=! lo2 ->
    lo1 <=! x -> x <=! hi1 -> lo2 <=! y -> y <=! hi2 ->
    lo1 *! lo2 <=! x *! y /\ x *! y <=! hi1 *! hi2.
  Proof.
    intros H1 H2 Hx1 Hx2 Hy1 Hy2.
    pose proof (kle_trans NK OF _ _ _ H1 Hx1) as Hx0.
    pose proof (kle_trans NK OF _ _ _ H2 Hy1) as Hy0.
    pose proof (kle_trans NK OF _ _ _ Hx0 Hx2) as Hh1.
    split.
    - apply (kle_trans NK OF _ (lo1 *! y)).
      + apply (kle_mul_l NK OF); assumption.
      + apply (kle_mul_r NK OF); assumption.
    - apply (kle_trans NK OF _ (hi1 *! y)).
      + apply (kle_mul_r NK OF); assumption.
      + apply (kle_mul_l NK OF); assumption.
  Qed.

  Lemma frac_bounds lo hi a b : k0 <! lo -> lo <=! a -> a <=! hi -> lo <=! b -> b <=! hi ->
    lo /! hi <=! a /! b /\ a /! b <=! hi /! lo.
  Proof.
    intros Hlo Ha1 Ha2 Hb1 Hb2.
    pose proof (klt_le_trans NK OF _ _ _ Hlo Hb1) as Hb.
    pose proof (klt_le_trans NK OF _ _ _ Hb Hb2) as Hhi.
    pose proof (klt_neq NK OF _ _ Hlo) as Hlon. pose proof (klt_neq NK OF _ _ Hb) as Hbn.
    pose proof (klt_neq NK OF _ _ Hhi) as Hhin.
    pose proof (kinv_anti NK OF _ _ Hb Hb2) as I1.
    pose proof (kinv_anti NK OF _ _ Hlo Hb1) as I2.
    destruct (btw_mul lo hi (k1 /! hi) (k1 /! lo) a (k1 /! b)) as [L1 L2]; try assumption.
    - apply (klt_le NK OF). exact Hlo.
    - apply (klt_le NK OF). apply (kinv_pos NK OF). exact Hhi.
    - replace (lo /! hi) with (lo *! (k1 /! hi)) by (field; exact Hhin).
      replace (hi /! lo) with (hi *! (k1 /! lo)) by (field; exact Hlon).
      replace (a /! b) with (a *! (k1 /! b)) by (field; exact Hbn).
      split; assumption.
  Qed.

  Lemma fac_prod3 a b c : fac a -> fac b -> fac c ->
    kpow NK om 3 <=! a *! b *! c /\ a *! b *! c <=! kpow NK op 3.
  Proof.
    intros [A1 A2] [B1 B2] [C1 C2]. pose proof (klt_le NK OF _ _ Hom) as H0.
    destruct (btw_mul om op om op a b) as [P1 P2]; try assumption.
    destruct (btw_mul (om *! om) (op *! op) om op (a *! b) c) as [Q1 Q2]; try assumption.
    { apply (kmul_nonneg NK OF); assumption. }
    cbn [kpow]. split.
    - replace (om *! (om *! (om *! k1))) with (om *! om *! om) by ring. exact Q1.
    - replace (op *! (op *! (op *! k1))) with (op *! op *! op) by ring. exact Q2.
  Qed.

  (* ---------- the loop ---------- *)

  Lemma pois_loop lam : fin lam = true -> k0 <! v lam ->
    forall fuel i p fact tot xp,
    (1 <= i)%Z -> (i + Z.of_nat fuel <= 2 ^ 53)%Z ->
    fin p = true -> fin fact = true -> k0 <! v p -> k0 <! v fact ->
    (exists ta, fac ta /\ v xp = v p /! v fact *! ta) ->
    pois_safe N fin nrm lam i fuel p fact tot = true ->
    let tl := fst (pois_terms N lam i fuel p fact tot) in
    snd (pois_terms N lam i fuel p fact tot) = fold_left (add N) tl tot
    /\ forallb fin tl = true
    /\ forallb fin (partials N tl tot) = true
    /\ (forall x, In x tl -> k0 <! v x)
    /\ (forall j, (j < fuel)%nat -> exists t1 t2 t3 t4, fac t1 /\ fac t2 /\ fac t3 /\ fac t4 /\
          v (nth j tl (zero N))
          = v (nth j (xp :: tl) (zero N)) *! (v lam /! of_Z NK (i + Z.of_nat j)) *! ((t1 *! t2) /! (t3 *! t4))).
  Proof.
    intros Hfl Hl. induction fuel as [|fuel IH]; intros i p fact tot xp Hi Hb Hfp Hff Hp Hf [ta [Hta Exp]] Hs.
    - cbn. repeat split; try reflexivity.
      + intros x [].
      + intros j Hj. lia.
    - cbn [pois_safe] in Hs. cbv zeta in Hs.
      set (p' := mul N p lam) in *. set (f' := mul N fact (of_Z N i)) in *. set (cur := div N p' f') in *.
      apply andb_true_iff in Hs. destruct Hs as [Hs Hrec].
      apply andb_true_iff in Hs. destruct Hs as [Hs Hft].
      apply andb_true_iff in Hs. destruct Hs as [Hs Hnc].
      apply andb_true_iff in Hs. destruct Hs as [Hnp Hnf].
      assert (Hiz : (Z.abs i <= 2 ^ 53)%Z) by lia.
      destruct (sx_of_Z _ _ _ _ _ _ SMX i Hiz) as [Evi Hfi].
      assert (HI : k0 <! of_Z NK i) by (apply kofZ_pos; lia).
      pose proof (sm_mul _ _ _ _ _ _ SM p lam Hfp Hfl Hnp) as Wp. fold p' in Wp.
      pose proof (sm_mul _ _ _ _ _ _ SM fact (of_Z N i) Hff Hfi Hnf) as Wf. fold f' in Wf. rewrite Evi in Wf.
      assert (Hp' : k0 <! v p') by (apply (within_pos _ _ (kmul_pos NK OF _ _ Hp Hl) Wp)).
      assert (Hf' : k0 <! v f') by (apply (within_pos _ _ (kmul_pos NK OF _ _ Hf HI) Wf)).
      pose proof (sm_nrm_fin _ _ _ _ _ _ SM _ Hnp) as Hfp'.
      pose proof (sm_nrm_fin _ _ _ _ _ _ SM _ Hnf) as Hff'.
      pose proof (sm_nrm_fin _ _ _ _ _ _ SM _ Hnc) as Hfc.
      pose proof (sm_div _ _ _ _ _ _ SM p' f' Hfp' Hff' (klt_neq NK OF _ _ Hf') Hnc) as Wc. fold cur in Wc.
      assert (Hc : k0 <! v cur) by (apply (within_pos _ _ (kdiv_pos _ _ Hp' Hf') Wc)).
      destruct (within_fac _ _ Wp) as [tb [Htb Ep]].
      destruct (within_fac _ _ Wf) as [tc [Htc Ef]].
      destruct (within_fac _ _ Wc) as [ta' [Hta' Ec]].
      assert (Hi1 : (1 <= i + 1)%Z) by lia.
      assert (Hb1 : (i + 1 + Z.of_nat fuel <= 2 ^ 53)%Z) by lia.
      specialize (IH (i + 1)%Z p' f' (add N tot cur) cur Hi1 Hb1 Hfp' Hff' Hp' Hf'
                     (ex_intro _ ta' (conj Hta' Ec)) Hrec).
      cbv zeta in IH. destruct IH as [I1 [I2 [I3 [I4 I5]]]].
      rewrite pois_terms_S. cbv zeta. fold p' f' cur.
      rewrite (sx_is_finite _ _ _ _ _ _ SMX cur), Hfc.
      set (R := pois_terms N lam (i + 1) fuel p' f' (add N tot cur)) in *.
      cbn [fst snd fold_left forallb partials].
      split; [exact I1|]. split; [rewrite Hfc, I2; reflexivity|]. split; [rewrite Hft, I3; reflexivity|].
      split.
      + intros x [<-|Hx]; [exact Hc|apply I4; exact Hx].
      + intros [|j] Hj.
        * exists tb, ta', tc, ta. repeat (split; [assumption|]).
          cbn [nth]. rewrite Z.add_0_r, Ec, Ep, Ef, Exp.
          field. repeat split; try (apply fac_neq; assumption); apply (klt_neq NK OF); assumption.
        * destruct (I5 j) as [t1 [t2 [t3 [t4 [T1 [T2 [T3 [T4 E]]]]]]]]; [lia|].
          exists t1, t2, t3, t4. repeat (split; [assumption|]).
          change (nth (S j) (cur :: fst R) (zero N)) with (nth j (fst R) (zero N)).
          change (nth (S j) (xp :: cur :: fst R) (zero N)) with (nth j (cur :: fst R) (zero N)).
          rewrite E. replace (i + 1 + Z.of_nat j)%Z with (i + Z.of_nat (S j))%Z by lia. reflexivity.
  Qed.

  (* ---------- the final quotients ---------- *)

  Lemma quot_within total x : fin total = true -> k0 <! v total -> fin x = true -> nrm (div N x total) = true ->
    within NK u (v x /! v total) (v (div N x total)).
  Proof.
    intros Hft HT Hfx Hn. apply (sm_div _ _ _ _ _ _ SM); try assumption. apply (klt_neq NK OF). exact HT.
  Qed.

  Lemma quot_sum total : fin total = true -> k0 <! v total ->
    forall l : list F, (forall x, In x l -> fin x = true /\ k0 <! v x /\ nrm (div N x total) = true) ->
    let S := ksum NK (map v l) in
    let S' := ksum NK (map (fun x => v (div N x total)) l) in
    S /! v total *! om <=! S' /\ S' <=! S /! v total *! op.
  Proof.
    intros Hft HT. pose proof (klt_neq NK OF _ _ HT) as HTn.
    induction l as [|x l IH]; intros H; cbv zeta.
    - cbn [map ksum fold_right]. split; apply (kle_eq NK OF); field; exact HTn.
    - destruct (H x (or_introl eq_refl)) as [Hfx [Hx Hn]].
      destruct (IH (fun y Hy => H y (or_intror Hy))) as [IH1 IH2]. cbv zeta in IH1, IH2.
      pose proof (quot_within total x Hft HT Hfx Hn) as W.
      destruct (within_bounds NK OF u _ _ (klt_le NK OF _ _ (kdiv_pos _ _ Hx HT)) W) as [W1 W2].
      cbn [map]. change (ksum NK (?a :: ?b)) with (a +! ksum NK b).
      split.
      + eapply (kle_trans NK OF); [|apply (kle_add NK OF); [exact W1|exact IH1]].
        apply (kle_eq NK OF). field. exact HTn.
      + eapply (kle_trans NK OF); [apply (kle_add NK OF); [exact W2|exact IH2]|].
        apply (kle_eq NK OF). field. exact HTn.
  Qed.

  (* ---------- everything the two theorems need about one run ---------- *)

  Lemma poisson_safe_fin mass n lf : poisson_safe N fin nrm mass (S n) lf = true ->
    fin mass = true /\ fin lf = true.
  Proof.
    intros H. cbn [poisson_safe] in H. cbv zeta in H.
    apply andb_true_iff in H. destruct H as [H _].
    apply andb_true_iff in H. destruct H as [H _].
    apply andb_true_iff in H. destruct H as [H _].
    apply andb_true_iff in H. exact H.
  Qed.

  Lemma pois_core mass n lf :
    k0 <! v mass -> k0 <! v lf -> (Z.of_nat n < 2 ^ 53)%Z ->
    poisson_safe N fin nrm mass (S n) lf = true ->
    let lam := div N mass lf in
    let tl := pa_tl N mass lf n in
    let total := pa_total N mass lf n in
    let S := ksum NK (map v (one N :: tl)) in
    k0 <! v lam /\ length tl = n /\ fin total = true /\ k0 <! v total
    /\ (forall x, In x (one N :: tl) -> fin x = true /\ k0 <! v x /\ nrm (div N x total) = true)
    /\ k0 <! S /\ S *! kpow NK om n <=! v total /\ v total <=! S *! kpow NK op n
    /\ (forall j, (j < n)%nat -> exists t1 t2 t3 t4, fac t1 /\ fac t2 /\ fac t3 /\ fac t4 /\
          v (nth j tl (zero N))
          = v (nth j (one N :: tl) (zero N)) *! (v lam /! of_Z NK (Z.of_nat (Datatypes.S j))) *! ((t1 *! t2) /! (t3 *! t4))).
  Proof.
    intros Hm Hlf Hn Hs lam tl total S.
    cbn [poisson_safe] in Hs. cbv zeta in Hs. fold lam in Hs.
    apply andb_true_iff in Hs. destruct Hs as [Hs Hq].
    apply andb_true_iff in Hs. destruct Hs as [Hs Hps].
    apply andb_true_iff in Hs. destruct Hs as [Hs Hnl].
    apply andb_true_iff in Hs. destruct Hs as [Hfm Hfl].
    assert (Hq' : forallb (fun x => nrm (div N x total)) (one N :: tl) = true).
    { unfold total, tl, pa_total, pa_tl. fold lam.
      destruct (pois_terms N lam 1 n (one N) (one N) (one N)) as [tl0 total0]. exact Hq. }
    clear Hq.
    pose proof (sm_div _ _ _ _ _ _ SM mass lf Hfm Hfl (klt_neq NK OF _ _ Hlf) Hnl) as Wl. fold lam in Wl.
    assert (Hl : k0 <! v lam) by (apply (within_pos _ _ (kdiv_pos _ _ Hm Hlf) Wl)).
    pose proof (sm_nrm_fin _ _ _ _ _ _ SM _ Hnl) as Hfla.
    pose proof (sm_one _ _ _ _ _ _ SM) as E1. pose proof (sm_fin_one _ _ _ _ _ _ SM) as F1.
    assert (H1 : k0 <! v (one N)) by (rewrite E1; apply (k01 NK OF)).
    assert (Hxp : exists ta, fac ta /\ v (one N) = v (one N) /! v (one N) *! ta).
    { exists k1. split; [exact fac_1|]. rewrite E1. field. apply (k1_neq_0 NK OF). }
    assert (Hb : (1 + Z.of_nat n <= 2 ^ 53)%Z) by lia.
    destruct (pois_loop lam Hfla Hl n 1%Z (one N) (one N) (one N) (one N) (Z.le_refl 1) Hb F1 F1 H1 H1 Hxp Hps)
      as [L1 [L2 [L3 [L4 L5]]]].
    change (fst (pois_terms N lam 1 n (one N) (one N) (one N))) with tl in L1, L2, L3, L4, L5.
    change (snd (pois_terms N lam 1 n (one N) (one N) (one N))) with total in L1.
    assert (Hlen : length tl = n) by (apply pois_terms_length).
    destruct (sum_bound N NK v u fin nrm OF SM tl (one N) F1 (klt_le NK OF _ _ H1) L2 L3 L4) as [B1 [B2 B3]].
    rewrite <- L1 in B1, B2, B3. rewrite Hlen in B2, B3.
    change (v (one N) +! ksum NK (map v tl)) with S in B2, B3.
    assert (HS : k0 <! S).
    { apply (ksum_pos NK OF); [discriminate|]. intros x Hx. cbn [map] in Hx.
      destruct Hx as [<-|Hx]; [exact H1|]. apply in_map_iff in Hx. destruct Hx as [y [<- Hy]]. apply L4. exact Hy. }
    assert (HT : k0 <! v total).
    { apply (klt_le_trans NK OF _ (S *! kpow NK om n)); [|exact B2].
      apply (kmul_pos NK OF); [exact HS|apply (kpow_pos NK OF); exact Hom]. }
    split; [exact Hl|]. split; [exact Hlen|]. split; [exact B1|]. split; [exact HT|].
    split.
    { intros x Hx. rewrite forallb_forall in Hq'. split; [|split; [|apply Hq'; exact Hx]].
      - destruct Hx as [<-|Hx]; [exact F1|]. rewrite forallb_forall in L2. apply L2. exact Hx.
      - destruct Hx as [<-|Hx]; [exact H1|]. apply L4. exact Hx. }
    split; [exact HS|]. split; [exact B2|]. split; [exact B3|].
    intros j Hj. destruct (L5 j Hj) as [t1 [t2 [t3 [t4 [T1 [T2 [T3 [T4 E]]]]]]]].
    exists t1, t2, t3, t4. repeat (split; [assumption|]).
    rewrite E. replace (1 + Z.of_nat j)%Z with (Z.of_nat (Datatypes.S j)) by lia. reflexivity.
  Qed.

  Lemma map_inten_out mass n z lf :
    map (fun q => v (inten q)) (poisson_approximation_impl N mass (S n) z lf)
    = map (fun x => v (div N x (pa_total N mass lf n))) (one N :: pa_tl N mass lf n).
  Proof.
    rewrite pa_unfold, map_map. rewrite <- (pa_tl_length N mass lf n).
    apply map_combine_seq_snd. intros i x. reflexivity.
  Qed.

  (* ---------- the theorems ---------- *)

  Theorem poisson_sum_rounded_aux :
    forall (mass : F) (n : nat) (z : Z) (lf : F),
    flt NK (zero NK) (v mass) -> flt NK (zero NK) (v lf) -> (Z.of_nat n < 2 ^ 53)%Z ->
    poisson_safe N fin nrm mass (S n) lf = true ->
    let out := poisson_approximation_impl N mass (S n) z lf in
    let s := ksum NK (map (fun q => v (inten q)) out) in
    length out = S n
    /\ Forall (fun q => flt NK (zero NK) (v (inten q))) out
    /\ fle NK (div NK (sub NK (one NK) u) (kpow NK (add NK (one NK) u) n)) s
    /\ fle NK s (div NK (add NK (one NK) u) (kpow NK (sub NK (one NK) u) n)).
  Proof.
    intros mass n z lf Hm Hlf Hn Hs out s.
    destruct (pois_core mass n lf Hm Hlf Hn Hs) as [Hl [Hlen [HfT [HT [Hall [HS [B2 [B3 _]]]]]]]].
    cbv zeta in *.
    set (tl := pa_tl N mass lf n) in *. set (total := pa_total N mass lf n) in *.
    set (S0 := ksum NK (map v (one N :: tl))) in *.
    split; [apply pois_length|].
    split.
    { assert (E : Forall (fun y => k0 <! y) (map (fun q => v (inten q)) out)).
      { unfold out. rewrite map_inten_out. fold tl total. apply Forall_forall. intros y Hy.
        apply in_map_iff in Hy. destruct Hy as [x [<- Hx]]. destruct (Hall x Hx) as [Hfx [Hx0 Hnx]].
        apply (within_pos _ _ (kdiv_pos _ _ Hx0 HT) (quot_within total x HfT HT Hfx Hnx)). }
      rewrite Forall_forall in E. apply Forall_forall. intros q Hq. apply E.
      apply in_map_iff. exists q. split; [reflexivity|exact Hq]. }
    unfold s, out. rewrite map_inten_out. fold tl total.
    destruct (quot_sum total HfT HT (one N :: tl) Hall) as [Q1 Q2]. cbv zeta in Q1, Q2. fold S0 in Q1, Q2.
    set (A := kpow NK op n) in *. set (B := kpow NK om n) in *.
    assert (HA : k0 <! A) by (apply (kpow_pos NK OF); exact Hop).
    assert (HB : k0 <! B) by (apply (kpow_pos NK OF); exact Hom).
    pose proof (klt_neq NK OF _ _ HA) as HAn. pose proof (klt_neq NK OF _ _ HB) as HBn.
    pose proof (klt_neq NK OF _ _ HS) as HSn. pose proof (klt_neq NK OF _ _ HT) as HTn.
    assert (HSB : k0 <! S0 *! B) by (apply (kmul_pos NK OF); assumption).
    pose proof (kinv_anti NK OF _ _ HT B3) as I1.    (* 1/(S A) <= 1/T *)
    pose proof (kinv_anti NK OF _ _ HSB B2) as I2.   (* 1/T <= 1/(S B) *)
    pose proof (klt_le NK OF _ _ Hom) as Hom0. pose proof (klt_le NK OF _ _ Hop) as Hop0.
    pose proof (klt_le NK OF _ _ HS) as HS0.
    split.
    - eapply (kle_trans NK OF); [|exact Q1].
      apply (kle_trans NK OF _ (S0 *! (k1 /! (S0 *! A)) *! om)).
      { apply (kle_eq NK OF). field. split; assumption. }
      apply (kle_trans NK OF _ (S0 *! (k1 /! v total) *! om)).
      { apply (kle_mul_r NK OF); [|exact Hom0]. apply (kle_mul_l NK OF); [exact I1|exact HS0]. }
      apply (kle_eq NK OF). field. exact HTn.
    - eapply (kle_trans NK OF); [exact Q2|].
      apply (kle_trans NK OF _ (S0 *! (k1 /! v total) *! op)).
      { apply (kle_eq NK OF). field. exact HTn. }
      apply (kle_trans NK OF _ (S0 *! (k1 /! (S0 *! B)) *! op)).
      { apply (kle_mul_r NK OF); [|exact Hop0]. apply (kle_mul_l NK OF); [exact I2|exact HS0]. }
      apply (kle_eq NK OF). field. split; assumption.
  Qed.

  Theorem poisson_ratio_rounded_aux :
    forall (mass : F) (n : nat) (z : Z) (lf : F),
    flt NK (zero NK) (v mass) -> flt NK (zero NK) (v lf) -> (Z.of_nat n < 2 ^ 53)%Z ->
    poisson_safe N fin nrm mass (S n) lf = true ->
    let out := map (fun q => v (inten q)) (poisson_approximation_impl N mass (S n) z lf) in
    let L := v (div N mass lf) in
    let lo := div NK (kpow NK (sub NK (one NK) u) 3) (kpow NK (add NK (one NK) u) 3) in
    let hi := div NK (kpow NK (add NK (one NK) u) 3) (kpow NK (sub NK (one NK) u) 3) in
    forall i, (1 <= i <= n)%nat ->
      let r := div NK (nth i out (zero NK)) (nth (i - 1) out (zero NK)) in
      let want := div NK L (of_Z NK (Z.of_nat i)) in
      fle NK (mul NK want lo) r /\ fle NK r (mul NK want hi).
  Proof.
    intros mass n z lf Hm Hlf Hn Hs out L lo hi i Hi r want.
    destruct (pois_core mass n lf Hm Hlf Hn Hs) as [Hl [Hlen [HfT [HT [Hall [_ [_ [_ HR]]]]]]]].
    cbv zeta in *.
    set (tl := pa_tl N mass lf n) in *. set (total := pa_total N mass lf n) in *.
    destruct i as [|j]; [lia|]. assert (Hj : (j < n)%nat) by lia.
    destruct (HR j Hj) as [t1 [t2 [t3 [t4 [T1 [T2 [T3 [T4 E]]]]]]]].
    set (h := fun x => v (div N x total)).
    assert (Eout : out = map h (one N :: tl)) by (unfold out; rewrite map_inten_out; reflexivity).
    assert (Hlen' : length (one N :: tl) = S n) by (cbn [length]; rewrite Hlen; reflexivity).
    assert (Enth : forall m, (m < S n)%nat -> nth m out k0 = h (nth m (one N :: tl) (zero N))).
    { intros m Hm'. rewrite Eout. rewrite (nth_indep _ k0 (h (zero N))) by (rewrite map_length; lia).
      apply map_nth. }
    unfold r. replace (S j - 1)%nat with j by lia.
    rewrite (Enth (S j)) by lia. rewrite (Enth j) by lia.
    change (nth (S j) (one N :: tl) (zero N)) with (nth j tl (zero N)).
    set (x := nth j tl (zero N)) in *. set (xp := nth j (one N :: tl) (zero N)) in *.
    assert (Hx : In x (one N :: tl)) by (right; apply nth_In; lia).
    assert (Hxp : In xp (one N :: tl)) by (apply nth_In; lia).
    destruct (Hall x Hx) as [Hfx [Hx0 Hnx]]. destruct (Hall xp Hxp) as [Hfxp [Hxp0 Hnxp]].
    destruct (within_fac _ _ (quot_within total x HfT HT Hfx Hnx)) as [t5 [T5 E5]].
    destruct (within_fac _ _ (quot_within total xp HfT HT Hfxp Hnxp)) as [t6 [T6 E6]].
    unfold h. rewrite E5, E6, E.
    fold L. fold want.
    assert (HW : k0 <! want).
    { apply kdiv_pos; [exact Hl|]. apply kofZ_pos. lia. }
    clearbody want.
    pose proof (klt_neq NK OF _ _ HT) as HTn. pose proof (klt_neq NK OF _ _ Hxp0) as Hxpn.
    pose proof (fac_neq _ T3) as N3. pose proof (fac_neq _ T4) as N4. pose proof (fac_neq _ T6) as N6.
    replace (v xp *! want *! (t1 *! t2 /! (t3 *! t4)) /! v total *! t5 /! (v xp /! v total *! t6))
      with (want *! ((t1 *! t2 *! t5) /! (t3 *! t4 *! t6))) by (field; repeat split; assumption).
    destruct (fac_prod3 t1 t2 t5 T1 T2 T5) as [P1 P2]. destruct (fac_prod3 t3 t4 t6 T3 T4 T6) as [P3 P4].
    destruct (frac_bounds (kpow NK om 3) (kpow NK op 3) (t1 *! t2 *! t5) (t3 *! t4 *! t6)) as [R1 R2];
      try assumption.
    { apply (kpow_pos NK OF). exact Hom. }
    split; apply (kle_mul_l NK OF); try assumption; apply (klt_le NK OF); exact HW.
  Qed.
End PoissonRounded.

Section Statements.
  Context {F K : Type} (N : Num F) (NK : Num K) (v : F -> K) (u : K) (fin nrm : F -> bool).

  Theorem poisson_sum_rounded :
    OField NK -> StdModelExt N NK v u fin nrm ->
    forall (mass : F) (n : nat) (z : Z) (lf : F),
    flt NK (zero NK) (v mass) -> flt NK (zero NK) (v lf) -> (Z.of_nat n < 2 ^ 53)%Z ->
    poisson_safe N fin nrm mass (S n) lf = true ->
    let out := poisson_approximation_impl N mass (S n) z lf in
    let s := ksum NK (map (fun q => v (inten q)) out) in
    length out = S n
    /\ Forall (fun q => flt NK (zero NK) (v (inten q))) out
    /\ fle NK (div NK (sub NK (one NK) u) (kpow NK (add NK (one NK) u) n)) s
    /\ fle NK s (div NK (add NK (one NK) u) (kpow NK (sub NK (one NK) u) n)).
  Proof. intros OF SMX. exact (poisson_sum_rounded_aux N NK v u fin nrm OF SMX). Qed.

  Theorem poisson_ratio_rounded :
    OField NK -> StdModelExt N NK v u fin nrm ->
    forall (mass : F) (n : nat) (z : Z) (lf : F),
    flt NK (zero NK) (v mass) -> flt NK (zero NK) (v lf) -> (Z.of_nat n < 2 ^ 53)%Z ->
    poisson_safe N fin nrm mass (S n) lf = true ->
    let out := map (fun q => v (inten q)) (poisson_approximation_impl N mass (S n) z lf) in
    let L := v (div N mass lf) in
    let lo := div NK (kpow NK (sub NK (one NK) u) 3) (kpow NK (add NK (one NK) u) 3) in
    let hi := div NK (kpow NK (add NK (one NK) u) 3) (kpow NK (sub NK (one NK) u) 3) in
    forall i, (1 <= i <= n)%nat ->
      let r := div NK (nth i out (zero NK)) (nth (i - 1) out (zero NK)) in
      let want := div NK L (of_Z NK (Z.of_nat i)) in
      fle NK (mul NK want lo) r /\ fle NK r (mul NK want hi).
  Proof. intros OF SMX. exact (poisson_ratio_rounded_aux N NK v u fin nrm OF SMX). Qed.
End Statements.

(* ---------- the instance at binary64 ---------- *)
From Coq Require Import Reals Floats.
From CE Require Import NumFloat NumFloat64 Float64Std FloatStd.

Lemma poisson_sum_binary64_of :
  StdModelExt NumF NumRR v64 u64 fin64 nrm64 ->
  forall (mass : PrimFloat.float) (n : nat) (z : Z) (lf : PrimFloat.float),
  PrimFloat.ltb 0%float mass = true -> PrimFloat.ltb 0%float lf = true -> (Z.of_nat n < 2 ^ 53)%Z ->
  poisson_safe NumF fin64 nrm64 mass (S n) lf = true ->
  let out := poisson_approximation_impl NumF mass (S n) z lf in
  let s := fold_right Rplus 0%R (map (fun q => v64 (inten q)) out) in
  ((1 - u64) / (1 + u64) ^ n <= s /\ s <= (1 + u64) / (1 - u64) ^ n)%R.
Proof.
  intros SMX mass n z lf Hm Hl Hn Hs out s.
  destruct (poisson_safe_fin NumF fin64 nrm64 mass n lf Hs) as [Fm Fl].
  assert (Pm : flt NumRR (Num.zero NumRR) (v64 mass)) by (apply flt_RR; apply ltb64_pos; assumption).
  assert (Pl : flt NumRR (Num.zero NumRR) (v64 lf)) by (apply flt_RR; apply ltb64_pos; assumption).
  destruct (poisson_sum_rounded NumF NumRR v64 u64 fin64 nrm64 OField_RR SMX mass n z lf Pm Pl Hn Hs)
    as (_ & _ & Hlo & Hhi).
  apply fle_RR in Hlo. apply fle_RR in Hhi. rewrite !kpow_RR in Hlo, Hhi. rewrite ksum_RR in Hlo, Hhi.
  split; [exact Hlo | exact Hhi].
Qed.

Print Assumptions poisson_sum_rounded.
Print Assumptions poisson_ratio_rounded.
Print Assumptions poisson_sum_binary64_of.
