(* Source-level corollaries (SourceRender): property theorems restated about the generated definitions, through the tie lemmas. *)
From Coq Require Import List ZArith NArith Bool Arith String Lia Permutation Sorted.
From CE Require Import Num Str TableTypes TableModel Comp ESpec CompSpec Formula FormulaSpec Render CBind.
From CE Require Import ImpS ImpE ImpR ImpT.
From CE Require Import FormulaGen ESpecGen RenderGen.
From CE Require Import FormulaTie ESpecTie RenderTie.
From CE Require Import FormulaSafe FormulaComplete ESpecProofs RenderProofs.
From CE Require Import Table.
Import ListNotations.
Local Open Scope nat_scope.

(* ====================================================================================================== *)
(* C07: the translated printer (gen/RenderGen.v), and printer-then-parser through both translations         *)
(* ====================================================================================================== *)
Section RenderSource.
  Variable tbl : ptable.
  Variable ua : char -> bool.

  (* ---- C07_canonical ---- *)
  Lemma src_render_canonical : forall (C1 C2 : Type) (into1 : C1 -> cref) (into2 : C2 -> cref) c1 c2,
    same_map (cref_ents (into1 c1)) (cref_ents (into2 c2)) ->
    nodup_keys (cref_ents (into1 c1)) = true -> nodup_keys (cref_ents (into2 c2)) = true ->
    syms_in_table tbl (cref_ents (into1 c1)) = true ->
    to_formula_gen tbl ua into1 c1 = to_formula_gen tbl ua into2 c2.
  Proof.
    intros C1 C2 into1 into2 c1 c2 Hs Ha Hb Ht.
    rewrite (to_formula_tie tbl ua C1 into1 c1 Ha), (to_formula_tie tbl ua C2 into2 c2 Hb).
    apply render_canonical; assumption.
  Qed.

  (* the three Display impls on equal compositions, whatever the representation *)
  Lemma src_display_canonical : forall a b f,
    same_map a b -> nodup_keys a = true -> nodup_keys b = true -> syms_in_table tbl a = true ->
    display_vec_gen tbl ua a f = display_map_gen tbl ua b f
    /\ display_vec_gen tbl ua a f = display_vec_gen tbl ua b f
    /\ display_map_gen tbl ua a f = display_map_gen tbl ua b f
    /\ display_comp_gen tbl ua (CVec a) f = display_comp_gen tbl ua (CMap b) f.
  Proof.
    intros a b f Hs Ha Hb Ht.
    rewrite !display_vec_tie, !display_map_tie, !display_comp_tie by assumption.
    cbn [ccomp_ents ccomp_is_map].
    repeat split; f_equal; apply render_canonical; assumption.
  Qed.

  (* ---- C07_order ---- *)
  Lemma src_render_order : forall (C : Type) (into : C -> cref) c,
    let l := cref_ents (into c) in let f := cref_is_map (into c) in
    nodup_keys l = true ->
    to_formula_gen tbl ua into c
    = ((if (idx_str tbl ua f C_ l =? 0)%Z then [] else C_ ++ show_Z (idx_str tbl ua f C_ l))
       ++ (if (idx_str tbl ua f H_ l =? 0)%Z then [] else H_ ++ show_Z (idx_str tbl ua f H_ l))
       ++ List.concat (map show_item (sort_ents l)))%list
    /\ Permutation (sort_ents l) l
    /\ StronglySorted (fun x y => key_leb (fst x) (fst y) = true) (sort_ents l).
  Proof. intros C into c l f Hn. rewrite (to_formula_tie tbl ua C into c Hn). apply render_order. Qed.

  (* on EVERY entry list (also with a key twice, which no API call produces): the same, with the stable sort *)
  Lemma src_render_order_any : forall (C : Type) (into : C -> cref) c,
    let l := cref_ents (into c) in let f := cref_is_map (into c) in
    to_formula_gen tbl ua into c
    = ((if (idx_str tbl ua f C_ l =? 0)%Z then [] else C_ ++ show_Z (idx_str tbl ua f C_ l))
       ++ (if (idx_str tbl ua f H_ l =? 0)%Z then [] else H_ ++ show_Z (idx_str tbl ua f H_ l))
       ++ List.concat (map show_item (sort_ents (rev l))))%list
    /\ Permutation (sort_ents (rev l)) l
    /\ StronglySorted (fun x y => key_leb (fst x) (fst y) = true) (sort_ents (rev l)).
  Proof.
    intros C into c l f. rewrite to_formula_tie_any.
    destruct (render_order tbl ua (rev l) f) as [_ [Hp Hs]].
    split; [reflexivity|]. split; [|exact Hs].
    eapply Permutation_trans; [exact Hp|]. apply Permutation_sym, Permutation_rev.
  Qed.

  (* ---- C07_render_parse: the generated printer, then the generated parser ---- *)
  (* The parser runs over the same table ([with_table uni tbl]) with the fuel of the model's entry point: one more
     than the length of the text for the recursion parse_with_table, the length of the text for parse_formula /
     FormulaParser::parse.  The side conditions line up: [nodup_keys] is a hypothesis of the model theorem already. *)
  Lemma src_render_parse : table_syms_ok tbl = true -> forall (uni : oracles) (C : Type) (into : C -> cref) c,
    let l := cref_ents (into c) in
    let text := to_formula_gen tbl ua into c in
    l <> [] -> nodup_keys l = true ->
    (forall k n, In (k, n) l ->
       (0 < n <= 2147483647)%Z /\ sym_shape (ImpS.uni_numeric uni) (fst k) = true /\ ESpec.has_elem tbl (fst k) = true
       /\ (snd k = 0%N \/ ESpec.has_iso tbl (fst k) (snd k) = true) /\ (snd k < 65536)%N) ->
    exists c', parse_with_table_gen (with_table uni tbl) (S (List.length text)) text = FOk c'
               /\ FormulaGen.parse_formula_gen (with_table uni tbl) (List.length text) text = FOk c'
               /\ FormulaGen.parse_gen (with_table uni tbl) (List.length text) text = FOk c'
               /\ same_map c' l.
  Proof.
    intros Ht uni C into c l text Hne Hn Hall. unfold text.
    rewrite (to_formula_tie tbl ua C into c Hn).
    rewrite parse_with_table_parse_formula, parse_formula_parse_formula, FormulaTie.parse_tie.
    fold (parse_formula (ImpS.uni_numeric (with_table uni tbl)) (ImpS.has_elem (with_table uni tbl))
            (ImpS.has_iso (with_table uni tbl)) (to_formula tbl ua (cref_is_map (into c)) (cref_ents (into c)))).
    unfold with_table. cbn [ImpS.uni_numeric ImpS.has_elem ImpS.has_iso].
    destruct (render_parse_nonempty tbl ua (ImpS.uni_numeric uni) Ht l (cref_is_map (into c)) Hne Hn Hall) as [c' [H1 H2]].
    exists c'. split; [exact H1|]. split; [exact H1|]. split; [exact H1|exact H2].
  Qed.
End RenderSource.

