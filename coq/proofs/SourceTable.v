(* Source-level corollaries (SourceTable): property theorems restated about the generated definitions, through the tie lemmas. *)
From Coq Require Import List ZArith NArith Bool Arith String Lia Permutation Sorted.
From CE Require Import Num Str TableTypes TableModel Comp ESpec CompSpec Formula FormulaSpec Render CBind.
From CE Require Import ImpS ImpE ImpT.
From CE Require Import FormulaGen ESpecGen ElementGen.
From CE Require Import FormulaTie ESpecTie ElementTie.
From CE Require Import FormulaSafe ESpecProofs.
From CE Require Import Table Nist KnownC12.
Import ListNotations.
Local Open Scope nat_scope.

(* ====================================================================================================== *)
(* C12: the table built by the translated PeriodicTable::new / add and Element::index_isotopes              *)
(*      (gen/ElementGen.v) from the regenerated literal Table.table_src                                      *)
(* ====================================================================================================== *)

(* the model-level facts (those of Properties/C12.v, by evaluation over the finite table) *)
Lemma model_table_consistent :
  keys_unique (build_table table_src) = true /\
  forall k e, In (k, e) (build_table table_src) -> known_c12 k = false -> elem_ok k e = true.
Proof.
  split; [vm_compute; reflexivity|].
  assert (H : forallb (fun p => known_c12 (fst p) || elem_ok (fst p) (snd p)) (build_table table_src) = true)
    by (vm_compute; reflexivity).
  intros k e Hin Hk. rewrite forallb_forall in H. specialize (H _ Hin). cbn [fst snd] in H.
  rewrite Hk in H. exact H.
Qed.

Lemma model_matches_nist :
  nist_safe nist_src = true /\ table_eqb (build_table (map gen_elem nist_src)) (build_table table_src) = true.
Proof. split; vm_compute; reflexivity. Qed.

Section TableSource.
  Context {F : Type} (NF : Num F).
  Variable io : list (N * iso) -> list (N * iso).      (* the iteration order of HashMap<u16, Isotope> *)
  Variable uni : oracles.
  Variable fuel : nat.
  Variable G : ptable.
  Variable pop : ptable -> ptable.

  (* one statement block of table.rs: the literal with the early inserts, the GENERATED index_isotopes where the
     source calls it, then the late inserts *)
  Definition src_build_elem (s : elem_src) : elem :=
    let e0 := mkE (s_sym s) (build_isos (s_isos s)) (s_mai s) (s_mam s) (s_number s) (s_min0 s) (s_max0 s) in
    let e1 := if s_indexed s then index_isotopes_gen NF io uni fuel G pop e0 else e0 in
    set_isos e1 (fold_left (fun acc i => assoc_insert (i_key i) (mkI (i_mass i) (i_ab i) (i_neutrons i) (i_shift i)) acc)
                           (s_late s) (isos e1)).

  (* populate_periodic_table: the GENERATED add, once per block *)
  Definition src_populate (src : list elem_src) (t : ptable) : ptable :=
    fold_left (fun t s => pt_add_gen NF io uni fuel G pop t (src_build_elem s)) src t.

  (* the GENERATED new, populated *)
  Definition src_build_table (src : list elem_src) : ptable := src_populate src (pt_new_gen NF io uni fuel G pop).

  Lemma src_build_elem_model : order_ok io -> forall s, src_build_elem s = build_elem s.
  Proof. intros Hio s. symmetry. exact (build_elem_index_step NF io uni fuel G pop s Hio). Qed.

  Lemma src_build_table_model : order_ok io -> forall src, src_build_table src = build_table src.
  Proof.
    intros Hio src. rewrite (build_table_new_add NF io uni fuel G pop src). unfold src_build_table, src_populate.
    generalize (pt_new_gen NF io uni fuel G pop).
    induction src as [|s src IH]; intros t; cbn [fold_left]; [reflexivity|].
    rewrite (src_build_elem_model Hio s). apply IH.
  Qed.

  (* the helper's table (ChemicalElements::make_periodic_table) with that populate function is this table *)
  Lemma src_helper_table : forall src,
    ce_make_periodic_table_gen NF io uni fuel G (src_populate src) = src_build_table src.
  Proof. reflexivity. Qed.

  (* ---- C12_table_consistent ---- *)
  Lemma src_table_consistent : order_ok io ->
    keys_unique (src_build_table table_src) = true /\
    forall k e, In (k, e) (src_build_table table_src) -> known_c12 k = false -> elem_ok k e = true.
  Proof. intros Hio. rewrite (src_build_table_model Hio). exact model_table_consistent. Qed.

  (* ---- C12_matches_nist ---- *)
  Lemma src_matches_nist : order_ok io ->
    nist_safe nist_src = true
    /\ table_eqb (build_table (map gen_elem nist_src)) (src_build_table table_src) = true.
  Proof. intros Hio. rewrite (src_build_table_model Hio). exact model_matches_nist. Qed.

  (* the reference side through the generated functions too *)
  Lemma src_matches_nist_both : order_ok io ->
    table_eqb (src_build_table (map gen_elem nist_src)) (src_build_table table_src) = true.
  Proof. intros Hio. rewrite !(src_build_table_model Hio). exact (proj2 model_matches_nist). Qed.

End TableSource.

(* the table does not depend on the iteration order at all *)
Lemma src_build_table_order_independent : forall {F} (NF : Num F) io io' uni fuel G pop, order_ok io -> order_ok io' ->
  forall src, src_build_table NF io uni fuel G pop src = src_build_table NF io' uni fuel G pop src.
Proof. intros F NF io io' uni fuel G pop Hio Hio' src. rewrite !src_build_table_model by assumption. reflexivity. Qed.

(* closed statements: insertion order is one possible iteration order *)
Lemma src_table_consistent_id : forall {F} (NF : Num F) uni fuel G pop,
  let T := src_build_table NF (fun l => l) uni fuel G pop table_src in
  keys_unique T = true /\ forall k e, In (k, e) T -> known_c12 k = false -> elem_ok k e = true.
Proof. intros F NF uni fuel G pop. apply src_table_consistent, order_ok_id. Qed.

Lemma src_matches_nist_id : forall {F} (NF : Num F) uni fuel G pop,
  nist_safe nist_src = true
  /\ table_eqb (build_table (map gen_elem nist_src)) (src_build_table NF (fun l => l) uni fuel G pop table_src) = true.
Proof. intros F NF uni fuel G pop. apply src_matches_nist, order_ok_id. Qed.

