(* Source-level corollaries (SourceBrainReq): property theorems restated about the generated definitions, through the tie lemmas. *)
From Coq Require Import String ZArith NArith Arith List Bool Permutation Sorted Lia.
From CE Require Import Num OField Mz Peak PeakSpec PeakProofs Poisson PoissonSpec PoissonProofs.
From CE Require Import SrcGen SrcTie PoissonGen PoissonTie SourcePoisson.
From CE Require Import Brain BrainSpec ShapeProofs ChargeProofs ImpB BrainGen BrainTie.
Import ListNotations.
Local Open Scope nat_scope.


Section ChargeSrc.
  Context {F : Type} (N : Num F).

  Lemma neutral_inverts_src : OField N -> forall m z carrier,
    z <> 0%Z -> neutral_mass_gen N (mass_charge_ratio_gen N m z carrier) z carrier = m.
  Proof.
    intros OF m z carrier Hz. rewrite <- mass_charge_ratio_is_source, <- neutral_mass_is_source.
    exact (neutral_inverts N OF m z carrier Hz).
  Qed.

  Lemma charged_formula_src : OField N -> forall m z carrier,
    z <> 0%Z -> charged_src N m z carrier = div N (add N m (mul N (of_Z N z) carrier)) (abs N (of_Z N z)).
  Proof. intros OF m z carrier Hz. rewrite charged_src_model. exact (charged_formula N OF m z carrier Hz). Qed.

  Lemma charged_zero_src : forall m carrier, charged_src N m 0 carrier = m.
  Proof. intros m carrier. rewrite charged_src_model. exact (charged_zero N m carrier). Qed.

  Lemma poisson_charge_src : forall mass n z lf,
    poisson_approximation_impl_gen N mass n z lf
    = map (fun p => mkPeak (charged_src N (mz p) z (PROTON_gen N)) (inten p)) (poisson_approximation_impl_gen N mass n 0 lf).
  Proof.
    intros mass n z lf. rewrite !poisson_approximation_impl_tie, <- proton_is_source.
    transitivity (map (fun p => mkPeak (charged N (mz p) z (PROTON N)) (inten p)) (poisson_approximation_impl N mass n 0 lf));
      [exact (poisson_charge N mass n z lf)|].
    apply map_ext. intros p. apply f_equal2; [symmetry; apply charged_src_model | reflexivity].
  Qed.

  (* the coarse generator (IsotopicDistribution::isotopic_variants): whenever the ties' side conditions hold, the
     pattern at a non-zero charge is the neutral pattern with every m/z converted - panics ([None]) included *)
  Lemma brain_charge_src : OField N -> forall (d : idist F) z carrier,
    keyed (ic_constants (d_constants d)) -> (0 <= d_order d)%Z -> (0 <= d_max_variants d)%Z -> z <> 0%Z ->
    dist_isotopic_variants_gen N d z carrier
    = option_map (map (fun p => mkPeak (charged_src N (mz p) z carrier) (inten p))) (dist_isotopic_variants_gen N d 0 carrier).
  Proof.
    intros OF d z carrier Hk Ho Hm Hz. rewrite !dist_isotopic_variants_tie by assumption. cbv zeta.
    destruct (prob_vector N _ _ _ _ _) as [pv|]; [|reflexivity].
    destruct (center_vector N _ _ _ _ _ _) as [cv|]; [|reflexivity].
    cbn [option_map]. rewrite (brain_charge N OF pv cv _ z carrier Hz), !map_map. apply f_equal, map_ext.
    intros mp. unfold to_peak. cbn [mz inten fst snd]. apply f_equal2; [symmetry; apply charged_src_model | reflexivity].
  Qed.
End ChargeSrc.

(* ======================================================================================================== *)
(* C09: request resolution of isotopic_pattern/baffling.rs                                                   *)
(* ======================================================================================================== *)
Section RequestSrc.
  Context {F : Type} (N : Num F).

  (* the estimate the source asks poisson.rs for, as an i32 *)
  Notation estimate mass t := (Z.of_nat (poisson_approximate_n_peaks_of_gen N mass t)).

  (* the tie of num_peaks holds for i32 requests: the range of the FixedCount payload is its side condition *)
  Lemma fixed_count_src : forall n mass c, (1 <= n <= 2147483647)%Z ->
    num_peaks_gen N (spec_of_i32 n) mass c = (n - 1)%Z.
  Proof.
    intros n mass c Hn. rewrite num_peaks_tie; [exact (fixed_count N n mass ltac:(lia))|].
    unfold spec_of_i32. destruct (n =? 0)%Z; [exact I | lia].
  Qed.

  Lemma nonpositive_count_src : forall n mass c, (-2147483648 <= n < 0)%Z ->
    num_peaks_gen N (spec_of_i32 n) mass c = 0%Z.
  Proof.
    intros n mass c Hn. rewrite num_peaks_tie; [exact (nonpositive_count N n mass ltac:(lia))|].
    unfold spec_of_i32. destruct (n =? 0)%Z; [exact I | lia].
  Qed.

  Lemma guess_npeaks_src : forall mass c mx,
    guess_npeaks_gen N mass c mx = Z.min (estimate mass (of_dec N 9999 4)) mx.
  Proof. intros mass c mx. rewrite guess_npeaks_tie, poisson_approximate_n_peaks_of_tie. reflexivity. Qed.

  Lemma default_count_src : forall mass c,
    num_peaks_gen N (spec_of_i32 0) mass c = Z.min (estimate mass (of_dec N 9999 4)) 300
    /\ (1 <= num_peaks_gen N (spec_of_i32 0) mass c <= 255)%Z.
  Proof.
    intros mass c. rewrite num_peaks_tie by exact I. rewrite poisson_approximate_n_peaks_of_tie.
    exact (default_count N mass).
  Qed.

  Lemma fraction_count_src : forall f mass c,
    num_peaks_gen N (PercentSignal f) mass c = num_peaks_gen N (FixedCount (estimate mass f)) mass c.
  Proof.
    intros f mass c. rewrite poisson_approximate_n_peaks_of_tie. rewrite !num_peaks_tie.
    - exact (fraction_count N f mass).
    - pose proof (poisson_n_range N mass f). lia.
    - exact I.
  Qed.

  (* update_order: -1 asks for the variant bound, any other request is capped by it; the constants' order follows *)
  Lemma clamp_order_src : forall (d : idist F) req, (0 <= req)%Z -> (0 <= d_max_variants d)%Z ->
    let d' := update_order_gen N d req in
    d_order d' = Z.min req (d_max_variants d) /\ (0 <= d_order d' <= d_max_variants d)%Z
    /\ ic_order (d_constants d') = d_order d' /\ d_max_variants d' = d_max_variants d.
  Proof.
    intros d req Hr Hm. rewrite update_order_tie. cbv zeta. cbn [d_order d_constants ic_order d_max_variants].
    destruct (clamp_order req (d_max_variants d) Hr Hm) as [E Hb]. rewrite E in *. repeat split; lia.
  Qed.

  Lemma max_order_src : forall (d : idist F),
    d_order (update_order_gen N d (-1)) = d_max_variants d.
  Proof. intros d. rewrite update_order_tie. reflexivity. Qed.
End RequestSrc.
