(* Floating-point level corollaries: every operation that ends in `normalize` of a sub-list inherits normalize's bound
   in rounded arithmetic (truncate_after, ignore_below, clone_drop_last, slice_normalized, and the fine-structure
   convolution's final filter). *)
From Coq Require Import ZArith List Bool Arith Lia.
From CE Require Import Num OField Mz Peak PeakSpec Conv Rounded RoundedProofs PeakProofs.
Import ListNotations.

Section RenormRounded.
  Context {F K : Type} (N : Num F) (NK : Num K) (v : F -> K) (u : K) (fin nrm : F -> bool).
  Hypothesis OF : OField NK.
  Hypothesis SM : StdModel N NK v u fin nrm.

  (* the two-sided bound on the exact sum of the intensities of q, for a kept list of n peaks *)
  Definition sum_within (q : tip (F:=F)) (n : nat) : Prop :=
    fle NK (div NK (kpow NK (sub NK (one NK) u) 2) (kpow NK (add NK (one NK) u) n)) (exact_total NK v q)
    /\ fle NK (exact_total NK v q) (div NK (kpow NK (add NK (one NK) u) 2) (kpow NK (sub NK (one NK) u) n)).

  Definition good (p : tip (F:=F)) : Prop := peaks p <> [] /\ positive NK v p /\ normalize_safe N fin nrm p = true.

  Lemma normalize_sum_within : forall p, good p -> sum_within (normalize N p) (length (peaks p)).
  Proof.
    intros p (Hne & Hpos & Hsafe).
    destruct (normalize_rounded N NK v u fin nrm OF SM p Hne Hpos Hsafe) as (_ & _ & Hlo & Hhi & _).
    split; assumption.
  Qed.

  Lemma ignore_below_rounded : forall (p : tip (F:=F)) t,
    let kept := mkTip (filter (fun q => leb N t (inten q)) (peaks p)) (origin p) in
    good kept -> sum_within (ignore_below N p t) (length (peaks kept)).
  Proof.
    intros p t kept Hg. destruct (ignore_below_spec N p t) as [-> _]. apply normalize_sum_within. exact Hg.
  Qed.

  Lemma truncate_after_rounded : forall (p : tip (F:=F)) t k,
    k < length (peaks p) -> reaches N p t k = true -> (forall j, j < k -> reaches N p t j = false) ->
    let kept := mkTip (firstn (S k) (peaks p)) (origin p) in
    good kept -> sum_within (truncate_after N p t) (length (peaks kept)).
  Proof.
    intros p t k Hk Hr Hm kept Hg. destruct (truncate_after_spec N p t) as [H _].
    rewrite (H k Hk Hr Hm). apply normalize_sum_within. exact Hg.
  Qed.

  Lemma truncate_after_all_rounded : forall (p : tip (F:=F)) t,
    (forall j, j < length (peaks p) -> reaches N p t j = false) ->
    let kept := mkTip (peaks p) (origin p) in
    good kept -> sum_within (truncate_after N p t) (length (peaks kept)).
  Proof.
    intros p t Hm kept Hg. destruct (truncate_after_spec N p t) as [_ H].
    rewrite (H Hm). apply normalize_sum_within. exact Hg.
  Qed.

  Lemma drop_last_rounded : forall (p : tip (F:=F)),
    let kept := mkTip (removelast (peaks p)) (origin p) in
    good kept -> sum_within (clone_drop_last N p) (length (peaks kept)).
  Proof. intros p kept Hg. rewrite (drop_last_spec N p). apply normalize_sum_within. exact Hg. Qed.

  Lemma slice_rounded : forall (p : tip (F:=F)) a b,
    a <= b <= length (peaks p) ->
    let kept := mkTip (firstn (b - a) (skipn a (peaks p))) (origin p) in
    good kept -> exists q, slice_normalized N p a b = Ok q /\ sum_within q (length (peaks kept)).
  Proof.
    intros p a b Hab kept Hg. destruct (slice_spec N p a b) as [H _].
    eexists. split; [exact (H Hab)|]. apply normalize_sum_within. exact Hg.
  Qed.

  (* the fine-structure convolution ends with normalize().ignore_below(thr): whatever came before, the returned
     intensities are a renormalised sub-list *)
  Lemma convolution_rounded : forall (c : list (dist (F:=F) * Z)) charge carrier thr,
    let sorted := sort_mass N (conv_all N c thr) in
    let pk := map (fun mi => mkPeak (charged N (fst mi) charge carrier) (snd mi)) sorted in
    let origin0 := match pk with p :: _ => mz p | [] => zero N end in
    let first := normalize N (mkTip pk origin0) in
    let kept := mkTip (filter (fun q => leb N thr (inten q)) (peaks first)) (origin first) in
    good kept ->
    sum_within (mkTip (isotopic_convolution N c charge carrier thr) (origin first)) (length (peaks kept)).
  Proof.
    intros c charge carrier thr sorted pk origin0 first kept Hg.
    unfold isotopic_convolution. fold sorted. fold pk. fold origin0. fold first.
    destruct (ignore_below_spec N first thr) as [Heq _].
    pose proof (normalize_sum_within kept Hg) as Hs.
    unfold sum_within, exact_total in *. rewrite Heq. cbn [peaks]. exact Hs.
  Qed.
End RenormRounded.

Print Assumptions convolution_rounded.
