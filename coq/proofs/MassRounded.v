(* Proofs for C02f: calc_mass is a chain of fused multiply-adds over the resolved (mass, count) pairs, and in any numeric
   interpretation satisfying the standard model of rounding with fma the chain differs from the exact sum by at most
   ((1+u)^n - 1) times the sum of the magnitudes. *)
From Coq Require Import ZArith List Bool Arith Lia String Field Ring Field_theory Ring_theory.
From CE Require Import Num OField Str Comp Rounded RoundedExt RoundedFma TableModel RoundedProofs MzRounded.
Import ListNotations.

(* ------------------------------------------------------------------------------------------ *)
(* calc_mass = fma chain over the resolved entries, for every [Num]                            *)
Section Chain.
  Context {F : Type} (N : Num F).

  Lemma calc_mass_from_chain : forall tbl l tot,
    calc_mass_from N tbl l tot
    = match resolve N tbl l with Some mc => Some (fma_chain N mc tot) | None => None end.
  Proof.
    intros tbl. induction l as [|[k c] r IH]; intros tot.
    - reflexivity.
    - cbn [calc_mass_from resolve]. destruct (key_mass N tbl k) as [m|].
      + rewrite IH. destruct (resolve N tbl r) as [t|]; reflexivity.
      + reflexivity.
  Qed.

  Lemma calc_mass_chain : forall tbl l,
    calc_mass N tbl l = match resolve N tbl l with Some mc => Some (fma_chain N mc (zero N)) | None => None end.
  Proof. intros tbl l. unfold calc_mass. apply calc_mass_from_chain. Qed.
End Chain.

(* ------------------------------------------------------------------------------------------ *)
Section MassRoundedAux.
  Context {F K : Type} (N : Num F) (NK : Num K) (v : F -> K) (u : K) (fin nrm : F -> bool).
  Hypothesis OF : OField NK.
  Hypothesis SF : StdModelFma N NK v u fin nrm.
  Add Field FkMass : (of_field NK OF).

  Local Notation k0 := (zero NK).
  Local Notation k1 := (one NK).
  Local Infix "+!" := (add NK) (at level 50, left associativity).
  Local Infix "-!" := (sub NK) (at level 50, left associativity).
  Local Infix "*!" := (mul NK) (at level 40, left associativity).
  Local Infix "<=!" := (fle NK) (at level 70).
  Local Notation "|! x |" := (abs NK x) (at level 0, x at level 99).
  Local Notation op := (k1 +! u).

  Let SX : StdModelExt N NK v u fin nrm := sf_ext _ _ _ _ _ _ SF.
  Let SM : StdModel N NK v u fin nrm := sx_base _ _ _ _ _ _ SX.

  Lemma kpow_op_ge_1 : forall n, k1 <=! kpow NK op n.
  Proof.
    pose proof (u_nonneg N NK v u fin nrm SM) as Hu.
    induction n as [|n IH]; cbn [kpow].
    - apply (kle_refl NK OF).
    - apply (kle_trans NK OF _ (k1 *! kpow NK op n)).
      + replace (k1 *! kpow NK op n) with (kpow NK op n) by ring. exact IH.
      + apply (kle_mul_r NK OF); [apply (op_ge_1 NK OF u Hu)|].
        apply (kle_trans NK OF _ k1); [apply (klt_le NK OF); apply (k01 NK OF)|exact IH].
  Qed.

  Lemma exact_abs_mass_nonneg : forall l, k0 <=! exact_abs_mass NK v l.
  Proof.
    induction l as [|mc r IH]; unfold exact_abs_mass in *; cbn [map ksum fold_right].
    - apply (kle_refl NK OF).
    - apply (kadd_nonneg NK OF); [apply (kabs_nonneg NK OF)|exact IH].
  Qed.

  (* one fused multiply-add step: a1 = (t + a0)(1 + d) *)
  Lemma fma_step t a0 a1 d : opp NK u <=! d -> d <=! u -> a1 = (t +! a0) *! (k1 +! d) ->
    |! a1 | <=! op *! (|! t | +! |! a0 |) /\ |! a1 -! (a0 +! t) | <=! u *! (|! t | +! |! a0 |).
  Proof.
    intros L U ->. split.
    - rewrite (kabs_mul NK OF). replace (op *! (|! t | +! |! a0 |)) with ((|! t | +! |! a0 |) *! op) by ring.
      apply (kle_mul NK OF); [apply (kabs_nonneg NK OF)|apply (kabs_nonneg NK OF)|apply (kabs_triangle NK OF)|].
      apply (kabs_1d NK OF u); assumption.
    - replace ((t +! a0) *! (k1 +! d) -! (a0 +! t)) with ((t +! a0) *! d) by ring.
      rewrite (kabs_mul NK OF). replace (u *! (|! t | +! |! a0 |)) with ((|! t | +! |! a0 |) *! u) by ring.
      apply (kle_mul NK OF); [apply (kabs_nonneg NK OF)|apply (kabs_nonneg NK OF)|apply (kabs_triangle NK OF)|].
      apply (kabs_le NK OF); assumption.
  Qed.

  (* the chain started from an arbitrary finite accumulator *)
  Theorem mass_rounded_from : forall (l : list (F * Z)) (a0 : F), fin a0 = true ->
    fma_chain_safe N fin nrm l a0 = true ->
    |! v (fma_chain N l a0) -! (v a0 +! exact_mass NK v l) |
      <=! (kpow NK op (List.length l) -! k1) *! (|! v a0 | +! exact_abs_mass NK v l).
  Proof.
    pose proof (u_nonneg N NK v u fin nrm SM) as Hu.
    induction l as [|[m c] r IH]; intros a0 Fa Hs.
    - unfold exact_mass, exact_abs_mass. cbn [fma_chain map ksum fold_right List.length kpow].
      replace (v a0 -! (v a0 +! k0)) with k0 by ring.
      rewrite (kabs_pos_eq NK OF k0) by apply (kle_refl NK OF).
      apply (kle_eq NK OF). ring.
    - cbn [fma_chain_safe] in Hs.
      apply andb_true_iff in Hs. destruct Hs as [Hs Hr].
      apply andb_true_iff in Hs. destruct Hs as [Hs Hn].
      apply andb_true_iff in Hs. destruct Hs as [Fm Hc].
      apply Z.leb_le in Hc.
      destruct (sx_of_Z _ _ _ _ _ _ SX c Hc) as [Vc Fc].
      destruct (sf_fma _ _ _ _ _ _ SF m (of_Z N c) a0 Fm Fc Fa Hn) as (d & L & U & E).
      rewrite Vc in E.
      pose proof (sm_nrm_fin _ _ _ _ _ _ SM _ Hn) as Fa1.
      specialize (IH _ Fa1 Hr).
      cbn [fma_chain List.length].
      set (a1 := fma N m (of_Z N c) a0) in *.
      unfold exact_mass, exact_abs_mass in *. cbn [map ksum fold_right fst snd].
      fold (ksum NK (map (fun mc => v (fst mc) *! of_Z NK (snd mc)) r)) in *.
      fold (ksum NK (map (fun mc => |! v (fst mc) *! of_Z NK (snd mc) |) r)) in *.
      pose proof (exact_abs_mass_nonneg r) as HA. unfold exact_abs_mass in HA.
      set (Er := ksum NK (map (fun mc => v (fst mc) *! of_Z NK (snd mc)) r)) in *.
      set (Ar := ksum NK (map (fun mc => |! v (fst mc) *! of_Z NK (snd mc) |) r)) in *.
      set (t := v m *! of_Z NK c) in *.
      set (X := v (fma_chain N r a1)) in *.
      set (P := kpow NK op (List.length r)) in *.
      destruct (fma_step t (v a0) (v a1) d L U E) as [B1 B2].
      set (S := |! t | +! |! v a0 |) in *.
      assert (HP : k0 <=! P -! k1) by (apply (ksub_of_le NK OF); apply kpow_op_ge_1).
      assert (HP0 : k0 <=! P).
      { apply (kle_trans NK OF _ k1); [apply (klt_le NK OF); apply (k01 NK OF)|apply kpow_op_ge_1]. }
      replace (X -! (v a0 +! (t +! Er))) with ((X -! (v a1 +! Er)) +! (v a1 -! (v a0 +! t))) by ring.
      eapply (kle_trans NK OF); [apply (kabs_triangle NK OF)|].
      apply (kle_trans NK OF _ ((P -! k1) *! (op *! S +! Ar) +! u *! S)).
      + apply (kle_add NK OF); [|exact B2].
        eapply (kle_trans NK OF); [exact IH|].
        apply (kle_mul_l NK OF); [|exact HP].
        apply (kle_add NK OF); [exact B1|apply (kle_refl NK OF)].
      + cbn [kpow]. fold P. apply (kle_of_sub NK OF).
        replace ((op *! P -! k1) *! (|! v a0 | +! (|! t | +! Ar)) -! ((P -! k1) *! (op *! S +! Ar) +! u *! S))
          with (u *! (P *! Ar)) by (unfold S; ring).
        apply (kmul_nonneg NK OF); [exact Hu|]. apply (kmul_nonneg NK OF); assumption.
  Qed.

  Theorem mass_rounded_aux : forall (l : list (F * Z)), fma_chain_safe N fin nrm l (zero N) = true ->
    |! v (fma_chain N l (zero N)) -! exact_mass NK v l |
      <=! (kpow NK op (List.length l) -! k1) *! exact_abs_mass NK v l.
  Proof.
    intros l Hs.
    pose proof (mass_rounded_from l (zero N) (sf_fin_zero _ _ _ _ _ _ SF) Hs) as H.
    rewrite (sm_zero _ _ _ _ _ _ SM) in H.
    rewrite (kabs_pos_eq NK OF k0) in H by apply (kle_refl NK OF).
    replace (k0 +! exact_mass NK v l) with (exact_mass NK v l) in H by ring.
    replace (k0 +! exact_abs_mass NK v l) with (exact_abs_mass NK v l) in H by ring.
    exact H.
  Qed.
End MassRoundedAux.

Section MassRounded.
  Context {F K : Type} (N : Num F) (NK : Num K) (v : F -> K) (u : K) (fin nrm : F -> bool).
  Theorem mass_rounded :
    OField NK -> StdModelFma N NK v u fin nrm ->
    forall (l : list (F * Z)), fma_chain_safe N fin nrm l (zero N) = true ->
    let n := List.length l in
    fle NK (abs NK (sub NK (v (fma_chain N l (zero N))) (exact_mass NK v l)))
           (mul NK (sub NK (kpow NK (add NK (one NK) u) n) (one NK)) (exact_abs_mass NK v l)).
  Proof. intros OF SF l Hs. exact (mass_rounded_aux N NK v u fin nrm OF SF l Hs). Qed.
End MassRounded.

Print Assumptions calc_mass_chain.
Print Assumptions mass_rounded.
