#!/bin/sh
# Build the framework from files on disk only (offline): harness + the whole Coq development.
set -e
cd "$(dirname "$0")"
export CARGO_NET_OFFLINE=true
python3 tools/gen_table.py /repo coq/gen
(cd harness && RUSTFLAGS="--cfg chemical_elements_verif" cargo build --release --offline -q)
(cd coq && coq_makefile -f _CoqProject -o Makefile >/dev/null && timeout 3000 make -j16 >/dev/null 2>coq_build.err || (tail -30 coq_build.err; exit 1))
echo "setup ok"
