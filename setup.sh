#!/bin/sh
# Build the framework from files on disk only (offline): harness + the whole Coq development.
set -e
cd "$(dirname "$0")"
export CARGO_NET_OFFLINE=true
python3 tools/gen_table.py "${VERIF_REPO:-/repo}" coq/gen
python3 tools/gen_src.py || echo "setup: source translator refused the current mz.rs (the differential tie remains)"
python3 tools/gen_poisson.py || echo "setup: source translator refused the current poisson.rs (the differential tie remains)"
python3 tools/gen_conv.py || echo "setup: source translator refused the current convolution.rs (the differential tie remains)"
python3 tools/gen_peak.py || echo "setup: source translator refused the current peak.rs (the differential tie remains)"
python3 tools/gen_formula.py || echo "setup: source translator refused the current formula.rs (the differential tie remains)"
python3 tools/gen_espec.py || echo "setup: source translator refused the current element_specification.rs (the differential tie remains)"
for g in gen_comp gen_render gen_cbind gen_brain gen_element gen_props; do python3 tools/$g.py >/dev/null || echo "setup: $g refused the current source (the differential tie remains)"; done
(cd harness && RUSTFLAGS="--cfg chemical_elements_verif" cargo build --release --offline -q)
(cd harness_c && RUSTFLAGS="--cfg chemical_elements_verif" cargo build --release --offline -q)
# -k: a proof that no longer checks must not stop the others from being built; each check
# re-runs make on its own targets and reports what is broken
(cd coq && coq_makefile -f _CoqProject -o Makefile >/dev/null && (timeout 3000 make -k -j16 >/dev/null 2>coq_build.err || (echo "setup: some Coq targets did not build:"; grep -E "Error|\*\*\*" coq_build.err | head -20)))
echo "setup ok"
