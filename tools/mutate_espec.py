#!/usr/bin/env python3
"""Robustness demonstration for tools/gen_espec.py: edit the private copy of element_specification.rs, regenerate,
run the ties block by block, compare with the expectation, restore the file."""
import os, re, subprocess, sys
ROOT = os.path.dirname(os.path.abspath(__file__))
SRC = os.path.join(ROOT, "repo_src", "src", "element_specification.rs")
ORIG = open(SRC, encoding="utf-8").read()
ALL = ["new", "parse_with", "parse", "from_str", "like_from", "quick_check_str", "display", "eq_str", "borrow",
       "element_hash", "hash", "element_eq", "eq"]
PW = ["parse_with", "parse", "from_str"]
E, UI, UE = "ElementSpecificationParsingError", "ElementSpecificationParsingError::UnclosedIsotope", "ElementSpecificationParsingError::UnknownElement"

SPLIT_ONCE = '''        let (elt_sym, isotope) = match string.split_once('[') {
            None => (string, None),
            Some((sym, rest)) => {
                let digits = rest
                    .strip_suffix(']')
                    .ok_or(ElementSpecificationParsingError::UnclosedIsotope)?;
                if !digits.bytes().all(|b| b.is_ascii_digit()) {
                    return Err(ElementSpecificationParsingError::UnclosedIsotope);
                }
                let isotope = digits
                    .parse::<u16>()
                    .map_err(|_| ElementSpecificationParsingError::UnclosedIsotope)?;
                (sym, Some(isotope))
            }
        };
'''
FIND_BLOCK = ORIG[ORIG.index("        let (elt_sym, isotope) = match string.find('[') {"):ORIG.index("        let element = periodic_table")]
DIGIT_IF = '''                if !digits.bytes().all(|b| b.is_ascii_digit()) {
                    return Err(ElementSpecificationParsingError::UnclosedIsotope);
                }
'''
STRIP = '''                let digits = string[i + 1..]
                    .strip_suffix(']')
                    .ok_or(ElementSpecificationParsingError::UnclosedIsotope)?;
'''
ISO_MATCH = '''        let isotope = match isotope {
            None => 0,
            Some(n) if element.isotopes.contains_key(&n) => n,
            Some(_) => return Err(ElementSpecificationParsingError::UnknownElement),
        };
'''
FROM_STR = '''        match ElementSpecification::parse(s) {
            Ok(r) => Ok(r),
            Err(err) => Err(err),
        }
'''
DISPLAY = '''        if self.isotope == 0 {
            f.write_str(&self.element.symbol)
        } else {
            write!(f, "{}[{}]", self.element.symbol, self.isotope)
        }
'''
EQ = '''        if self.element != other.element {
            return false;
        }
        self.isotope == other.isotope
'''

# (name, kind, [(old, new)], functions whose tie must NOT be OK)
CASES = [
    # ---- (a) semantics-changing edits inside the subset: the affected ties must fail
    ("A01 Display: `isotope == 0` test dropped (always the bare symbol)", "a",
     [("        if self.isotope == 0 {\n            f.write_str", "        if self.isotope == self.isotope {\n            f.write_str")], ["display"]),
    ("A02 PartialEq<str>: `&& self.isotope == 0` dropped", "a",
     [("self.element.symbol == other && self.isotope == 0", "self.element.symbol == other")], ["eq_str"]),
    ("A03 offset: `string[i + 1..]` -> `string[i..]`", "a", [("string[i + 1..]", "string[i..]")], PW),
    ("A04 error swapped: missing `]` reports UnknownElement", "a",
     [(".strip_suffix(']')\n                    .ok_or(%s)?" % UI, ".strip_suffix(']')\n                    .ok_or(%s)?" % UE)], PW),
    ("A05 error swapped: unknown symbol reports UnclosedIsotope", "a",
     [(".get(elt_sym)\n            .ok_or(%s)?" % UE, ".get(elt_sym)\n            .ok_or(%s)?" % UI)], PW),
    ("A06 quick_check_str: `n < 3` -> `n < 4`", "a", [("else if n < 3 {", "else if n < 4 {")], ["quick_check_str"]),
    ("A07 quick_check_str: `n == 4` -> `n == 5`", "a", [("} else if n == 4 {", "} else if n == 5 {")], ["quick_check_str"]),
    ("A08 the closing `]` is no longer required (strip_suffix dropped)", "a",
     [(STRIP, "                let digits = &string[i + 1..];\n")], PW),
    ("A09 the isotope is not checked against the element (guard dropped)", "a",
     [("Some(n) if element.isotopes.contains_key(&n) => n,", "Some(n) => n,")], PW),
    ("A10 no bracket gives isotope 1", "a", [("            None => 0,\n", "            None => 1,\n")], PW),
    ("A11 the all-digits test dropped (`+13` would parse)", "a", [(DIGIT_IF, "")], PW),
    ("A12 Hash also feeds the isotope", "a",
     [("        self.element.hash(state);\n", "        self.element.hash(state);\n        self.isotope.hash(state);\n")], ["hash"]),
    ("A13 quick_check_str: `last != '['` -> `last != '('`", "a", [("last != '[' &&", "last != '(' &&")], ["quick_check_str"]),
    ("A14 PartialEq: isotopes not compared", "a", [("        self.isotope == other.isotope\n", "        true\n")], ["eq"]),
    ("A15 offset: `&string[..i]` -> `&string[..i + 1]`", "a", [("(&string[..i], Some(isotope))", "(&string[..i + 1], Some(isotope))")], PW),
    ("A16 from_str rewrites every error to UnknownElement", "a",
     [("            Err(err) => Err(err),\n", "            Err(_) => Err(%s),\n" % UE)], ["from_str"]),
    ("A17 From<bool>: Yes and No swapped", "a",
     [("            ElementSpecificationLike::Yes\n        } else {\n            ElementSpecificationLike::No", "            ElementSpecificationLike::No\n        } else {\n            ElementSpecificationLike::Yes")],
     ["like_from", "quick_check_str"]),
    ("A18 quick_check_str: `unwrap_or(first)` -> `unwrap_or(']')`", "a", [("unwrap_or(first)", "unwrap_or(']')")], ["quick_check_str"]),
    ("A19 Display: `{}[{}]` -> `{}({})`", "a", [('"{}[{}]"', '"{}({})"')], ["display"]),
    ("A20 quick_check_str: the 4-byte case answers Maybe for a non-letter", "a",
     [("                }\n            } else {\n                ElementSpecificationLike::No\n            }\n        } else {",
       "                }\n            } else {\n                ElementSpecificationLike::Maybe\n            }\n        } else {")], ["quick_check_str"]),
    ("A21 Borrow<str> / hash unchanged but PartialEq<str> compares with isotope 1", "a",
     [("self.element.symbol == other && self.isotope == 0", "self.element.symbol == other && self.isotope == 1")], ["eq_str"]),
    ("A22 find(']') instead of find('[')", "a", [("string.find('[')", "string.find(']')")], PW),
    # ---- (b) harmless edits inside the subset: every tie still holds
    ("B01 locals renamed (digits -> ds, elt_sym -> symbol_text, i -> at)", "b",
     [(FIND_BLOCK + "        let element = periodic_table\n            .get(elt_sym)",
       FIND_BLOCK.replace("digits", "ds").replace("elt_sym", "symbol_text").replace("Some(i)", "Some(at)").replace("[i + 1..]", "[at + 1..]").replace("[..i]", "[..at]")
       + "        let element = periodic_table\n            .get(symbol_text)")], []),
    ("B02 quick_check_str: `&&` operands reordered", "b",
     [("(last != '[' && last != ']' && first.is_alphabetic()).into()", "(first.is_alphabetic() && last != ']' && last != '[').into()")], []),
    ("B03 quick_check_str: `n < 3` -> `n <= 2`, `n == 1` -> `1 == n`", "b",
     [("else if n < 3 {", "else if n <= 2 {"), ("        if n == 1 {", "        if 1 == n {")], []),
    ("B04 an intermediate `let rest = &string[i + 1..];`", "b",
     [(STRIP, "                let rest = &string[i + 1..];\n                let digits = rest.strip_suffix(']').ok_or(%s)?;\n" % UI)], []),
    ("B05 PartialEq<str>: operands of `&&` swapped", "b",
     [("self.element.symbol == other && self.isotope == 0", "self.isotope == 0 && self.element.symbol == other")], []),
    ("B06 Display: branches swapped under `!=`", "b",
     [(DISPLAY, '        if self.isotope != 0 {\n            write!(f, "{}[{}]", self.element.symbol, self.isotope)\n        } else {\n            f.write_str(&self.element.symbol)\n        }\n')], []),
    ("B07 from_str: the match replaced by the call", "b", [(FROM_STR, "        ElementSpecification::parse(s)\n")], []),
    ("B08 arms of `match isotope` reordered", "b",
     [(ISO_MATCH, ISO_MATCH.replace("            None => 0,\n", "").replace("        };\n", "            None => 0,\n        };\n"))], []),
    ("B09 closure variable renamed, digit test via `== false`-free early return kept", "b",
     [("all(|b| b.is_ascii_digit())", "all(|byte| byte.is_ascii_digit())")], []),
    ("B10 PartialEq: one expression `self.element == other.element && self.isotope == other.isotope`", "b",
     [(EQ, "        self.element == other.element && self.isotope == other.isotope\n")], []),
    ("B11 quick_check_str: nested ifs of the 4-byte case as one `&&`", "b",
     [("            if first.is_alphabetic() {\n                if last == ']' {\n                    ElementSpecificationLike::Maybe\n                } else {\n                    ElementSpecificationLike::No\n                }\n            } else {\n                ElementSpecificationLike::No\n            }\n",
       "            if first.is_alphabetic() && last == ']' {\n                ElementSpecificationLike::Maybe\n            } else {\n                ElementSpecificationLike::No\n            }\n")], []),
    ("B12 the table lookup with match instead of ok_or(..)?", "b",
     [("        let element = periodic_table\n            .get(elt_sym)\n            .ok_or(%s)?;\n" % UE,
       "        let element = match periodic_table.get(elt_sym) {\n            Some(e) => e,\n            None => return Err(%s),\n        };\n" % UE)], []),
    # ---- (c) rewrites outside the subset: the function is skipped, the other ties are unaffected
    ("C01 parse_with rewritten with `split_once('[')`", "c", [(FIND_BLOCK, SPLIT_ONCE)], PW),
    ("C02 quick_check_str: `chars.next_back()` replaced by `string.chars().last()`", "c",
     [("let last = chars.next_back().unwrap_or(first);", "let last = string.chars().last().unwrap_or(first);")], ["quick_check_str"]),
    ("C03 Display through `format!`", "c",
     [('            write!(f, "{}[{}]", self.element.symbol, self.isotope)\n', '            f.write_str(&format!("{}[{}]", self.element.symbol, self.isotope))\n')], ["display"]),
]


def run_case(name, kind, edits, must_fail):
    text = ORIG
    for old, new in edits:
        if text.count(old) != 1:
            return "%s: EDIT DOES NOT APPLY (%d occurrences of %r)" % (name, text.count(old), old[:50])
        text = text.replace(old, new)
    open(SRC, "w", encoding="utf-8").write(text)
    try:
        r = subprocess.run([sys.executable, os.path.join(ROOT, "tools", "gen_espec.py"), "--ties"], stdout=subprocess.PIPE,
                           stderr=subprocess.STDOUT, universal_newlines=True, env=dict(os.environ, VERIF_REPO=os.path.join(ROOT, "repo_src")))
    finally:
        open(SRC, "w", encoding="utf-8").write(ORIG)
    status = dict(re.findall(r"^tie (\w+): (OK|FAILED|SKIPPED)", r.stdout, re.M))
    bad = sorted(n for n in ALL if status.get(n) != "OK")
    skipped = sorted(n for n in ALL if status.get(n) == "SKIPPED")
    if r.returncode == 3:
        verdict = "UNEXPECTED exit 3"
    elif kind == "a":
        verdict = "as expected" if sorted(must_fail) == bad and not skipped else "UNEXPECTED"
    elif kind == "b":
        verdict = "as expected" if not bad else "UNEXPECTED"
    else:
        verdict = "as expected" if sorted(must_fail) == bad and must_fail[0] in skipped else "UNEXPECTED"
    why = [l for l in r.stdout.splitlines() if l.startswith("skipped ")][:1]
    return "%s\n    not OK: %s   skipped: %s   -> %s%s" % (name, ", ".join("%s=%s" % (n, status.get(n)) for n in bad) or "-",
                                                      ", ".join(skipped) or "-", verdict, ("\n    " + why[0][:230]) if why else "")


if __name__ == "__main__":
    sel = sys.argv[1:]
    try:
        for c in CASES:
            if not sel or any(c[0].startswith(s) for s in sel):
                print(run_case(*c), flush=True)
    finally:
        open(SRC, "w", encoding="utf-8").write(ORIG)
