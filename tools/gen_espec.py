#!/usr/bin/env python3
"""Translate the functions of src/element_specification.rs (and the two functions of src/element.rs they call,
`Element::eq` and `Element::hash`) into a SHALLOW embedding in Gallina -> coq/gen/ESpecGen.v.  coq/proofs/ESpecTie.v
then proves that the hand-written model coq/model/ESpec.v computes exactly what this translation computes.

Strings, slices, table lookups and integer parsing are emitted as calls to the model's OWN primitives (Str.v: blen,
slice, str_eqb, is_digit, parse_u16, show_N, codes; Comp.v: tbl_find; TableModel.v: isos, sym, mai; ESpec.v:
is_alphabetic, the constructors of eres / espec_err / like) and to the std operations of coq/model/ImpE.v (str_find,
strip_suffix_char, str_bytes, chars_next, chars_next_back, unwrap_or, assoc_mem, hash_str, hash_u16, mkSpec): the
translation ties the CONTROL STRUCTURE, the offsets, the comparisons and the choice of errors, not the primitives.

Every function is translated INDEPENDENTLY: a function whose body is outside the subset is skipped (`skipped <name>:
<construct>` on stdout, its name in `espec_gen_skipped` in ESpecGen.v), and so is a function that calls a skipped one.
Only a broken FILE STRUCTURE (unbalanced brackets, the two enums / the struct ElementSpecification / struct Element
without the expected variants / fields) makes the translator exit with status 3.

  python3 tools/gen_espec.py            regenerate coq/gen/ESpecGen.v (rewritten only when its content changes)
  python3 tools/gen_espec.py --ties     additionally compile coq/proofs/ESpecTie.v block by block (a block = the lemmas
                                        of one function, between `(* BEGIN TIE f (needs: ...) *)` and `(* END TIE f *)`)
                                        and print `tie <f>: OK | FAILED | SKIPPED` for every function

FUNCTIONS (generated name <- source)
  new parse parse_with quick_check_str   <- the inherent `impl ElementSpecification`
  eq / eq_str / hash / borrow / display / from_str
                                         <- impl PartialEq / PartialEq<str> / Hash / Borrow<str> / Display / FromStr
                                            for ElementSpecification (fn eq, eq, hash, borrow, fmt, from_str)
  like_from                              <- impl From<bool> for ElementSpecificationLike (fn from)
  element_eq / element_hash              <- src/element.rs: impl PartialEq for Element, impl Hash for Element
Every generated definition takes the two parameters (PERIODIC_TABLE : ptable) (uni_alphabetic : char -> bool) first:
the global table of crate::table, and char::is_alphabetic on non-ASCII code points (the model's oracle).

TRANSLATION (state-passing; effects are sequenced in evaluation order; Gallina shadowing = Rust shadowing)
  &str / String -> str (code points), char -> char (= N), u8 / u16 -> N, usize -> nat, bool -> bool,
  &Element -> elem, ElementSpecification -> ImpE.espec, Option<T> -> option T, (A, B) -> A * B,
  Result<T, ElementSpecificationParsingError> -> eres T (EOk / EErr / EPanic: a Rust panic is a value),
  Result<u16, ParseIntError> (of `parse::<u16>()`) -> option N, &PeriodicTable -> ptable, Chars -> the str of the
  characters not yet consumed, &mut Formatter -> the text written so far (fmt returns the new text), &mut H: Hasher ->
  ImpE.hasher (hash returns the new state).  References are erased (nothing is mutated through them).
  * `let pat = e;`                        -> let pat := e in ...
  * `E?` with E = o.ok_or(c) / r.map_err(|_| c)
                                          -> match o with None => EErr c | Some t => ... end
    `E?` on a Result of this crate        -> match E with EOk t => ... | EErr e => EErr e | EPanic => EPanic end
  * `&s[a..b]` `&s[a..]` `&s[..b]`        -> match slice s a b with None => EPanic | Some t => ... end
  * `it.next()` / `it.next_back()`        -> let '(t, it) := chars_next it in ...          (it: a `let mut` Chars local)
  * `match e { arms }` / `if c {..} else {..}` as the value of a `let`, of an arm, or of the function
                                          -> match / if, with the rest of the block as continuation: inlined when one
                                             arm continues and binds no outer name, else `let k_n := fun .. => rest`
    arms: None / Some(x) / Some(_) / Ok(x) / Err(x) / _ with optional `if guard`; bodies: expression, block, `return e`
  * `if c { ...; return e; }` rest        -> if c then ... e else rest
  * `return e;`                           -> e
  * `x.hash(state);`                      -> let state := hash_str x state / hash_u16 .. / element_hash_gen .. in ...
  * `f.write_str(s)`, `write!(f, "lit{}..", a, ..)`  (value of fmt)
                                          -> f ++ s,  f ++ (codes of lit ++ <Display of a> ++ ..)   ({} only; Display of
                                             a String is its text, of a u16 is Str.show_N)
  * s.len() -> blen s, s.find(c) -> str_find c s, s.strip_suffix(c) -> strip_suffix_char c s, s.bytes().all(|b| p) ->
    forallb (fun b => p) (str_bytes s), s.chars() -> s, s.parse::<u16>() -> parse_u16 s, b.is_ascii_digit() ->
    is_digit b, c.is_alphabetic() -> is_alphabetic uni_alphabetic c, c.is_ascii_alphabetic() -> is_alpha c,
    s.ends_with(c) -> strip_suffix_char c s is Some, s.is_empty() -> blen s = 0, o.is_some() / o.is_none(), r.ok(),
    o.unwrap_or(d) -> unwrap_or o d, table.get(s) -> tbl_find s table, m.contains_key(&k) -> assoc_mem k m,
    (b).into() where an ElementSpecificationLike is expected -> like_from_gen b, e.symbol -> codes (sym e),
    e.isotopes -> isos e, e.most_abundant_isotope -> mai e, x.element / x.isotope -> sp_element x / sp_isotope x,
    `ElementSpecification { element, isotope }` -> mkSpec element isotope, 'c' -> its code point, == != on text ->
    str_eqb, on char / u16 -> N.eqb, on usize -> Nat.eqb, < <= > >= -> ltb / leb, && || ! -> andb orb negb,
    `e + <literal>` on a usize bounded by a string length -> Nat.add (cannot overflow).

GRAMMAR of a function (comments are skipped; lifetimes are dropped)
  fn      := attr* vis? 'fn' name ['<' H ':' path ','? '>'] '(' params ')' ['->' type] block
  params  := ['&' life?] 'self' | name ':' type, separated by ','
  type    := '&' life? 'mut'? type | '(' type ',' type ')' | path ['<' (type|life) (',' (type|life))* '>']
  block   := '{' stmt* [expr] '}'
  stmt    := 'let' pat [':' type] '=' expr ';' | expr ';' | 'return' expr ';' | 'if' expr block ['else' (block|if)]
  pat     := 'mut'? name | '_' | '(' pat ',' pat ')' | 'None' | ('Some'|'Ok'|'Err') '(' pat ')'
  expr    := or        or := and ('||' and)*      and := cmp ('&&' cmp)*     cmp := add [cmpop add]
  add     := mul (('+'|'-') mul)*    mul := unary (('*'|'/') unary)*
  unary   := ('!'|'-'|'*'|'&' 'mut'?) unary | postfix
  postfix := primary ( '.' name ['::' '<' type '>'] ['(' args ')'] | '[' [expr] '..' [expr] ']' | '?' )*
  primary := int | char | string | 'true' | 'false' | name | path | path '(' args ')' | '(' expr [',' expr] ')'
           | name '{' field (',' field)* '}' | '|' (name|'_') '|' expr | 'match' expr '{' arm* '}'
           | 'if' expr block 'else' (block|if) | 'return' expr | 'write' '!' '(' expr ',' string (',' expr)* ')'
  arm     := pat ['if' expr] '=>' (expr ',' | block ','?)
Typing is checked.  Loops, assignments, closures other than the two above, `as`, shifts, other macros, nested
patterns, integer arithmetic other than `<bounded usize> + <literal>`, a panicking construct in a function that does
not return this crate's Result, an iterator advanced anywhere but first in its statement, and every other construct
are refused (the function is skipped)."""
import os, re, subprocess, sys, tempfile
sys.path.insert(0, os.path.dirname(os.path.abspath(__file__)))
from gen_src import Refuse
from gen_poisson import ind, strip, atom

REPO = os.environ.get("VERIF_REPO", "/repo")
COQ = os.path.join(os.path.dirname(os.path.dirname(os.path.abspath(__file__))), "coq")
OUT = os.path.join(COQ, "gen", "ESpecGen.v")
TIE = os.path.join(COQ, "proofs", "ESpecTie.v")
SPEC, ERR, LIKE = "ElementSpecification", "ElementSpecificationParsingError", "ElementSpecificationLike"
WANTED = ["new", "parse_with", "parse", "from_str", "like_from", "quick_check_str", "display", "eq_str", "borrow",
          "element_hash", "hash", "element_eq", "eq"]
PRE = "PERIODIC_TABLE uni_alphabetic"

RESERVED = set("""N F Z nat bool list option str char string String ptable elem espec key eres like hasher nil cons app
 fst snd pair negb andb orb true false Some None EOk EErr EPanic LikeYes LikeNo LikeMaybe UnclosedIsotope UnknownElement
 fun let in if then else match with end forall exists fix cofix as at return Type Prop Set where struct using
 Definition Section Context End blen slice str_eqb is_digit is_alpha is_alphabetic parse_u16 show_N codes tbl_find isos
 sym mai str_find strip_suffix_char str_bytes chars_next chars_next_back unwrap_or assoc_mem hash_str hash_u16 mkSpec
 sp_element sp_isotope forallb Nat PERIODIC_TABLE uni_alphabetic width indices rev map length""".split())


class Structure(Exception):
    """the file does not have the shape the translator relies on: exit 3"""


# ------------------------------------------------------------------ tokens
TOK = re.compile(r"""\s*(?:(//[^\n]*|/\*.*?\*/)
 |(\d[\d_]*(?:[iu](?:8|16|32|64|128|size))?)
 |"((?:[^"\\]|\\.)*)"
 |'((?:\\x[0-9a-fA-F]{2}|\\u\{[0-9a-fA-F]+\}|\\.|[^'\\]))'
 |'([A-Za-z_][A-Za-z0-9_]*)
 |([A-Za-z_][A-Za-z0-9_]*)
 |(->|=>|\.\.=|\.\.|::|==|!=|<=|>=|&&|\|\||\+=|-=|\*=|/=|%=|[-+*/%()=;:,.{}<>&!\[\]\#|?^@$~]))""", re.S | re.X)


def tokens(src):
    pos, out = 0, []
    while pos < len(src):
        if src[pos:].strip() == "":
            break
        m = TOK.match(src, pos)
        if not m:
            raise Structure("cannot tokenize at: %r" % src[pos:pos + 30])
        pos = m.end()
        if m.group(1) is not None:
            continue
        for kind, g in (("int", 2), ("str", 3), ("char", 4), ("life", 5), ("id", 6), ("op", 7)):
            if m.group(g) is not None:
                out.append((kind, m.group(g)))
                break
    return out


def unescape(raw):
    """the code points of a Rust string / char literal body"""
    out, i = [], 0
    simple = {"n": 10, "t": 9, "r": 13, "0": 0, "\\": 92, "'": 39, '"': 34}
    while i < len(raw):
        c = raw[i]
        if c != "\\":
            out.append(ord(c)); i += 1
        elif raw[i + 1] in simple:
            out.append(simple[raw[i + 1]]); i += 2
        elif raw[i + 1] == "x":
            out.append(int(raw[i + 2:i + 4], 16)); i += 4
        elif raw[i + 1] == "u":
            j = raw.index("}", i)
            out.append(int(raw[i + 3:j], 16)); i = j + 1
        else:
            raise Refuse("escape sequence in literal %r" % raw)
    return out


def is_op(t, v):
    return t[0] == "op" and t[1] == v


def split_items(toks, what):
    """top-level items: (header tokens, body tokens or None).  An item ends at a `;` outside all brackets or with the
    `}` matching its first `{` outside ( ) [ ]; attributes `#[...]` are dropped"""
    items, i, n = [], 0, len(toks)
    while i < n:
        if is_op(toks[i], "#"):
            j = i + 1
            if j < n and is_op(toks[j], "!"):
                j += 1
            if j >= n or not is_op(toks[j], "["):
                raise Structure("%s: stray `#`" % what)
            depth = 0
            while j < n:
                depth += is_op(toks[j], "[")
                depth -= is_op(toks[j], "]")
                j += 1
                if depth == 0:
                    break
            if depth:
                raise Structure("%s: unterminated attribute" % what)
            i = j
            continue
        head, depth, j, body = [], 0, i, None
        while True:
            if j >= n:
                raise Structure("%s: item `%s ...` does not end" % (what, " ".join(v for _, v in toks[i:i + 4])))
            t = toks[j]
            if t[0] == "op" and t[1] in ("(", "["):
                depth += 1
            elif t[0] == "op" and t[1] in (")", "]"):
                depth -= 1
                if depth < 0:
                    raise Structure("%s: unbalanced `%s`" % (what, t[1]))
            elif is_op(t, "}"):
                raise Structure("%s: unbalanced `}`" % what)
            elif is_op(t, ";") and depth == 0:
                j += 1
                break
            elif is_op(t, "{") and depth == 0:
                d, k = 0, j
                while k < n:
                    d += is_op(toks[k], "{")
                    d -= is_op(toks[k], "}")
                    k += 1
                    if d == 0:
                        break
                if d:
                    raise Structure("%s: unbalanced `{`" % what)
                body = toks[j + 1:k - 1]
                j = k
                break
            head.append(t)
            j += 1
        items.append((head, body))
        i = j
    return items


def drop_vis(head):
    if head and head[0] == ("id", "pub"):
        head = head[1:]
        if head and is_op(head[0], "("):
            k = 0
            while not is_op(head[k], ")"):
                k += 1
            head = head[k + 1:]
    return head


def skip_angle(toks, i):
    """toks[i] is `<`: index after the matching `>`"""
    d = 0
    while i < len(toks):
        d += is_op(toks[i], "<")
        d -= is_op(toks[i], ">")
        i += 1
        if d == 0:
            return i
    raise Structure("unbalanced `<`")


def impl_header(head):
    """`impl [<..>] [Trait[<args>] for] Type[<..>]` -> (trait name or None, trait args as value list, type name)"""
    h = head[1:]
    if h and is_op(h[0], "<"):
        h = h[skip_angle(h, 0):]
    d, at = 0, None
    for k, t in enumerate(h):
        d += is_op(t, "<")
        d -= is_op(t, ">")
        if d == 0 and t == ("id", "for"):
            at = k
    def last_path(ts):
        name, args, k = None, [], 0
        while k < len(ts):
            if ts[k][0] == "id":
                name = ts[k][1]; k += 1
            elif is_op(ts[k], "::"):
                k += 1
            elif is_op(ts[k], "<"):
                e = skip_angle(ts, k)
                args = [v for kind, v in ts[k + 1:e - 1] if kind != "life"]
                k = e
            else:
                k += 1
        return name, args
    if at is None:
        return None, [], last_path(h)[0]
    tr, targs = last_path(h[:at])
    return tr, targs, last_path(h[at + 1:])[0]


def fields_of(body):
    """`[pub] name : type ,` -> {name: type as a string of token values without lifetimes}"""
    out, cur, d = {}, [], 0
    for t in list(body) + [("op", ",")]:
        d += t[0] == "op" and t[1] in ("<", "(")
        d -= t[0] == "op" and t[1] in (">", ")")
        if is_op(t, ",") and d == 0:
            cur = drop_vis([x for x in cur if x[0] != "life"])
            # attributes of the field
            while cur and is_op(cur[0], "#"):
                k = 1
                dd = 0
                while k < len(cur):
                    dd += is_op(cur[k], "["); dd -= is_op(cur[k], "]"); k += 1
                    if dd == 0:
                        break
                cur = drop_vis(cur[k:])
            if len(cur) >= 3 and is_op(cur[1], ":"):
                out[cur[0][1]] = " ".join(v for _, v in cur[2:])
            cur = []
        else:
            cur.append(t)
    return out


def variants_of(body):
    out, cur = [], []
    for t in list(body) + [("op", ",")]:
        if is_op(t, ","):
            cur = [x for x in cur]
            # drop attributes
            while cur and is_op(cur[0], "#"):
                k, dd = 1, 0
                while k < len(cur):
                    dd += is_op(cur[k], "["); dd -= is_op(cur[k], "]"); k += 1
                    if dd == 0:
                        break
                cur = cur[k:]
            if cur:
                out.append(" ".join(v for _, v in cur))
            cur = []
        else:
            cur.append(t)
    return out


def file_structure():
    """-> {generated name: (header tokens, body tokens, self type)}, assoc types, uses"""
    def load(rel):
        src = open(os.path.join(REPO, "src", rel), encoding="utf-8").read()
        src = src.split("#[cfg(test)]")[0]
        return split_items(tokens(src), rel)
    fns, uses, assoc = {}, set(), {}
    enums, structs = {}, {}

    def impls(items, rel, classify):
        for head, body in items:
            head = drop_vis(head)
            hv = [v for _, v in head]
            if hv[:1] == ["use"]:
                uses.add(hv[-1])
                for v in hv:
                    uses.add(v)
            elif hv[:1] == ["enum"] and body is not None:
                enums[hv[1]] = variants_of(body)
            elif hv[:1] == ["struct"] and body is not None:
                structs[hv[1]] = fields_of(body)
            elif hv[:1] == ["impl"] and body is not None:
                tr, targs, ty = impl_header(head)
                for h2, b2 in split_items(body, "%s: impl %s" % (rel, ty)):
                    h2 = drop_vis(h2)
                    h2v = [v for _, v in h2]
                    if h2v[:1] == ["fn"] and b2 is not None:
                        name = classify(tr, targs, ty, h2v[1])
                        if name is not None:
                            if name in fns:
                                raise Structure("%s: `%s` defined twice" % (rel, name))
                            fns[name] = (h2, b2, ty)
                    elif h2v[:1] == ["type"] and tr == "FromStr" and ty == SPEC and h2v[1:2] == ["Err"]:
                        assoc["Err"] = [t for t in h2[3:] if not is_op(t, ";")]

    def classify_spec(tr, targs, ty, fn):
        if ty == SPEC:
            if tr is None and fn in ("new", "parse", "parse_with", "quick_check_str"):
                return fn
            table = {("PartialEq", (), "eq"): "eq", ("PartialEq", (SPEC,), "eq"): "eq", ("PartialEq", ("str",), "eq"): "eq_str",
                     ("Hash", (), "hash"): "hash", ("Borrow", ("str",), "borrow"): "borrow", ("Display", (), "fmt"): "display",
                     ("FromStr", (), "from_str"): "from_str"}
            return table.get((tr, tuple(targs), fn))
        if ty == LIKE and tr == "From" and targs == ["bool"] and fn == "from":
            return "like_from"
        return None

    def classify_elem(tr, targs, ty, fn):
        if ty == "Element" and tr == "PartialEq" and targs in ([], ["Element"]) and fn == "eq":
            return "element_eq"
        if ty == "Element" and tr == "Hash" and fn == "hash":
            return "element_hash"
        if ty == "PeriodicTable" and tr is None and fn == "get":
            return "table_get"
        return None

    impls(load("element_specification.rs"), "element_specification.rs", classify_spec)
    if enums.get(ERR) != ["UnclosedIsotope", "UnknownElement"]:
        raise Structure("enum %s has variants %r" % (ERR, enums.get(ERR)))
    if enums.get(LIKE) != ["Yes", "No", "Maybe"]:
        raise Structure("enum %s has variants %r" % (LIKE, enums.get(LIKE)))
    if structs.get(SPEC) != {"element": "& Element", "isotope": "u16"}:
        raise Structure("struct %s has fields %r" % (SPEC, structs.get(SPEC)))
    spec_uses = set(uses)
    impls(load("element.rs"), "element.rs", classify_elem)
    el = structs.get("Element") or {}
    if el.get("symbol") != "String" or el.get("most_abundant_isotope") != "u16" or not (el.get("isotopes") or "").startswith("HashMap < u16 , Isotope"):
        raise Structure("struct Element: symbol / isotopes / most_abundant_isotope are %r / %r / %r" % (
            el.get("symbol"), el.get("isotopes"), el.get("most_abundant_isotope")))
    pt = structs.get("PeriodicTable") or {}
    if not (pt.get("elements") or "").startswith("HashMap < String , Element"):
        raise Structure("struct PeriodicTable: elements is %r" % pt.get("elements"))
    return fns, assoc, spec_uses


# ------------------------------------------------------------------ parsing a function to an AST (tuples)
CMP = ("==", "!=", "<", "<=", ">", ">=")
KEYWORDS = ("loop", "while", "for", "unsafe", "move", "break", "continue", "let", "mut", "as", "fn", "else", "in", "impl",
            "struct", "enum", "use", "mod", "dyn", "ref", "static", "const", "where", "type", "trait")


class Parser:
    def __init__(self, toks):
        self.t, self.i = toks, 0

    def peek(self, k=0):
        return self.t[self.i + k] if self.i + k < len(self.t) else ("eof", "<end>")

    def at(self, *vs):
        return all(self.peek(k)[0] in ("op", "id") and self.peek(k)[1] == v for k, v in enumerate(vs))

    def context(self):
        return " ".join(v for _, v in self.t[max(0, self.i - 4):self.i + 6])

    def take(self, val=None, kind=None):
        k, v = self.peek()
        if (val is not None and (v != val or k not in ("op", "id"))) or (kind is not None and k != kind):
            raise Refuse("expected %s, found %r near `%s`" % (val or kind, v, self.context()))
        self.i += 1
        return v

    def end(self):
        if self.peek()[0] != "eof":
            raise Refuse("unexpected %r near `%s`" % (self.peek()[1], self.context()))

    # ---- types: ("ref", mut, T) is flattened to T except `&mut`, kept as ("mutref", T)
    def type_(self):
        if self.at("&"):
            self.take()
            if self.peek()[0] == "life":
                self.take()
            if self.at("mut"):
                self.take()
                return ("mutref", self.type_())
            return self.type_()
        if self.at("("):
            self.take()
            if self.at(")"):
                self.take()
                return ("path", ["()"], [])
            parts = [self.type_()]
            while self.at(","):
                self.take()
                if self.at(")"):
                    break
                parts.append(self.type_())
            self.take(")")
            return ("tuple", parts) if len(parts) > 1 else parts[0]
        segs = [self.take(kind="id")]
        while self.at("::") and self.peek(1)[0] == "id":
            self.take(); segs.append(self.take(kind="id"))
        args = []
        if self.at("<"):
            self.take()
            while not self.at(">"):
                if self.peek()[0] == "life":
                    self.take()
                else:
                    args.append(self.type_())
                if self.at(","):
                    self.take()
                elif not self.at(">"):
                    raise Refuse("generic arguments near `%s`" % self.context())
            self.take(">")
        return ("path", segs, args)

    def signature(self):
        self.take("fn")
        name = self.take(kind="id")
        generics = {}
        if self.at("<"):
            self.take()
            while not self.at(">"):
                if self.peek()[0] == "life":
                    raise Refuse("lifetime parameters on a function")
                g = self.take(kind="id"); self.take(":")
                bound = [self.take(kind="id")]
                while self.at("::"):
                    self.take(); bound.append(self.take(kind="id"))
                generics[g] = bound[-1]
                if self.at(","):
                    self.take()
            self.take(">")
        self.take("(")
        selfkind, params = None, []
        first = True
        while not self.at(")"):
            if not first:
                self.take(",")
                if self.at(")"):
                    break
            if first and (self.at("self") or self.at("&", "self") or (self.at("&") and self.peek(1)[0] == "life" and self.peek(2)[1] == "self")):
                while not self.at("self"):
                    self.take()
                self.take(); selfkind = "ref"
            elif first and self.at("&", "mut", "self"):
                raise Refuse("`&mut self` receiver")
            elif self.at("mut"):
                raise Refuse("`mut` parameter near `%s`" % self.context())
            else:
                a = self.take(kind="id"); self.take(":")
                params.append((a, self.type_()))
            first = False
        self.take(")")
        rty = None
        if self.at("->"):
            self.take(); rty = self.type_()
        if self.at("where"):
            raise Refuse("`where` clause")
        self.end()
        return name, generics, selfkind, params, rty

    # ---- patterns
    def pattern(self):
        if self.at("("):
            self.take()
            ps = [self.pattern()]
            while self.at(","):
                self.take()
                if self.at(")"):
                    break
                ps.append(self.pattern())
            self.take(")")
            return ("ptuple", ps) if len(ps) > 1 else ps[0]
        if self.at("_"):
            self.take()
            return ("pwild",)
        if self.at("mut"):
            self.take()
            return ("pvar", True, self.take(kind="id"))
        if self.at("&") or self.at("ref"):
            raise Refuse("reference pattern near `%s`" % self.context())
        k, v = self.peek()
        if k != "id":
            raise Refuse("literal or unsupported pattern near `%s`" % self.context())
        self.take()
        if v == "None":
            return ("pnone",)
        if v in ("Some", "Ok", "Err"):
            self.take("(")
            p = self.pattern()
            self.take(")")
            if p[0] not in ("pvar", "pwild") or (p[0] == "pvar" and p[1]):
                raise Refuse("nested pattern in %s(..)" % v)
            return ("pctor", v, p)
        if self.at("::") or self.at("(") or self.at("{") or self.at("@"):
            raise Refuse("path / struct / binding pattern `%s ..` near `%s`" % (v, self.context()))
        if self.at("|"):
            raise Refuse("or-pattern near `%s`" % self.context())
        return ("pvar", False, v)

    # ---- expressions.  nostruct: condition / scrutinee position
    def expr(self, nostruct=False):
        a = self.and_(nostruct)
        while self.at("||"):
            self.take()
            a = ("logic", "||", a, self.and_(nostruct))
        if self.peek()[0] == "op" and self.peek()[1] in ("..", "..=", "^", "%", "=", "+=", "-=", "*=", "/=", "%=", "|") \
                or self.at("as"):
            raise Refuse("operator %r near `%s`" % (self.peek()[1], self.context()))
        return a

    def and_(self, nostruct):
        a = self.cmp(nostruct)
        while self.at("&&"):
            self.take()
            a = ("logic", "&&", a, self.cmp(nostruct))
        return a

    def cmp(self, nostruct):
        a = self.arith(nostruct)
        if self.peek()[0] == "op" and self.peek()[1] in CMP:
            op = self.take()
            b = self.arith(nostruct)
            if self.peek()[0] == "op" and self.peek()[1] in CMP:
                raise Refuse("chained comparison near `%s`" % self.context())
            a = ("cmp", op, a, b)
        return a

    def arith(self, nostruct):
        a = self.term(nostruct)
        while self.peek()[0] == "op" and self.peek()[1] in ("+", "-"):
            op = self.take()
            a = ("bin", op, a, self.term(nostruct))
        return a

    def term(self, nostruct):
        a = self.unary(nostruct)
        while self.peek()[0] == "op" and self.peek()[1] in ("*", "/"):
            op = self.take()
            a = ("bin", op, a, self.unary(nostruct))
        return a

    def unary(self, nostruct):
        if self.at("!"):
            self.take()
            return ("not", self.unary(nostruct))
        if self.at("-"):
            self.take()
            return ("neg", self.unary(nostruct))
        if self.at("*"):
            self.take()
            return ("deref", self.unary(nostruct))
        if self.at("&&"):
            raise Refuse("`&&` as a double reference near `%s`" % self.context())
        if self.at("&"):
            self.take()
            if self.at("mut"):
                self.take()
            return ("ref", self.unary(nostruct))
        return self.postfix(nostruct)

    def args(self):
        self.take("(")
        out = []
        while not self.at(")"):
            out.append(self.expr())
            if self.at(","):
                self.take()
            elif not self.at(")"):
                raise Refuse("argument list near `%s`" % self.context())
        self.take(")")
        return out

    def postfix(self, nostruct):
        a = self.primary(nostruct)
        while True:
            if self.at("."):
                self.take()
                if self.peek()[0] == "int":
                    raise Refuse("tuple field near `%s`" % self.context())
                if self.at("await"):
                    raise Refuse("`.await`")
                f = self.take(kind="id")
                turbo = None
                if self.at("::"):
                    self.take(); self.take("<"); turbo = self.type_(); self.take(">")
                if self.at("("):
                    a = ("mcall", a, f, turbo, self.args())
                elif turbo is not None:
                    raise Refuse("turbofish without a call near `%s`" % self.context())
                else:
                    a = ("field", a, f)
            elif self.at("["):
                self.take()
                lo = hi = None
                if not self.at(".."):
                    lo = self.arith(False)
                if self.at("..="):
                    raise Refuse("inclusive range near `%s`" % self.context())
                if not self.at(".."):
                    raise Refuse("indexing by something that is not a range `a..b`, near `%s`" % self.context())
                self.take("..")
                if not self.at("]"):
                    hi = self.arith(False)
                self.take("]")
                a = ("index", a, lo, hi)
            elif self.at("?"):
                self.take()
                a = ("try", a)
            else:
                return a

    def closure(self):
        self.take("|")
        if self.at("_"):
            self.take(); x = None
        else:
            x = self.take(kind="id")
        if self.at(":"):
            raise Refuse("typed closure parameter")
        self.take("|")
        if self.at("{"):
            raise Refuse("closure with a block body near `%s`" % self.context())
        return ("closure", x, self.expr())

    def primary(self, nostruct):
        k, v = self.peek()
        if k == "int":
            self.take()
            m = re.fullmatch(r"([\d_]+)([iu]\w+)?", v)
            return ("int", m.group(1).replace("_", ""), m.group(2))
        if k == "char":
            self.take()
            return ("char", unescape(v)[0])
        if k == "str":
            self.take()
            return ("strlit", v)
        if k == "op" and v == "(":
            self.take()
            if self.at(")"):
                raise Refuse("unit value `()`")
            a = self.expr()
            if self.at(","):
                parts = [a]
                while self.at(","):
                    self.take()
                    if self.at(")"):
                        break
                    parts.append(self.expr())
                self.take(")")
                return ("tuple", parts)
            self.take(")")
            return ("paren", a)
        if k == "op" and v == "|":
            return self.closure()
        if k == "op" and v == "||":
            raise Refuse("closure without parameters")
        if k == "op" and v == "{":
            return ("blockexpr", self.block())
        if k != "id":
            raise Refuse("unexpected %r near `%s`" % (v, self.context()))
        if v in ("true", "false"):
            self.take()
            return ("bool", v)
        if v == "match":
            return self.match_()
        if v == "if":
            return self.if_()
        if v == "return":
            self.take()
            if self.at(";") or self.at(",") or self.at("}"):
                raise Refuse("`return` without a value")
            return ("return", self.expr())
        if v in KEYWORDS:
            raise Refuse("`%s` near `%s`" % (v, self.context()))
        self.take()
        if self.at("!"):
            if v != "write":
                raise Refuse("macro `%s!`" % v)
            self.take(); self.take("(")
            f = self.expr(); self.take(",")
            fmt = self.take(kind="str")
            args = []
            while self.at(","):
                self.take()
                if self.at(")"):
                    break
                args.append(self.expr())
            self.take(")")
            return ("write", f, fmt, args)
        path = [v]
        while self.at("::"):
            self.take()
            if self.at("<"):
                raise Refuse("turbofish in a path near `%s`" % self.context())
            path.append(self.take(kind="id"))
        if self.at("("):
            if path == ["Some"] or path == ["Ok"] or path == ["Err"]:
                a = self.args()
                if len(a) != 1:
                    raise Refuse("%s with %d arguments" % (path[0], len(a)))
                return ("ctor", path[0], a[0])
            return ("call", path, self.args())
        if self.at("{") and not nostruct and len(path) == 1 and path[0][:1].isupper():
            self.take()
            fields = []
            while not self.at("}"):
                if self.at(".."):
                    raise Refuse("struct update syntax")
                f = self.take(kind="id")
                e = ("var", f)
                if self.at(":"):
                    self.take(); e = self.expr()
                fields.append((f, e))
                if self.at(","):
                    self.take()
                elif not self.at("}"):
                    raise Refuse("struct literal near `%s`" % self.context())
            self.take("}")
            return ("struct", path[0], fields)
        if len(path) > 1:
            return ("path", path)
        if v == "None":
            return ("none",)
        return ("var", v)

    def match_(self):
        self.take("match")
        scrut = self.expr(True)
        self.take("{")
        arms = []
        while not self.at("}"):
            pat = self.pattern()
            guard = None
            if self.at("if"):
                self.take(); guard = self.expr(True)
            self.take("=>")
            if self.at("{"):
                body = ("blockexpr", self.block())
                if self.at(","):
                    self.take()
            else:
                body = self.expr()
                if self.at(","):
                    self.take()
                elif not self.at("}"):
                    raise Refuse("match arm near `%s`" % self.context())
            arms.append((pat, guard, body))
        self.take("}")
        return ("match", scrut, arms)

    def if_(self):
        self.take("if")
        if self.at("let"):
            raise Refuse("`if let`")
        c = self.expr(True)
        b1 = self.block()
        b2 = None
        if self.at("else"):
            self.take()
            b2 = ([], self.if_()) if self.at("if") else self.block()
        return ("if", c, b1, b2)

    # ---- statements
    def block(self):
        self.take("{")
        stmts, tail = [], None
        while not self.at("}"):
            if tail is not None:
                if tail[0] in ("if", "match", "blockexpr"):      # a block-like expression used as a statement
                    stmts.append(("expr", tail)); tail = None
                else:
                    raise Refuse("an expression that is not last in its block, near `%s`" % self.context())
            if self.peek()[0] == "eof":
                raise Refuse("unterminated block")
            if self.at(";"):
                self.take()
                continue
            if self.at("let"):
                self.take()
                pat = self.pattern()
                if pat[0] in ("pnone", "pctor"):
                    raise Refuse("refutable pattern in `let`")
                ty = None
                if self.at(":"):
                    self.take(); ty = self.type_()
                if self.at("else"):
                    raise Refuse("let-else")
                if not self.at("="):
                    raise Refuse("`let` without initialiser near `%s`" % self.context())
                self.take("=")
                e = self.expr()
                if self.at("else"):
                    raise Refuse("let-else")
                self.take(";")
                stmts.append(("let", pat, ty, e))
                continue
            e = self.expr()
            if self.at(";"):
                self.take()
                stmts.append(("ret", e[1]) if e[0] == "return" else ("expr", e))
            else:
                tail = e
        self.take("}")
        if tail is not None and tail[0] == "return":
            stmts.append(("ret", tail[1])); tail = None
        return (stmts, tail)


# ------------------------------------------------------------------ types
TEXT = ("str", "String")
BASE = {"str": "str", "String": "String", "char": "char", "u8": "u8", "u16": "u16", "usize": "usize", "bool": "bool",
        "Element": "Elem", SPEC: "Spec", ERR: "Err", LIKE: "Like", "PeriodicTable": "Table"}


def show(ty):
    if ty is None:
        return "_"
    if isinstance(ty, tuple):
        if ty[0] == "option":
            return "Option<%s>" % show(ty[1])
        if ty[0] == "result":
            return "Result<%s, %s>" % (show(ty[1]), ty[2])
        if ty[0] == "tuple":
            return "(%s)" % ", ".join(show(t) for t in ty[1])
        if ty[0] == "iter":
            return "Iterator<%s>" % show(ty[1])
    return ty


def coq_ty(ty):
    if ty is None:
        raise Refuse("a value whose type is not determined")
    if isinstance(ty, tuple):
        if ty[0] == "option":
            return "option %s" % atom(coq_ty(ty[1]))
        if ty[0] == "result":
            return ("eres %s" if ty[2] == "Err" else "option %s") % atom(coq_ty(ty[1]))
        if ty[0] == "tuple":
            return "(%s)" % " * ".join(atom(coq_ty(t)) for t in ty[1])
        if ty[0] == "iter":
            return "list N"
    return {"str": "str", "String": "str", "char": "char", "u8": "N", "u16": "N", "usize": "nat", "bool": "bool",
            "Elem": "elem", "Spec": "espec", "Err": "espec_err", "Like": "like", "Table": "ptable", "Isos": "list (N * iso)",
            "Chars": "str", "Fmt": "str", "FmtResult": "str", "Hasher": "hasher"}[ty]


def unify(a, b):
    """the common type of two arms (None = not determined, e.g. a bare `None`), or Refuse"""
    if a is None:
        return b
    if b is None:
        return a
    if a in TEXT and b in TEXT:
        return "str"
    if isinstance(a, tuple) and isinstance(b, tuple) and a[0] == b[0]:
        if a[0] in ("option", "iter"):
            return (a[0], unify(a[1], b[1]))
        if a[0] == "result" and a[2] == b[2]:
            return ("result", unify(a[1], b[1]), a[2])
        if a[0] == "tuple" and len(a[1]) == len(b[1]):
            return ("tuple", [unify(x, y) for x, y in zip(a[1], b[1])])
    if a == b:
        return a
    raise Refuse("values of type %s and %s where one type is needed" % (show(a), show(b)))


def same(a, b):
    try:
        unify(a, b)
        return True
    except Refuse:
        return False


def known(ty):
    if ty is None:
        return False
    if isinstance(ty, tuple):
        return all(known(t) for t in (ty[1] if ty[0] == "tuple" else [ty[1]]))
    return True


def unparen(e):
    while e[0] in ("paren", "ref", "deref"):
        e = e[1]
    return e


def bound_names(x, acc):
    """every name a pattern / block / arm body binds"""
    if isinstance(x, tuple):
        if x and x[0] == "pvar":
            acc.add(x[2])
        elif x and x[0] == "closure":
            return acc
        else:
            for c in x:
                bound_names(c, acc)
    elif isinstance(x, list):
        for c in x:
            bound_names(c, acc)
    return acc


def diverges(body):
    body = unparen(body)
    if body[0] == "return":
        return True
    if body[0] == "blockexpr":
        ss, tail = body[1]
        if tail is not None:
            return diverges(tail)
        return bool(ss) and ss[-1][0] == "ret"
    return False


class Cont:
    """what is done with the value of an expression.  bind(text, ty) -> Gallina text that uses the value once;
    name/rest: for a `let x = ..` continuation, the binder x and rest(ty) = the text after it (k-form binder);
    trivial: the value is the function's result (inlining duplicates nothing and captures nothing)"""
    def __init__(self, bind, name=None, rest=None, trivial=False):
        self.bind, self.name, self.rest, self.trivial = bind, name, rest, trivial


class Fn:
    def __init__(self, gname, selfty, sig, body, world):
        self.gname, self.selfty, self.body, self.world = gname, selfty, body, world
        _, self.generics, self.selfkind, params, rty = sig
        self.ntemp = 0
        self.calls = []
        self.params = [(a, self.resolve(t)) for a, t in params]
        self.state = None
        for a, t in self.params:
            if t == "Hasher":
                self.state = a
        if rty is None:
            if self.state is None:
                raise Refuse("a function without result type")
            self.rty = "unit"
        else:
            self.rty = self.resolve(rty)
        self.can_panic = isinstance(self.rty, tuple) and self.rty[0] == "result" and self.rty[2] == "Err"

    # ---- types
    def resolve(self, t):
        if t[0] == "mutref":
            r = self.resolve(t[1])
            if r not in ("Fmt", "Hasher"):
                raise Refuse("`&mut %s`" % show(r))
            return r
        if t[0] == "tuple":
            return ("tuple", [self.resolve(x) for x in t[1]])
        segs, args = t[1], t[2]
        last = segs[-1]
        if segs == ["Self"]:
            return {SPEC: "Spec", LIKE: "Like", "Element": "Elem", ERR: "Err"}[self.selfty]
        if segs == ["Self", "Err"]:
            toks = self.world.assoc.get("Err")
            if not toks:
                raise Refuse("`Self::Err` without `type Err = ..;`")
            return self.resolve(Parser(toks).type_())
        if last == "Option" and len(args) == 1:
            return ("option", self.resolve(args[0]))
        if last == "Result" and segs[:-1] in ([], ["std", "result"]) and len(args) == 2:
            e = self.resolve(args[1])
            if e != "Err":
                raise Refuse("a Result whose error type is %s" % show(e))
            return ("result", self.resolve(args[0]), "Err")
        if last == "Result" and segs[:-1] in (["fmt"], ["std", "fmt"]) and not args:
            return "FmtResult"
        if last == "Formatter" and segs[:-1] in ([], ["fmt"], ["std", "fmt"]):
            return "Fmt"
        if len(segs) == 1 and last in self.generics and not args:
            if self.generics[last] != "Hasher":
                raise Refuse("generic parameter bound by `%s`" % self.generics[last])
            return "Hasher"
        if len(segs) == 1 and last in BASE and (not args or last == SPEC):
            return BASE[last]
        raise Refuse("type `%s`" % "::".join(segs))

    # ---- names
    def fresh(self, prefix):
        self.ntemp += 1
        return "%s_%d" % (prefix, self.ntemp)

    def declare(self, env, x, ty, chars_mut=False):
        if not re.fullmatch(r"[a-z_][a-z0-9_]*", x) or x == "_" or x.endswith("_gen") or re.fullmatch(r"[tkpe]_\d+", x):
            raise Refuse("local name `%s` is not a plain lower-case identifier (or looks like a generated one)" % x)
        if not known(ty):
            raise Refuse("the type of `%s` is not determined" % x)
        if ty == "Chars" and not chars_mut:
            pass
        env = dict(env)
        c = x + "_" if x in RESERVED else x
        if any(v["coq"] == c and n != x for n, v in env.items()):
            raise Refuse("local names `%s` and `%s` collide after renaming" % (x, c))
        env[x] = {"ty": ty, "coq": c}
        return env

    def bind_pattern(self, pat, ty, env):
        """-> (Gallina pattern text for `let <pat> :=`, new env)"""
        if pat[0] == "pvar":
            env = self.declare(env, pat[2], ty)
            return env[pat[2]]["coq"], env
        if pat[0] == "pwild":
            return "_", env
        if pat[0] == "ptuple":
            if not (isinstance(ty, tuple) and ty[0] == "tuple" and len(ty[1]) == len(pat[1])):
                raise Refuse("tuple pattern for a value of type %s" % show(ty))
            parts = []
            for p, t in zip(pat[1], ty[1]):
                txt, env = self.bind_pattern(p, t, env)
                parts.append(txt)
            return "'(" + ", ".join(parts) + ")", env
        raise Refuse("pattern form %r in `let`" % pat[0])

    # ---- effects: `?`, slices, advancing a Chars iterator.  Walks the positions that are evaluated unconditionally,
    #      left to right; replaces each effect by a temporary and appends its wrapper (text -> text) to wr
    def hoist(self, e, env, wr, hint=None):
        k = e[0]
        h = lambda x: self.hoist(x, env, wr)
        if k in ("paren", "ref", "deref", "not", "neg"):
            return (k, self.hoist(e[1], env, wr, hint if k != "not" and k != "neg" else None))
        if k == "field":
            return ("field", h(e[1]), e[2])
        if k in ("bin", "cmp"):
            a = h(e[2])
            return (k, e[1], a, h(e[3]))
        if k == "logic":
            return (k, e[1], h(e[2]), e[3])
        if k == "tuple":
            return ("tuple", [h(x) for x in e[1]])
        if k == "ctor":
            return ("ctor", e[1], h(e[2]))
        if k == "struct":
            return ("struct", e[1], [(f, h(x)) for f, x in e[2]])
        if k == "call":
            return ("call", e[1], [h(x) for x in e[2]])
        if k == "write":
            return ("write", e[1], e[2], [h(x) for x in e[3]])
        if k == "mcall":
            recv = unparen(e[1])
            if e[2] in ("next", "next_back") and not e[4] and recv[0] == "var" and recv[1] in env and env[recv[1]]["ty"] == "Chars":
                x = env[recv[1]]["coq"]
                t = hint or self.fresh("t")
                env[("tmp", t)] = {"ty": ("option", "char"), "coq": t}
                wr.append(lambda rest, x=x, t=t, f="chars_" + e[2]: "let '(%s, %s) := %s %s in\n%s" % (t, x, f, x, rest))
                return ("tmp", t)
            r = h(e[1])
            return ("mcall", r, e[2], e[3], [x if x[0] == "closure" else h(x) for x in e[4]])
        if k == "index":
            base = h(e[1])
            lo = h(e[2]) if e[2] is not None else None
            hi = h(e[3]) if e[3] is not None else None
            bt, bty = self.ex(base, env)
            if bty not in TEXT:
                raise Refuse("slicing a %s" % show(bty))
            if not self.can_panic:
                raise Refuse("a slice (can panic) in a function that does not return this crate's Result")
            lt = self.ex(lo, env, "usize") if lo is not None else ("0%nat", "usize")
            ht = self.ex(hi, env, "usize") if hi is not None else ("(blen %s)" % bt, "usize")
            if lt[1] != "usize" or ht[1] != "usize":
                raise Refuse("slice bounds of type %s .. %s" % (show(lt[1]), show(ht[1])))
            t = hint or self.fresh("t")
            env[("tmp", t)] = {"ty": "str", "coq": t}
            wr.append(lambda rest, t=t, s="slice %s %s %s" % (bt, atom(lt[0]), atom(ht[0])):
                      "match %s with\n| None => EPanic\n| Some %s =>\n%s\nend" % (s, t, ind(rest)))
            return ("tmp", t)
        if k == "try":
            if not self.can_panic:
                raise Refuse("`?` in a function that does not return this crate's Result")
            inner = unparen(h(e[1]))
            t = hint or self.fresh("t")
            if inner[0] == "mcall" and inner[2] in ("ok_or", "map_err") and len(inner[4]) == 1:
                rt, rty = self.ex(inner[1], env)
                arg = inner[4][0]
                if inner[2] == "ok_or" and isinstance(rty, tuple) and rty[0] == "option":
                    ct, cty = self.ex(arg, env, "Err")
                elif inner[2] == "map_err" and isinstance(rty, tuple) and rty[0] == "result" and rty[2] == "ParseInt" \
                        and arg[0] == "closure" and arg[1] is None:
                    ct, cty = self.ex(arg[2], env, "Err")
                else:
                    raise Refuse("`.%s(..)?` on a %s" % (inner[2], show(rty)))
                if cty != "Err":
                    raise Refuse("`.%s(<%s>)?`" % (inner[2], show(cty)))
                env[("tmp", t)] = {"ty": rty[1], "coq": t}
                wr.append(lambda rest, t=t, rt=rt, ct=ct:
                          "match %s with\n| None => EErr %s\n| Some %s =>\n%s\nend" % (strip(rt), atom(ct), t, ind(rest)))
                return ("tmp", t)
            rt, rty = self.ex(inner, env)
            if not (isinstance(rty, tuple) and rty[0] == "result" and rty[2] == "Err"):
                raise Refuse("`?` on a %s" % show(rty))
            env[("tmp", t)] = {"ty": rty[1], "coq": t}
            ev = self.fresh("e")
            wr.append(lambda rest, t=t, rt=rt, ev=ev:
                      "match %s with\n| EOk %s =>\n%s\n| EErr %s => EErr %s\n| EPanic => EPanic\nend" % (strip(rt), t, ind(rest), ev, ev))
            return ("tmp", t)
        return e

    def mentions(self, e, x):
        if isinstance(e, tuple):
            if len(e) == 2 and e[0] == "var" and e[1] == x:
                return True
            return any(self.mentions(c, x) for c in e)
        if isinstance(e, list):
            return any(self.mentions(c, x) for c in e)
        return False

    def effects(self, e, env, hint=None):
        """-> (pure expression, env with the temporaries, wrap: text -> text)"""
        env2, wr = dict(env), []
        e2 = self.hoist(e, env2, wr, hint)
        if wr:
            for x, v in env.items():
                if isinstance(x, str) and v["ty"] == "Chars" and self.mentions(e2, x):
                    raise Refuse("the iterator `%s` is used after being advanced in the same statement" % x)

        def wrap(text):
            for w in reversed(wr):
                text = w(text)
            return text
        return e2, env2, wrap

    # ---- the value of an expression, passed to a continuation
    def value(self, e, env, want, k, hint=None):
        core = unparen(e)
        if core[0] == "match":
            return self.match_(core, env, want, k)
        if core[0] == "if":
            return self.if_(core, env, want, k)
        if core[0] == "blockexpr":
            if not k.trivial and bound_names(core[1], set()) & set(n for n in env if isinstance(n, str)):
                raise Refuse("a block expression that rebinds an outer local")
            return self.stmts(core[1][0], core[1][1], env, want, k)
        if core[0] == "return":
            return self.value(core[1], env, self.rty, self.retk())
        e2, env2, wrap = self.effects(e, env, hint)
        t, ty = self.ex(e2, env2, want)
        return wrap(k.bind(strip(t), ty))

    def retk(self):
        def bind(t, ty):
            if self.rty == "unit" or not same(ty, self.rty):
                raise Refuse("returns a %s, declared %s" % (show(ty), show(self.rty)))
            return t
        return Cont(bind, trivial=True)

    def branch_k(self, k, n_cont, arms_bound, env):
        """how the branches of a match / if hand over their value: (per-branch Cont, finish: (text, ty) -> text)"""
        if k.trivial:
            return k, lambda text, ty: text
        outer = set(n for n in env if isinstance(n, str)) | set(v["coq"] for n, v in env.items() if isinstance(n, str))
        if n_cont <= 1 and not (arms_bound & outer):
            return k, lambda text, ty: text
        kn = self.fresh("k")
        seen = []

        def bind(t, ty):
            seen.append(ty)
            return "%s %s" % (kn, atom(t))

        def finish(text, _ty):
            ty = None
            for s in seen:
                ty = unify(ty, s)
            if k.name is not None:
                fun = "fun (%s : %s) =>\n%s" % (k.name, coq_ty(ty), ind(k.rest(ty)))
            else:
                p = self.fresh("p")
                fun = "fun (%s : %s) =>\n%s" % (p, coq_ty(ty), ind(k.bind(p, ty)))
            return "let %s := %s in\n%s" % (kn, fun, text)
        return Cont(bind), finish

    def probe(self, bodies):
        """the type of the first branch value that can be typed without knowing what is expected (for literals / None
        in the other branches)"""
        saved, calls = self.ntemp, list(self.calls)
        found = None
        for env, b in bodies:
            b = unparen(b)
            if b[0] == "blockexpr" and not b[1][0] and b[1][1] is not None:
                b = unparen(b[1][1])
            if b[0] in ("match", "if", "blockexpr", "return", "int", "none"):
                continue
            try:
                _, ty = self.ex(b, env)
            except (Refuse, KeyError):
                continue
            if known(ty):
                found = ty
                break
        self.ntemp, self.calls = saved, calls
        return found

    def if_(self, e, env, want, k):
        _, c, b1, b2 = e
        if b2 is None:
            raise Refuse("an `if` without `else` whose value is used")
        if want is None:
            want = self.probe([(env, ("blockexpr", b1)), (env, ("blockexpr", b2))])
        c2, cenv, wrap = self.effects(c, env)
        ct, cty = self.ex(c2, cenv)
        if cty != "bool":
            raise Refuse("`if` on a %s" % show(cty))
        as_body = lambda b: ("blockexpr", b)
        n_cont = sum(not diverges(as_body(b)) for b in (b1, b2))
        kk, finish = self.branch_k(k, n_cont, bound_names([b1, b2], set()), env)
        t1 = self.stmts(b1[0], b1[1], cenv, want, kk)
        t2 = self.stmts(b2[0], b2[1], cenv, want, kk)
        nested = b2[0] == [] and b2[1] is not None and b2[1][0] == "if"
        text = "if %s then\n%s\nelse%s%s" % (strip(ct), ind(t1), " " if nested else "\n", t2 if nested else ind(t2))
        return wrap(finish(text, None))

    def match_(self, e, env, want, k):
        _, scrut, arms = e
        s2, senv, wrap = self.effects(scrut, env)
        st, sty = self.ex(s2, senv)
        if isinstance(sty, tuple) and sty[0] == "option":
            ctors = [("pnone", None, "None"), ("pctor", "Some", "Some")]
        elif isinstance(sty, tuple) and sty[0] == "result" and sty[2] == "Err":
            ctors = [("pctor", "Ok", "EOk"), ("pctor", "Err", "EErr")]
        elif isinstance(sty, tuple) and sty[0] == "result":
            ctors = [("pctor", "Ok", "Some"), ("pctor", "Err", "None")]
        else:
            raise Refuse("`match` on a %s" % show(sty))
        n_cont = sum(not diverges(a[2]) for a in arms)
        kk, finish = self.branch_k(k, n_cont, bound_names([(a[0], a[2]) for a in arms], set()), env)
        out = []
        if want is None:
            def arm_env(pat):
                if pat[0] == "pctor" and pat[2][0] == "pvar" and not (sty[0] == "result" and sty[2] != "Err" and pat[1] == "Err"):
                    try:
                        return self.declare(senv, pat[2][2], "Err" if pat[1] == "Err" else sty[1])
                    except Refuse:
                        pass
                return senv
            want = self.probe([(arm_env(a[0]), a[2]) for a in arms])
        for pk, pname, cname in ctors:
            mine = [a for a in arms if a[0][0] == "pwild" or (a[0][0] == pk and (pk == "pnone" or a[0][1] == pname))]
            if pk == "pnone" or cname == "None":
                binder, aenv = None, senv
                if any(a[0][0] == "pctor" and a[0][2][0] == "pvar" for a in mine):
                    raise Refuse("the error of `parse` is bound by a pattern")
            else:
                names = set(a[0][2][2] for a in mine if a[0][0] == "pctor" and a[0][2][0] == "pvar")
                if len(names) > 1:
                    raise Refuse("arms that bind the same value under different names (%s)" % ", ".join(sorted(names)))
                aty = sty[1] if pname != "Err" else "Err"
                if names:
                    aenv = self.declare(senv, list(names)[0], aty)
                    binder = aenv[list(names)[0]]["coq"]
                else:
                    binder, aenv = "_", senv
            text = None
            for pat, guard, body in reversed(mine):
                if guard is None:
                    text = self.value(body, aenv, want, kk)        # arms after an unguarded one are unreachable
                else:
                    if text is None:
                        raise Refuse("a guarded arm that is not followed by an unguarded arm for the same constructor")
                    gt, gty = self.ex(guard, aenv)
                    if gty != "bool":
                        raise Refuse("guard of type %s" % show(gty))
                    text = "if %s then\n%s\nelse\n%s" % (strip(gt), ind(self.value(body, aenv, want, kk)), ind(text))
            if text is None:
                raise Refuse("`match` without an arm for %s" % (pname or "None"))
            out.append("| %s%s =>\n%s" % (cname, "" if binder is None else " " + binder, ind(text)))
        if ctors[0][2] == "EOk":
            if not self.can_panic:
                raise Refuse("`match` on this crate's Result in a function that cannot propagate a panic")
            out.append("| EPanic => EPanic")
        return wrap(finish("match %s with\n%s\nend" % (strip(st), "\n".join(out)), None))

    # ---- statements
    def stmts(self, ss, tail, env, want, k):
        if not ss:
            if tail is None:
                if self.rty == "unit" and k.trivial:
                    return env[self.state]["coq"]
                raise Refuse("a block that ends without a value")
            return self.value(tail, env, want, k)
        s, more = ss[0], ss[1:]
        again = lambda env2: self.stmts(more, tail, env2, want, k)
        if s[0] == "let":
            _, pat, ty, e = s
            wty = self.resolve(ty) if ty is not None else None

            def bound(tyv):
                if wty is not None and not same(wty, tyv):
                    raise Refuse("let: declared %s, initialiser has %s" % (show(wty), show(tyv)))
                return unify(wty, tyv)

            def bind(t, tyv):
                ptxt, env2 = self.bind_pattern(pat, bound(tyv), env)
                if ptxt == t:                           # the effect's temporary already carries the name
                    return again(env2)
                return "let %s := %s in\n%s" % (ptxt, t, again(env2))
            name = rest = hint = None
            if pat[0] == "pvar":
                if pat[2] in RESERVED or not re.fullmatch(r"[a-z_][a-z0-9_]*", pat[2]):
                    hint = None
                else:
                    hint = pat[2]
                name = pat[2] + "_" if pat[2] in RESERVED else pat[2]
                rest = lambda tyv: again(self.bind_pattern(pat, bound(tyv), env)[1])
            if pat[0] == "pvar" and pat[1]:
                init = unparen(e)
                if not (init[0] == "mcall" and init[2] == "chars"):
                    raise Refuse("`let mut %s` (only an iterator `s.chars()` may be mutable)" % pat[2])
            return self.value(e, env, wty, Cont(bind, name, rest), hint)
        if s[0] == "ret":
            if more or tail is not None:
                raise Refuse("statements after `return`")
            return self.value(s[1], env, self.rty, self.retk())
        if s[0] == "expr":
            e = unparen(s[1])
            if e[0] == "if":
                _, c, b1, b2 = e
                d1 = diverges(("blockexpr", b1))
                d2 = b2 is not None and diverges(("blockexpr", b2))
                if not d1 and not d2:
                    raise Refuse("an `if` statement none of whose branches ends in `return`")
                if b2 is not None and not (d1 and d2):
                    raise Refuse("an `if`/`else` statement only one of whose branches returns")
                if d1 and d2 and (more or tail is not None):
                    raise Refuse("statements after an `if` both of whose branches return")
                c2, cenv, wrap = self.effects(c, env)
                ct, cty = self.ex(c2, cenv)
                if cty != "bool":
                    raise Refuse("`if` on a %s" % show(cty))
                never = Cont(lambda t, ty: (_ for _ in ()).throw(Refuse("a branch that should return yields a value")))
                t1 = self.stmts(b1[0], b1[1], cenv, None, never)
                t2 = self.stmts(b2[0], b2[1], cenv, None, never) if b2 is not None else again(cenv)
                return wrap("if %s then\n%s\nelse\n%s" % (strip(ct), ind(t1), t2))
            if e[0] == "mcall" and e[2] == "hash" and len(e[4]) == 1:
                arg = unparen(e[4][0])
                if self.state is None or arg != ("var", self.state) or self.state not in env:
                    raise Refuse("`.hash(..)` whose argument is not the `&mut H` parameter")
                st = env[self.state]["coq"]
                vt, vty = self.ex(e[1], env)
                if vty in TEXT:
                    val = "hash_str %s %s" % (atom(vt), st)
                elif vty == "u16":
                    val = "hash_u16 %s %s" % (atom(vt), st)
                elif vty == "Elem":
                    self.need("element_hash")
                    val = "element_hash_gen %s %s %s" % (PRE, atom(vt), st)
                else:
                    raise Refuse("`.hash(..)` on a %s" % show(vty))
                return "let %s := %s in\n%s" % (st, val, again(env))
            raise Refuse("expression statement `%s ..;`" % e[0])
        raise Refuse("statement form %r" % s[0])

    def need(self, name):
        if name == self.gname:
            raise Refuse("recursive call")
        sig = self.world.sig(name)
        if name not in self.calls:
            self.calls.append(name)
        return sig

    # ---- pure expressions: (text, type); `want` types literals, `None`, `.into()`, Ok / Err
    def pair(self, l, r, env):
        if unparen(l)[0] == "int":
            b = self.ex(r, env)
            return self.ex(l, env, b[1]), b
        a = self.ex(l, env)
        return a, self.ex(r, env, a[1])

    def bounded(self, e, env):
        e = unparen(e)
        if e[0] == "int":
            return int(e[1]) <= 100000
        if e[0] in ("var", "tmp"):
            key = e[1] if e[0] == "var" else ("tmp", e[1])
            return key in env and env[key]["ty"] == "usize" and \
                not (e[0] == "var" and any(a == e[1] for a, _ in self.params))
        if e[0] == "mcall" and e[2] == "len":
            return True
        if e[0] == "bin" and e[1] == "+":
            return self.bounded(e[2], env) and self.bounded(e[3], env)
        return False

    def ex(self, e, env, want=None):
        k = e[0]
        if k in ("paren", "ref", "deref"):
            return self.ex(e[1], env, want)
        if k == "int":
            ty = {"usize": "usize", "u16": "u16", "u8": "u8"}.get(e[2] or want)
            if e[2] and want in ("usize", "u16", "u8") and e[2] != want:
                raise Refuse("literal %s%s where a %s is expected" % (e[1], e[2], want))
            if ty is None:
                raise Refuse("integer literal %s where no usize / u16 / u8 is expected" % e[1])
            if ty == "usize":
                if int(e[1]) > 100000:
                    raise Refuse("usize literal %s is too large for a unary nat" % e[1])
                return "%s%%nat" % e[1], ty
            if int(e[1]) >= (65536 if ty == "u16" else 256):
                raise Refuse("literal %s out of range for %s" % (e[1], ty))
            return "%s%%N" % e[1], ty
        if k == "char":
            return "%d%%N" % e[1], "char"
        if k == "strlit":
            return "[%s]" % "; ".join("%d%%N" % c for c in unescape(e[1])), "str"
        if k == "bool":
            return e[1], "bool"
        if k == "none":
            inner = want[1] if isinstance(want, tuple) and want[0] == "option" else None
            return "None", ("option", inner)
        if k == "tmp":
            return e[1], env[("tmp", e[1])]["ty"]
        if k == "var":
            if e[1] in env:
                return env[e[1]]["coq"], env[e[1]]["ty"]
            if e[1] == "PERIODIC_TABLE" and "PERIODIC_TABLE" in self.world.uses:
                return "PERIODIC_TABLE", "Table"
            raise Refuse("unknown name `%s`" % e[1])
        if k == "path":
            segs = e[1]
            owner = {"Self": self.selfty}.get(segs[0], segs[0])
            if len(segs) == 2 and owner == ERR and segs[1] in ("UnclosedIsotope", "UnknownElement"):
                return segs[1], "Err"
            if len(segs) == 2 and owner == LIKE and segs[1] in ("Yes", "No", "Maybe"):
                return "Like" + segs[1], "Like"
            raise Refuse("path `%s`" % "::".join(segs))
        if k == "ctor":
            if e[1] == "Some":
                t, ty = self.ex(e[2], env, want[1] if isinstance(want, tuple) and want[0] == "option" else None)
                return "(Some %s)" % atom(t), ("option", ty)
            w = want if isinstance(want, tuple) and want[0] == "result" and want[2] == "Err" else None
            if e[1] == "Ok":
                t, ty = self.ex(e[2], env, w[1] if w else None)
                return "(EOk %s)" % atom(t), ("result", ty, "Err")
            t, ty = self.ex(e[2], env, "Err")
            if ty != "Err":
                raise Refuse("Err(<%s>)" % show(ty))
            return "(EErr %s)" % atom(t), ("result", w[1] if w else None, "Err")
        if k == "tuple":
            ws = want[1] if isinstance(want, tuple) and want[0] == "tuple" and len(want[1]) == len(e[1]) else [None] * len(e[1])
            parts = [self.ex(x, env, w) for x, w in zip(e[1], ws)]
            return "(%s)" % ", ".join(strip(t) for t, _ in parts), ("tuple", [ty for _, ty in parts])
        if k == "struct":
            if {"Self": self.selfty}.get(e[1], e[1]) != SPEC or sorted(f for f, _ in e[2]) != ["element", "isotope"]:
                raise Refuse("struct literal `%s {%s}`" % (e[1], ", ".join(f for f, _ in e[2])))
            d = dict(e[2])
            a, ta = self.ex(d["element"], env)
            b, tb = self.ex(d["isotope"], env, "u16")
            if ta != "Elem" or tb != "u16":
                raise Refuse("%s { element: <%s>, isotope: <%s> }" % (SPEC, show(ta), show(tb)))
            return "(mkSpec %s %s)" % (atom(a), atom(b)), "Spec"
        if k == "not":
            t, ty = self.ex(e[1], env)
            if ty != "bool":
                raise Refuse("`!` on a %s" % show(ty))
            return "(negb %s)" % atom(t), "bool"
        if k == "neg":
            raise Refuse("unary minus")
        if k == "logic":
            a, ta = self.ex(e[2], env)
            b, tb = self.ex(e[3], env)
            if ta != "bool" or tb != "bool":
                raise Refuse("`%s` on %s and %s" % (e[1], show(ta), show(tb)))
            return "(%s %s %s)" % ("orb" if e[1] == "||" else "andb", atom(a), atom(b)), "bool"
        if k == "bin":
            (a, ta), (b, tb) = self.pair(e[2], e[3], env)
            if ta == "usize" and tb == "usize" and e[1] == "+" and unparen(e[3])[0] == "int" and self.bounded(e[2], env):
                return "(Nat.add %s %s)" % (atom(a), atom(b)), "usize"
            raise Refuse("arithmetic `<%s> %s <%s>` (only <usize bounded by a string length> + <literal>)" % (show(ta), e[1], show(tb)))
        if k == "cmp":
            if unparen(e[2])[0] == "int" and unparen(e[3])[0] == "int":
                raise Refuse("comparison of two literals")
            (a, ta), (b, tb) = self.pair(e[2], e[3], env)
            a, b = atom(a), atom(b)
            op = e[1]
            if op in ("==", "!="):
                if ta in TEXT and tb in TEXT:
                    t = "(str_eqb %s %s)" % (a, b)
                elif ta == tb and ta in ("char", "u16", "u8"):
                    t = "(N.eqb %s %s)" % (a, b)
                elif ta == tb == "usize":
                    t = "(Nat.eqb %s %s)" % (a, b)
                elif ta == tb == "bool":
                    t = "(Bool.eqb %s %s)" % (a, b)
                elif ta == tb == "Elem":
                    self.need("element_eq")
                    t = "(element_eq_gen %s %s %s)" % (PRE, a, b)
                elif ta == tb == "Spec":
                    self.need("eq")
                    t = "(eq_gen %s %s %s)" % (PRE, a, b)
                elif ta == "Spec" and tb in TEXT:
                    self.need("eq_str")
                    t = "(eq_str_gen %s %s %s)" % (PRE, a, b)
                else:
                    raise Refuse("`%s` on %s and %s" % (op, show(ta), show(tb)))
                return (t if op == "==" else "(negb %s)" % t), "bool"
            if ta == tb and ta in ("char", "u16", "u8", "usize"):
                m = "Nat" if ta == "usize" else "N"
                return {"<": "(%s.ltb %s %s)" % (m, a, b), "<=": "(%s.leb %s %s)" % (m, a, b),
                        ">": "(%s.ltb %s %s)" % (m, b, a), ">=": "(%s.leb %s %s)" % (m, b, a)}[op], "bool"
            raise Refuse("`%s` on %s and %s" % (op, show(ta), show(tb)))
        if k == "field":
            a, ta = self.ex(e[1], env)
            a = atom(a)
            table = {("Spec", "element"): ("(sp_element %s)", "Elem"), ("Spec", "isotope"): ("(sp_isotope %s)", "u16"),
                     ("Elem", "symbol"): ("(codes (sym %s))", "String"), ("Elem", "isotopes"): ("(isos %s)", "Isos"),
                     ("Elem", "most_abundant_isotope"): ("(mai %s)", "u16")}
            if (ta, e[2]) not in table:
                raise Refuse("field `.%s` of a %s" % (e[2], show(ta)))
            return table[(ta, e[2])][0] % a, table[(ta, e[2])][1]
        if k == "call":
            return self.call(e, env, want)
        if k == "mcall":
            return self.mcall(e, env, want)
        if k == "write":
            return self.write(e, env)
        if k == "if":
            _, c, b1, b2 = e
            if b2 is None or b1[0] or b2[0] or b1[1] is None or b2[1] is None:
                raise Refuse("an `if` with statements in its branches inside an expression")
            ct, cty = self.ex(c, env)
            t1, ty1 = self.ex(b1[1], env, want)
            t2, ty2 = self.ex(b2[1], env, want or ty1)
            if cty != "bool":
                raise Refuse("`if` on a %s" % show(cty))
            return "(if %s then %s else %s)" % (strip(ct), strip(t1), strip(t2)), unify(ty1, ty2)
        if k in ("match", "blockexpr", "return"):
            raise Refuse("`%s` inside an expression (only as the value of a `let`, an arm or the function)" % k)
        if k == "try":
            raise Refuse("`?` in a position that is not evaluated unconditionally")
        if k == "index":
            raise Refuse("a slice in a position that is not evaluated unconditionally")
        if k == "closure":
            raise Refuse("a closure that is not the argument of `all` / `map_err`")
        raise Refuse("expression form %r" % k)

    def call(self, e, env, want):
        path, args = e[1], e[2]
        owner = {"Self": self.selfty}.get(path[0], path[0])
        if len(path) == 2 and owner == SPEC and path[1] in ("new", "parse", "parse_with", "quick_check_str"):
            name = path[1]
        elif len(path) == 2 and owner == LIKE and path[1] == "from":
            name = "like_from"
        else:
            raise Refuse("call of `%s`" % "::".join(path))
        sig = self.need(name)
        if sig["selfkind"] is not None or len(sig["params"]) != len(args):
            raise Refuse("call of %s with %d arguments" % (name, len(args)))
        out = []
        for a, (_, pt) in zip(args, sig["params"]):
            t, ty = self.ex(a, env, pt)
            if not same(ty, pt):
                raise Refuse("argument of %s has type %s, the parameter has %s" % (name, show(ty), show(pt)))
            out.append(atom(t))
        return "(%s_gen %s %s)" % (name, PRE, " ".join(out)), sig["rty"]

    def mcall(self, e, env, want):
        _, recv, m, turbo, args = e
        a, ta = self.ex(recv, env)
        a = atom(a)
        n = len(args)

        def arg(i, w=None):
            t, ty = self.ex(args[i], env, w)
            return atom(t), ty

        def char_arg():
            t, ty = arg(0)
            if ty != "char":
                raise Refuse("`.%s(<%s>)` (only a char pattern)" % (m, show(ty)))
            return t
        if ta in TEXT:
            if m == "len" and n == 0:
                return "(blen %s)" % a, "usize"
            if m == "is_empty" and n == 0:
                return "(Nat.eqb (blen %s) 0%%nat)" % a, "bool"
            if m == "find" and n == 1:
                return "(str_find %s %s)" % (char_arg(), a), ("option", "usize")
            if m == "strip_suffix" and n == 1:
                return "(strip_suffix_char %s %s)" % (char_arg(), a), ("option", "str")
            if m == "ends_with" and n == 1:
                return "(match strip_suffix_char %s %s with Some _ => true | None => false end)" % (char_arg(), a), "bool"
            if m == "bytes" and n == 0:
                return "(str_bytes %s)" % a, ("iter", "u8")
            if m == "chars" and n == 0:
                return a, "Chars"
            if m == "parse" and n == 0:
                if turbo is None or self.resolve(turbo) != "u16":
                    raise Refuse("`parse` without `::<u16>`")
                return "(parse_u16 %s)" % a, ("result", "u16", "ParseInt")
            if m in ("as_str", "as_ref", "borrow") and n == 0:
                return a, "str"
        if isinstance(ta, tuple) and ta[0] == "iter" and m == "all" and n == 1 and args[0][0] == "closure" and args[0][1]:
            x = args[0][1]
            cenv = self.declare(env, x, ta[1])
            b, tb = self.ex(args[0][2], cenv)
            if tb != "bool":
                raise Refuse("`all` with a closure to %s" % show(tb))
            return "(forallb (fun %s => %s) %s)" % (cenv[x]["coq"], strip(b), a), "bool"
        if ta in ("u8", "char") and n == 0:
            if m == "is_ascii_digit":
                return "(is_digit %s)" % a, "bool"
            if m == "is_ascii_alphabetic":
                return "(is_alpha %s)" % a, "bool"
            if m == "is_alphabetic" and ta == "char":
                return "(is_alphabetic uni_alphabetic %s)" % a, "bool"
        if isinstance(ta, tuple) and ta[0] == "option":
            if m == "unwrap_or" and n == 1:
                d, td = arg(0, ta[1])
                return "(unwrap_or %s %s)" % (a, d), unify(ta[1], td)
            if m == "ok_or" and n == 1:
                c, tc = arg(0, "Err")
                if tc != "Err":
                    raise Refuse("ok_or(<%s>)" % show(tc))
                v = self.fresh("t")
                return "(match %s with Some %s => EOk %s | None => EErr %s end)" % (a, v, v, c), ("result", ta[1], "Err")
            if m in ("is_some", "is_none") and n == 0:
                return "(match %s with Some _ => %s | None => %s end)" % ((a,) + (("true", "false") if m == "is_some" else ("false", "true"))), "bool"
        if isinstance(ta, tuple) and ta[0] == "result" and ta[2] == "ParseInt":
            if m == "map_err" and n == 1 and args[0][0] == "closure" and args[0][1] is None:
                c, tc = self.ex(args[0][2], env, "Err")
                if tc != "Err":
                    raise Refuse("map_err to %s" % show(tc))
                v = self.fresh("t")
                return "(match %s with Some %s => EOk %s | None => EErr %s end)" % (a, v, v, atom(c)), ("result", ta[1], "Err")
            if m == "ok" and n == 0:
                return a, ("option", ta[1])
            if m in ("is_ok", "is_err") and n == 0:
                return "(match %s with Some _ => %s | None => %s end)" % ((a,) + (("true", "false") if m == "is_ok" else ("false", "true"))), "bool"
        if ta == "Table" and m == "get" and n == 1:
            if not self.world.table_get_ok:
                raise Refuse("PeriodicTable::get is not `self.elements.get(symbol)`")
            s, ts = arg(0)
            if ts not in TEXT:
                raise Refuse("PeriodicTable::get(<%s>)" % show(ts))
            return "(tbl_find %s %s)" % (s, a), ("option", "Elem")
        if ta == "Isos" and m == "contains_key" and n == 1:
            kx, tk = arg(0, "u16")
            if tk != "u16":
                raise Refuse("contains_key(<%s>)" % show(tk))
            return "(assoc_mem %s %s)" % (kx, a), "bool"
        if ta == "bool" and m == "into" and n == 0:
            if want != "Like":
                raise Refuse("`.into()` where the expected type is %s" % show(want))
            self.need("like_from")
            return "(like_from_gen %s %s)" % (PRE, a), "Like"
        if ta == "Fmt" and m == "write_str" and n == 1:
            s, ts = arg(0)
            if ts not in TEXT:
                raise Refuse("write_str(<%s>)" % show(ts))
            return "(%s ++ %s)%%list" % (a, s), "FmtResult"
        if m in ("next", "next_back") and ta == "Chars":
            raise Refuse("the iterator is advanced in a position that is not evaluated first / unconditionally")
        raise Refuse("method `.%s(..)` on a %s" % (m, show(ta)))

    def write(self, e, env):
        _, f, fmt, args = e
        ft, fty = self.ex(f, env)
        if fty != "Fmt":
            raise Refuse("write! to a %s" % show(fty))
        pieces, lit, i, na = [], [], 0, 0
        cps = unescape(fmt)
        while i < len(cps):
            c = cps[i]
            if c in (123, 125):
                if i + 1 < len(cps) and cps[i + 1] == c:
                    lit.append(c); i += 2
                    continue
                if c == 125 or i + 1 >= len(cps) or cps[i + 1] != 125:
                    raise Refuse("format string %r (only `{}` placeholders)" % fmt)
                if lit:
                    pieces.append("[%s]" % "; ".join("%d%%N" % x for x in lit)); lit = []
                if na >= len(args):
                    raise Refuse("format string %r has more placeholders than arguments" % fmt)
                t, ty = self.ex(args[na], env)
                na += 1
                if ty in TEXT:
                    pieces.append(atom(t))
                elif ty == "u16":
                    pieces.append("show_N %s" % atom(t))
                else:
                    raise Refuse("Display of a %s in write!" % show(ty))
                i += 2
            else:
                lit.append(c); i += 1
        if lit:
            pieces.append("[%s]" % "; ".join("%d%%N" % x for x in lit))
        if na != len(args):
            raise Refuse("format string %r has fewer placeholders than arguments" % fmt)
        return "(%s ++ (%s))%%list" % (atom(ft), " ++ ".join(pieces) if pieces else "[]"), "FmtResult"

    # ---- the definition
    def translate(self):
        env, binders = {}, []
        if self.selfkind is not None:
            sty = {SPEC: "Spec", "Element": "Elem", LIKE: "Like", ERR: "Err"}[self.selfty]
            env["self"] = {"ty": sty, "coq": "self"}
            binders.append("(self : %s)" % coq_ty(sty))
        for a, ty in self.params:
            env = self.declare(env, a, ty)
            binders.append("(%s : %s)" % (env[a]["coq"], coq_ty(ty)))
        text = self.stmts(self.body[0], self.body[1], env, self.rty if self.rty != "unit" else None, self.retk())
        rty = "hasher" if self.rty == "unit" else coq_ty(self.rty)
        return "Definition %s_gen (PERIODIC_TABLE : ptable) (uni_alphabetic : char -> bool) %s : %s :=\n%s." % (
            self.gname, " ".join(binders), rty, ind(text))


# ------------------------------------------------------------------ the functions of the files, translated on demand
class World:
    def __init__(self, fns, assoc, uses):
        self.src, self.assoc, self.uses = fns, assoc, uses
        self.done, self.skipped, self.emitted, self.active = {}, {}, [], []
        self.table_get_ok = False
        if "table_get" in fns:
            try:
                body = Parser([("op", "{")] + fns["table_get"][1] + [("op", "}")]).block()
                sig = Parser(fns["table_get"][0]).signature()
                self.table_get_ok = body == ([], ("mcall", ("field", ("var", "self"), "elements"), "get", None, [("var", sig[3][0][0])])) \
                    and len(sig[3]) == 1
            except (Refuse, IndexError):
                pass

    def attempt(self, name):
        if name in self.done or name in self.skipped:
            return
        if name not in self.src:
            self.skipped[name] = "no such function in the source"
            return
        if name in self.active:
            raise Refuse("recursive call cycle through `%s`" % name)
        self.active.append(name)
        try:
            head, body, selfty = self.src[name]
            sig = Parser(head).signature()
            ast = Parser([("op", "{")] + body + [("op", "}")]).block()
            f = Fn(name, selfty, sig, ast, self)
            text = f.translate()
            self.done[name] = {"selfkind": f.selfkind, "params": f.params, "rty": f.rty, "text": text, "calls": f.calls}
            self.emitted.append(name)          # callees were appended while translating the body: callee first
        except Refuse as e:
            self.skipped[name] = str(e)
        finally:
            self.active.pop()

    def sig(self, name):
        self.attempt(name)
        if name in self.skipped:
            raise Refuse("uses `%s`, which is skipped (%s)" % (name, self.skipped[name]))
        return self.done[name]


def translate():
    world = World(*file_structure())
    for name in WANTED:
        world.attempt(name)
    out = ["(* GENERATED by tools/gen_espec.py from src/element_specification.rs (element_eq / element_hash: src/element.rs) -- do not edit *)",
           "From Coq Require Import List ZArith NArith Bool Arith.",
           "From CE Require Import Str TableTypes TableModel Comp ESpec ImpE.",
           "Import ListNotations.", "Local Open Scope list_scope.", ""]
    for n in world.emitted:
        out.append(world.done[n]["text"])
        out.append("")
    q = lambda names: "[" + "; ".join('"%s"' % n for n in names) + "]%string"
    out.append("(* what the translator did with the functions it was asked for *)")
    out.append("From Coq Require Import String.")
    out.append("Definition espec_gen_translated : list string := %s." % q([n for n in WANTED if n in world.done]))
    out.append("Definition espec_gen_skipped : list string := %s." % q([n for n in WANTED if n in world.skipped]))
    return "\n".join(out) + "\n", world


# ------------------------------------------------------------------ which ties of ESpecTie.v still hold
def check_ties(world):
    """compile ESpecTie.v block by block: common text + the block of one function + the blocks it needs"""
    text = open(TIE, encoding="utf-8").read()
    blocks, common, pos = {}, [], 0
    for m in re.finditer(r"\(\* BEGIN TIE (\w+)(?: \(needs: ([\w ]*)\))? \*\)\n(.*?)\(\* END TIE \1 \*\)\n", text, re.S):
        common.append(text[pos:m.start()])
        common.append("@@%s@@" % m.group(1))
        blocks[m.group(1)] = ((m.group(2) or "").split(), m.group(3))
        pos = m.end()
    common.append(text[pos:])

    def closure(n, acc):
        for d in blocks[n][0]:
            if d in blocks and d not in acc:
                closure(d, acc)
        if n not in acc:
            acc.append(n)
        return acc
    run = lambda args, cwd: subprocess.run(args, cwd=cwd, stdout=subprocess.PIPE, stderr=subprocess.STDOUT, universal_newlines=True)
    for f in ("model/ImpE.v", "gen/ESpecGen.v"):
        r = run(["coqc", "-Q", ".", "CE", "-w", "-notation-overridden", f], COQ)
        if r.returncode != 0:
            print("tie check: %s does not compile\n%s" % (f, r.stdout))
            return 1
    bad = 0
    with tempfile.TemporaryDirectory() as tmp:
        for n in WANTED:
            if n in world.skipped:
                print("tie %s: SKIPPED (%s)" % (n, world.skipped[n]))
                bad += 1
                continue
            if n not in blocks:
                print("tie %s: no block in ESpecTie.v" % n)
                bad += 1
                continue
            keep = closure(n, [])
            body = "".join(c if not c.startswith("@@") else (blocks[c[2:-2]][1] if c[2:-2] in keep else "") for c in common)
            path = os.path.join(tmp, "ESpecTie_%s.v" % n)
            open(path, "w").write(body)
            r = run(["coqc", "-Q", COQ, "CE", "-w", "-notation-overridden", path], tmp)
            if r.returncode == 0:
                print("tie %s: OK" % n)
            else:
                bad += 1
                msg = [l for l in r.stdout.splitlines() if l.strip()]
                print("tie %s: FAILED (%s)" % (n, " | ".join(msg[-3:])[:300]))
    return 1 if bad else 0


def main():
    try:
        text, world = translate()
    except (Structure, OSError) as e:
        print("gen_espec: refused: %s" % e)
        return 3
    old = open(OUT).read() if os.path.exists(OUT) else None
    if old != text:
        open(OUT, "w").write(text)
    for n in WANTED:
        if n in world.skipped:
            print("skipped %s: %s" % (n, world.skipped[n]))
    print("gen_espec: %d functions translated (%s), %d skipped%s" % (
        len(world.emitted), ", ".join(world.emitted), len([n for n in WANTED if n in world.skipped]),
        "" if old == text else " [rewritten]"))
    if "--ties" in sys.argv[1:]:
        return check_ties(world)
    return 0


if __name__ == "__main__":
    sys.exit(main())
