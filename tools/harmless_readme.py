#!/usr/bin/env python3
"""Append / refresh the section "Results under the current checks" of seeded/harmless/README.md from seeded/harmless/result.json
(written by tools/run_harmless.py)."""
import json, os, re
V = os.path.dirname(os.path.dirname(os.path.abspath(__file__)))
H = os.path.join(V, "seeded", "harmless")
res = json.load(open(os.path.join(H, "result.json")))
MARK = "## Results under the current checks"
rows, alarms, runs = [], [], 0
for name in sorted(res, key=lambda n: int(re.match(r"H(\d+)", n).group(1))):
    r = res[name]
    cells = []
    for c, v in r.get("checks", {}).items():
        runs += 1
        ties = ", ".join("%s: %s" % kv for kv in sorted((v.get("source_ties") or {}).items()))
        if v["quiet"]:
            cells.append("%s quiet%s" % (c, " (%s)" % ties if ties and any(x != "established" for x in (v.get("source_ties") or {}).values()) else ""))
        else:
            alarms.append((name, c))
            cells.append("**%s `no-failing-input-found`** (%s)" % (c, ties))
    rows.append("| %s | %s |" % (name, "; ".join(cells)))
names = sorted({a[0] for a in alarms}, key=lambda n: int(re.match(r"H(\d+)", n).group(1)))
text = [MARK, "",
        "`tools/run_harmless.py` applies each rewrite, runs every quick check that evaluates a tie or a differential run on a touched file, and reverts. "
        "Since a source-level tie lemma that is false of the translated source is reported when the deeper differential search finds no failing input "
        "(DESIGN 2.3), a behaviour-preserving rewrite can be reported as `VIOLATION ... no-failing-input-found` -- never with a failing input. "
        "Last run: %d rewrites, %d check runs, %d of them reported, all `no-failing-input-found`, from %d rewrites (%s). "
        "The tie outcome is given where it is not `established`: *field-level* = re-proved over every ordered field; *unavailable* = the rewrite left the "
        "translator's subset (or a tie it builds on is not established); *mismatch* = translated, and a tie lemma relevant to the property is false of it."
        % (len(res), runs, len(alarms), len(names), ", ".join(names) if names else "none"), "",
        "| patch | checks |", "|-------|--------|"] + rows + [""]
p = os.path.join(H, "README.md")
s = open(p).read()
if MARK in s:
    s = s[:s.index(MARK)]
open(p, "w").write(s.rstrip("\n") + "\n\n" + "\n".join(text))
print("%d rewrites, %d runs, %d reported: %s" % (len(res), runs, len(alarms), alarms))
