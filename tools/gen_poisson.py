#!/usr/bin/env python3
"""Translate the functions of src/isotopic_pattern/poisson.rs (imperative Rust: mutable f64 locals, `for` loops over
usize ranges, early `return`, a Vec<f64> built by `push`, the closing `for_each` that pushes Peaks) into a SHALLOW
embedding in Gallina over the numeric interface `Num` -> coq/gen/PoissonGen.v.  coq/proofs/PoissonTie.v then proves
that the hand-written model coq/model/Poisson.v computes exactly what this translation computes.

The translation is a direct transcription in state-passing style (combinators: coq/model/Imp.v):
  * `let x = e;` / `let mut x = e;`        ->  let x := e in ...
  * `x op= e;` / `x = e;` (x: mut f64)     ->  let x := op N x e in ...          (Gallina shadowing = the new value)
  * `v.push(e);`                           ->  let v := v ++ [e] in ...
  * `if c { A } else { B }` (no return)    ->  let '(x1,..,xk) := (if c then A;(x1,..,xk) else B;(x1,..,xk)) in ...
                                               where x1..xk are the outer locals A or B assign, in declaration order
  * `if c { ...; return e; }` rest         ->  if c then ...; RET e else rest    (the branch must END in return)
  * `for i in a..b { body }` rest          ->  let '(xs) := for_range a b (fun i '(xs) => body; (xs)) (xs) in rest
  * the same with a `return` in the body   ->  match for_range_ret a b (fun i '(xs) => body; inl (xs)) (xs) with
                                               | inr ret_val => ret_val | inl (xs) => rest end   (return e = inr e)
  * `(a..b).for_each(|i| { body });`       ->  as `for i in a..b { body }` (no return allowed inside the closure)
  * f64 -> F, usize -> nat, i32 -> Z, Vec<f64> -> list F, PeakList/Vec<Peak> -> list peak, `i as f64` ->
    of_Z N (Z.of_nat i) (usize) / of_Z N z (i32), `v[i]` -> nth i v (zero N), literal 1.0 -> one N, 0.0 -> zero N,
    other float literals as in gen_src.py, `Peak { mz: a, intensity: b }` -> mkPeak a b.
Everything else is REFUSED: the translator prints the offending construct and exits with status 3; it never guesses.
See GRAMMAR below for the exact subset.

  python3 tools/gen_poisson.py                          regenerate coq/gen/SrcGen.v and coq/gen/PoissonGen.v
  python3 tools/gen_poisson.py --ties                   additionally compile coq/proofs/PoissonTie.v block by block
                                                        (`(* BEGIN TIE f (needs: ..) *) .. (* END TIE f *)`) and print
                                                        `tie <f>: OK | FAILED (..) | SKIPPED (..)` per function
  python3 tools/gen_poisson.py --ties --field           the same in FIELD MODE (tools/tie_modes.py, coq/model/TieTac.v)
  --only=a,b                                            (with --ties) only the named functions
  The output is deterministic and is rewritten only when it changes.

GRAMMAR (after cutting the file at `#[cfg(test)]`; comments are skipped)
  file    := item*
  item    := 'use' path ';'                                   (recorded: a name must be imported to be used)
           | ['pub'] 'const' NAME ':' 'f64' '=' float ';'     (handled by gen_src.py -> SrcGen.v; referenced as NAME_gen)
           | ['pub'] 'fn' name '(' [param (',' param)* [',']] ')' '->' type block
  param   := name ':' type          type := 'f64' | 'usize' | 'i32' | 'PeakList'
  block   := '{' stmt* [expr] '}'   (a tail expression only as the function result or in an if-EXPRESSION branch)
  stmt    := 'let' ['mut'] name [':' type] '=' rhs ';'
           | name ('='|'+='|'-='|'*='|'/=') expr ';'
           | name '.' 'push' '(' expr ')' ';'
           | 'if' expr block ['else' block]
           | 'return' expr ';'
           | 'for' name 'in' arith '..' arith block
           | '(' arith '..' arith ')' '.' 'for_each' '(' '|' name '|' block ')' ';'
  rhs     := expr | 'PeakList' '::' 'new' '(' ')' | 'Vec' '::' 'new' '(' ')' | 'Vec' '::' 'with_capacity' '(' expr ')'
  expr    := arith [('=='|'!='|'<'|'<='|'>'|'>=') arith]
  arith   := term (('+'|'-') term)*     term := cast (('*'|'/') cast)*     cast := unary ('as' 'f64')*
  unary   := '-' unary | postfix
  postfix := primary ('.' ('abs'|'is_finite'|'is_infinite') '(' ')' | '[' expr ']')*
  primary := float | int | name | '(' expr ')' | name '(' [expr (',' expr)* [',']] ')'
           | 'if' expr '{' expr '}' 'else' '{' expr '}'
           | 'Peak' '{' field (',' field)* [','] '}'          field := name [':' expr]
Typing is checked (f64 / usize / i32 / bool / Peak / Vec<f64> / Vec<Peak>); arithmetic is f64 only (usize and i32
expressions are names and literals: no integer arithmetic, whose overflow behaviour Gallina's nat/Z do not have);
no shadowing, no nested loops, no `return` inside a for_each closure, loops and statement-ifs must change at
least one outer `mut` local, an `if` that contains `return` must have a branch that ends in `return`, statements
after `return` are refused."""
import os, re, sys
sys.path.insert(0, os.path.dirname(os.path.abspath(__file__)))
import gen_src
from gen_src import Refuse, float_lit

REPO = os.environ.get("VERIF_REPO", "/repo")
OUT = os.path.join(os.path.dirname(os.path.dirname(os.path.abspath(__file__))), "coq", "gen", "PoissonGen.v")
WANTED = ["poisson_approximation_impl", "poisson_approximate_n_peaks_of_impl", "poisson_approximation",
          "poisson_approximate_n_peaks_of"]

TOK = re.compile(r"\s*(?:(//[^\n]*|/\*.*?\*/)"
                 r"|(\d[\d_]*\.\d[\d_]*(?:[eE][+-]?\d+)?(?:_?f64)?|\d[\d_]*[eE][+-]?\d+)"
                 r"|(\d[\d_]*)"
                 r"|([A-Za-z_][A-Za-z0-9_]*)"
                 r"|(->|=>|\.\.=|\.\.|::|==|!=|<=|>=|&&|\|\||\+=|-=|\*=|/=|%=|<<|>>|[-+*/%()=;:,.{}<>&!\[\]#|?^@'\"$~\\]))", re.S)

# names the generated text itself uses: a Rust local with such a name could capture them
RESERVED = set("""N F Num zero one sum0 add sub mul div opp abs fma of_Z of_dec ltb leb eqb is_finite is_infinite
 nth nil cons app list nat Z bool negb inl inr fst snd for_range for_range_ret for_list_ret ret_val Nat Peak
 fun let in if then else match with end forall exists fix cofix as at return Type Prop Set where struct using
 Definition Section Context End""".split())


def tokens(src):
    pos, out = 0, []
    while pos < len(src):
        if src[pos:].strip() == "":
            break
        m = TOK.match(src, pos)
        if not m:
            raise Refuse("cannot tokenize at: %r" % src[pos:pos + 30])
        pos = m.end()
        if m.group(1):
            continue
        kind = "float" if m.group(2) else "int" if m.group(3) else "id" if m.group(4) else "op"
        out.append((kind, m.group(2) or m.group(3) or m.group(4) or m.group(5)))
    return out


# ------------------------------------------------------------------ parsing to an AST (tuples)
class Parser:
    def __init__(self, toks):
        self.t, self.i = toks, 0

    def peek(self, k=0):
        return self.t[self.i + k] if self.i + k < len(self.t) else ("eof", "<end of file>")

    def at(self, *vals):
        return all(self.peek(k)[1] == v and self.peek(k)[0] != "eof" for k, v in enumerate(vals))

    def context(self):
        return " ".join(v for _, v in self.t[max(0, self.i - 4):self.i + 6])

    def take(self, val=None, kind=None):
        k, v = self.peek()
        if (val is not None and (v != val or k == "eof")) or (kind is not None and k != kind):
            raise Refuse("expected %s, found %r near `%s`" % (val or kind, v, self.context()))
        self.i += 1
        return v

    def name(self):
        v = self.take(kind="id")
        return v

    def type_(self):
        ty = self.take(kind="id")
        if ty not in ("f64", "usize", "i32", "PeakList"):
            raise Refuse("type %r near `%s`" % (ty, self.context()))
        if self.peek()[1] in ("<", "::"):
            raise Refuse("generic or path type near `%s`" % self.context())
        return ("vec", "Peak") if ty == "PeakList" else ty

    # ---- expressions
    def expr(self):
        a = self.arith()
        if self.peek()[1] in ("==", "!=", "<", "<=", ">", ">="):
            op = self.take()
            b = self.arith()
            if self.peek()[1] in ("==", "!=", "<", "<=", ">", ">="):
                raise Refuse("chained comparison near `%s`" % self.context())
            a = ("cmp", op, a, b)
        if self.peek()[1] in ("&&", "||", "..", "..=", "?", "&", "^", "<<", ">>", "%"):
            raise Refuse("operator %r near `%s`" % (self.peek()[1], self.context()))
        return a

    def arith(self):
        a = self.term()
        while self.peek()[1] in ("+", "-"):
            op = self.take()
            a = ("bin", op, a, self.term())
        return a

    def term(self):
        a = self.cast()
        while self.peek()[1] in ("*", "/"):
            op = self.take()
            a = ("bin", op, a, self.cast())
        if self.peek()[1] == "%":
            raise Refuse("operator '%%' near `%s`" % self.context())
        return a

    def cast(self):
        a = self.unary()
        while self.peek() == ("id", "as"):
            self.take()
            to = self.take(kind="id")
            if to != "f64":
                raise Refuse("cast `as %s` near `%s`" % (to, self.context()))
            a = ("cast", a)
        return a

    def unary(self):
        if self.peek() == ("op", "-"):
            self.take()
            return ("neg", self.unary())
        if self.peek()[1] in ("!", "&", "*"):
            raise Refuse("unary operator %r near `%s`" % (self.peek()[1], self.context()))
        return self.postfix()

    def postfix(self):
        a = self.primary()
        while True:
            if self.at("."):
                if self.peek(1)[0] == "id" and self.peek(1)[1] in ("abs", "is_finite", "is_infinite") and self.peek(2)[1] == "(" and self.peek(3)[1] == ")":
                    m = self.peek(1)[1]
                    self.i += 4
                    a = ("meth", m, a)
                else:
                    raise Refuse("method or field `.%s` near `%s`" % (self.peek(1)[1], self.context()))
            elif self.at("["):
                self.take("[")
                ix = self.expr()
                self.take("]")
                a = ("index", a, ix)
            else:
                return a

    def primary(self):
        k, v = self.peek()
        if k == "float":
            self.take()
            return ("float", v)
        if k == "int":
            self.take()
            if self.peek()[0] == "id" and re.fullmatch(r"[iuf]\d+|usize|isize", self.peek()[1]):
                raise Refuse("suffixed literal near `%s`" % self.context())
            return ("int", v.replace("_", ""))
        if v == "(" and k == "op":
            self.take()
            a = self.expr()
            if self.peek()[1] == ",":
                raise Refuse("tuple expression near `%s`" % self.context())
            self.take(")")
            return ("paren", a)
        if k == "id" and v == "if":
            self.take()
            c = self.expr()
            b1 = self.block()
            self.take("else")
            if self.peek() == ("id", "if"):
                raise Refuse("`else if` near `%s`" % self.context())
            b2 = self.block()
            for b in (b1, b2):
                if b[0] or b[1] is None:
                    raise Refuse("an if-EXPRESSION whose branches are not single expressions, near `%s`" % self.context())
            return ("ifx", c, b1[1], b2[1])
        if k == "id" and v == "Peak" and self.peek(1)[1] == "{":
            self.take(); self.take("{")
            fields = []
            while not self.at("}"):
                f = self.name()
                if self.at(":"):
                    self.take()
                    e = self.expr()
                else:
                    e = ("var", f)
                fields.append((f, e))
                if self.at(","):
                    self.take()
                elif not self.at("}"):
                    raise Refuse("struct literal near `%s`" % self.context())
            self.take("}")
            return ("struct", fields)
        if k == "id":
            if v in ("match", "loop", "while", "for", "unsafe", "move", "return", "break", "continue", "let", "mut", "as", "fn", "true", "false"):
                raise Refuse("%r in expression position near `%s`" % (v, self.context()))
            self.take()
            if self.at("::"):
                raise Refuse("path expression `%s::` near `%s`" % (v, self.context()))
            if self.at("!"):
                raise Refuse("macro `%s!` near `%s`" % (v, self.context()))
            if self.at("("):
                self.take()
                args = []
                while not self.at(")"):
                    args.append(self.expr())
                    if self.at(","):
                        self.take()
                    elif not self.at(")"):
                        raise Refuse("call arguments near `%s`" % self.context())
                self.take(")")
                return ("call", v, args)
            return ("var", v)
        raise Refuse("unexpected %r near `%s`" % (v, self.context()))

    # ---- statements
    def block(self):
        self.take("{")
        stmts, tail = [], None
        while not self.at("}"):
            if tail is not None:
                raise Refuse("an expression that is not last in its block, near `%s`" % self.context())
            k, v = self.peek()
            if k == "eof":
                raise Refuse("unterminated block")
            if (k, v) == ("id", "let"):
                self.take()
                mut = False
                if self.peek() == ("id", "mut"):
                    self.take(); mut = True
                if self.peek()[0] != "id":
                    raise Refuse("pattern in `let` near `%s`" % self.context())
                x = self.name()
                ty = None
                if self.at(":"):
                    self.take(); ty = self.type_()
                self.take("=")
                stmts.append(("let", mut, x, ty, self.rhs()))
                self.take(";")
            elif (k, v) == ("id", "return"):
                self.take()
                if self.at(";"):
                    raise Refuse("`return;` without a value")
                stmts.append(("ret", self.expr()))
                self.take(";")
            elif (k, v) == ("id", "for"):
                self.take()
                i = self.name()
                self.take("in")
                lo = self.arith(); self.take(".."); hi = self.arith()
                stmts.append(("for", i, lo, hi, self.block(), False))
            elif (k, v) == ("id", "if"):
                # statement position: an `if` whose value is not used (if it is the block's tail expression it must be
                # a statement-if too: the callers refuse a tail there, function results cannot be `if` statements)
                self.take()
                c = self.expr()
                b1 = self.block()
                b2 = None
                if self.peek() == ("id", "else"):
                    self.take()
                    if self.peek() == ("id", "if"):
                        raise Refuse("`else if` near `%s`" % self.context())
                    b2 = self.block()
                if b1[1] is not None or (b2 is not None and b2[1] is not None):
                    raise Refuse("a statement-`if` whose branch ends in an expression (its value would be used), near `%s`" % self.context())
                stmts.append(("if", c, b1, b2))
                if self.at(";"):
                    self.take()
            elif k == "op" and v == "(" and self._is_for_each():
                self.take("(")
                lo = self.arith(); self.take(".."); hi = self.arith()
                self.take(")"); self.take("."); self.take("for_each"); self.take("("); self.take("|")
                i = self.name()
                self.take("|")
                body = self.block()
                self.take(")"); self.take(";")
                stmts.append(("for", i, lo, hi, body, True))
            elif k == "id" and self.peek(1)[1] in ("=", "+=", "-=", "*=", "/="):
                x = self.name(); op = self.take()
                stmts.append(("asg", x, op, self.expr()))
                self.take(";")
            elif k == "id" and self.peek(1)[1] == "." and self.peek(2) == ("id", "push") and self.peek(3)[1] == "(":
                x = self.name(); self.i += 3
                e = self.expr()
                self.take(")"); self.take(";")
                stmts.append(("push", x, e))
            else:
                e = self.expr()
                if self.at(";"):
                    raise Refuse("expression statement `...;` near `%s`" % self.context())
                tail = e
        self.take("}")
        return (stmts, tail)

    def _is_for_each(self):
        # '(' ... '..' ... ')' '.' 'for_each' : look ahead for the matching parenthesis
        depth, j = 0, self.i
        while j < len(self.t):
            v = self.t[j][1]
            if v == "(":
                depth += 1
            elif v == ")":
                depth -= 1
                if depth == 0:
                    return self.t[j + 1:j + 3] == [("op", "."), ("id", "for_each")]
            j += 1
        return False

    def rhs(self):
        if self.peek()[0] == "id" and self.peek()[1] in ("PeakList", "Vec") and self.peek(1)[1] == "::":
            ty = self.take(); self.take("::"); f = self.take(kind="id"); self.take("(")
            if f == "new":
                self.take(")")
            elif f == "with_capacity" and ty == "Vec":
                cap = self.expr(); self.take(")")
                return ("newvec", None, cap)
            else:
                raise Refuse("constructor %s::%s near `%s`" % (ty, f, self.context()))
            return ("newvec", "Peak" if ty == "PeakList" else None, None)
        return self.expr()

    def file(self):
        uses, consts, fns = set(), [], []
        while self.peek()[0] != "eof":
            k, v = self.peek()
            if v == "pub":
                self.take()
                if self.at("("):
                    raise Refuse("restricted visibility `pub(...)`")
                if self.peek()[1] not in ("const", "fn"):
                    raise Refuse("item `pub %s`" % self.peek()[1])
                continue
            if v == "use":
                self.take()
                path = []
                while not self.at(";"):
                    kk, vv = self.peek()
                    if kk == "eof" or vv in ("*", "as"):
                        raise Refuse("`use` with %r" % vv)
                    self.take()
                    if kk == "id":
                        path.append(vv)
                self.take(";")
                uses.add(tuple(path))
                continue
            if v == "const":
                self.take()
                name = self.name(); self.take(":"); ty = self.take(kind="id"); self.take("=")
                lit = self.take(kind="float"); self.take(";")
                if ty != "f64":
                    raise Refuse("const %s of type %s" % (name, ty))
                consts.append(name)
                continue
            if v == "fn":
                self.take()
                name = self.name()
                if self.at("<"):
                    raise Refuse("generic fn %s" % name)
                self.take("(")
                params = []
                while not self.at(")"):
                    if self.peek()[1] in ("mut", "&", "self"):
                        raise Refuse("parameter form %r in fn %s" % (self.peek()[1], name))
                    a = self.name(); self.take(":"); params.append((a, self.type_()))
                    if self.at(","):
                        self.take()
                    elif not self.at(")"):
                        raise Refuse("parameter list of fn %s" % name)
                self.take(")"); self.take("->")
                rty = self.type_()
                body = self.block()
                fns.append((name, params, rty, body))
                continue
            raise Refuse("unexpected item starting with %r near `%s`" % (v, self.context()))
        return uses, consts, fns


# ------------------------------------------------------------------ typed translation to Gallina text
def ind(s, n=2):
    return "\n".join((" " * n + l) if l else l for l in s.split("\n"))


def coq_ty(ty):
    if ty == "f64":
        return "F"
    if ty == "usize":
        return "nat"
    if ty == "i32":
        return "Z"
    if ty == ("vec", "f64"):
        return "list F"
    if ty == ("vec", "Peak"):
        return "list (@Peak.peak F)"
    raise Refuse("no Gallina type for %r" % (ty,))


def contains_ret(block):
    for s in block[0]:
        if s[0] == "ret":
            return True
        if s[0] == "if" and (contains_ret(s[2]) or (s[3] is not None and contains_ret(s[3]))):
            return True
        if s[0] == "for" and contains_ret(s[4]):
            return True
    return False


def assigned(block, acc=None):
    acc = [] if acc is None else acc
    for s in block[0]:
        if s[0] in ("asg", "push") and s[1] not in acc:
            acc.append(s[1])
        elif s[0] == "if":
            assigned(s[2], acc)
            if s[3] is not None:
                assigned(s[3], acc)
        elif s[0] == "for":
            assigned(s[4], acc)
    return acc


class Fn:
    """translation of one function body; env: name -> [type, mutable, declaration index]"""

    def __init__(self, name, params, rty, glob):
        self.name, self.rty, self.glob = name, rty, glob
        self.counter = 0
        self.calls = []
        self.holes = {}          # Vec whose element type is fixed by its first push: placeholder -> cell

    def declare(self, env, x, ty, mut):
        if x in env or x in self.glob["consts"] or x in self.glob["sigs"]:
            raise Refuse("fn %s: `%s` shadows an existing name" % (self.name, x))
        if x in RESERVED or not re.fullmatch(r"[a-z_][a-z0-9_]*", x) or x == "_":
            raise Refuse("fn %s: local name `%s` is reserved or not a plain lower-case identifier" % (self.name, x))
        env = dict(env)
        self.counter += 1
        env[x] = [ty, mut, self.counter]
        return env

    # ---- expressions: returns (text, type); `want` types an integer literal
    def ex(self, e, env, want=None):
        k = e[0]
        if k == "paren":
            return self.ex(e[1], env, want)
        if k == "float":
            t = e[1].replace("_", "")
            if t.endswith("f64"):
                t = t[:-3]
            if re.fullmatch(r"0+\.0+", t):
                return "(zero N)", "f64"
            if re.fullmatch(r"0*1\.0+", t):
                return "(one N)", "f64"
            return float_lit(t), "f64"
        if k == "int":
            if want == "usize":
                if int(e[1]) > 100000:
                    raise Refuse("fn %s: usize literal %s is too large for a unary nat" % (self.name, e[1]))
                return "%s%%nat" % e[1], "usize"
            if want == "i32":
                return "%s%%Z" % e[1], "i32"
            raise Refuse("fn %s: integer literal %s where its type (usize/i32) is not determined by a name or parameter" % (self.name, e[1]))
        if k == "var":
            x = e[1]
            if x in env:
                return x, self.norm(env[x][0])
            if x in self.glob["consts"]:
                return "(%s N)" % self.glob["consts"][x], "f64"
            raise Refuse("fn %s: unknown name `%s`" % (self.name, x))
        if k == "neg":
            a, ta = self.ex(e[1], env)
            if ta != "f64":
                raise Refuse("fn %s: unary minus on %s" % (self.name, ta))
            return "(opp N %s)" % a, "f64"
        if k == "bin":
            a, ta = self.ex(e[2], env)
            b, tb = self.ex(e[3], env)
            if ta != "f64" or tb != "f64":
                raise Refuse("fn %s: `%s` on %s and %s (only f64 arithmetic is in the subset)" % (self.name, e[1], ta, tb))
            return "(%s N %s %s)" % ({"+": "add", "-": "sub", "*": "mul", "/": "div"}[e[1]], a, b), "f64"
        if k == "cast":
            a, ta = self.ex(e[1], env)
            if ta == "usize":
                return "(of_Z N (Z.of_nat %s))" % a, "f64"
            if ta == "i32":
                return "(of_Z N %s)" % a, "f64"
            raise Refuse("fn %s: cast of %s as f64" % (self.name, ta))
        if k == "meth":
            a, ta = self.ex(e[2], env)
            if ta != "f64":
                raise Refuse("fn %s: .%s() on %s" % (self.name, e[1], ta))
            return "(%s N %s)" % (e[1], a), ("f64" if e[1] == "abs" else "bool")
        if k == "index":
            a, ta = self.ex(e[1], env)
            i, ti = self.ex(e[2], env, "usize")
            if ta != ("vec", "f64") or ti != "usize" or e[1][0] != "var":
                raise Refuse("fn %s: indexing %s by %s (only <Vec<f64> local>[<usize>])" % (self.name, ta, ti))
            return "(nth %s %s (zero N))" % (i, a), "f64"
        if k == "cmp":
            op, l, r = e[1], e[2], e[3]
            if l[0] == "int" and r[0] == "int":
                raise Refuse("fn %s: comparison of two literals" % self.name)
            if l[0] == "int":
                b, tb = self.ex(r, env)
                a, ta = self.ex(l, env, tb)
            else:
                a, ta = self.ex(l, env)
                b, tb = self.ex(r, env, ta)
            if ta != tb or ta not in ("f64", "usize", "i32"):
                raise Refuse("fn %s: comparison `%s` of %s and %s" % (self.name, op, ta, tb))
            if ta == "f64":
                pre = lambda f, x, y: "(%s N %s %s)" % (f, x, y)
                names = ("eqb", "ltb", "leb")
            else:
                m = "Nat" if ta == "usize" else "Z"
                pre = lambda f, x, y: "(%s.%s %s %s)" % (m, f, x, y)
                names = ("eqb", "ltb", "leb")
            txt = {"==": pre(names[0], a, b), "!=": "(negb %s)" % pre(names[0], a, b),
                   "<": pre(names[1], a, b), "<=": pre(names[2], a, b),
                   ">": pre(names[1], b, a), ">=": pre(names[2], b, a)}[op]
            return txt, "bool"
        if k == "ifx":
            c, tc = self.ex(e[1], env)
            if tc != "bool":
                raise Refuse("fn %s: `if` on a %s" % (self.name, tc))
            a, ta = self.ex(e[2], env, want)
            b, tb = self.ex(e[3], env, ta)
            if ta != tb:
                raise Refuse("fn %s: if-expression branches of types %s and %s" % (self.name, ta, tb))
            return "(if %s then %s else %s)" % (c, a, b), ta
        if k == "struct":
            names = [f for f, _ in e[1]]
            if sorted(names) != ["intensity", "mz"]:
                raise Refuse("fn %s: Peak literal with fields %s" % (self.name, names))
            d = {}
            for f, fe in e[1]:
                t, ty = self.ex(fe, env)
                if ty != "f64":
                    raise Refuse("fn %s: Peak field %s of type %s" % (self.name, f, ty))
                d[f] = t
            return "(Peak.mkPeak %s %s)" % (d["mz"], d["intensity"]), "Peak"
        if k == "call":
            f, args = e[1], e[2]
            if f not in self.glob["sigs"] or f in env:
                raise Refuse("fn %s: call of unknown function `%s`" % (self.name, f))
            ptys, rty = self.glob["sigs"][f]
            if len(ptys) != len(args):
                raise Refuse("fn %s: call of %s with %d arguments" % (self.name, f, len(args)))
            out = []
            for a, pt in zip(args, ptys):
                t, ty = self.ex(a, env, pt if pt in ("usize", "i32") else None)
                if ty != pt:
                    raise Refuse("fn %s: argument of %s has type %s, parameter has %s" % (self.name, f, ty, pt))
                out.append(t)
            if f not in self.calls:
                self.calls.append(f)
            return "(%s_gen N %s)" % (f, " ".join(out)), rty
        raise Refuse("fn %s: expression form %r" % (self.name, k))

    def cond(self, e, env):
        c, tc = self.ex(e, env)
        if tc != "bool":
            raise Refuse("fn %s: `if` on a %s" % (self.name, tc))
        return strip(c)

    @staticmethod
    def norm(ty):
        """a Vec whose element type has meanwhile been fixed by a push"""
        return ("vec", ty[1][0]) if ty[0] == "vec?" and ty[1][0] is not None else ty

    @staticmethod
    def tup(names):
        return names[0] if len(names) == 1 else "(" + ", ".join(names) + ")"

    @staticmethod
    def pat(names):                      # binder after `fun i`
        return names[0] if len(names) == 1 else "'(" + ", ".join(names) + ")"

    def mods(self, blocks, env, what):
        names = []
        for b in blocks:
            if b is not None:
                assigned(b, names)
        names = [x for x in names if x in env]       # locals of the branch/body itself are not state
        for x in names:
            if not env[x][1]:
                raise Refuse("fn %s: %s assigns `%s`, which is not `mut`" % (self.name, what, x))
        return sorted(names, key=lambda x: env[x][2])

    # ---- statements.  k(env) gives the text that follows normal completion; ret(text) renders `return text`
    def stmts(self, ss, env, k, ret, in_loop):
        if not ss:
            return k(env)
        s, rest = ss[0], ss[1:]
        kind = s[0]
        again = lambda env2: self.stmts(rest, env2, k, ret, in_loop)
        if kind == "let":
            _, mut, x, ty, rhs = s
            if rhs[0] == "newvec":
                if rhs[2] is not None:
                    _, tc = self.ex(rhs[2], env, "usize")
                    if tc != "usize":
                        raise Refuse("fn %s: Vec::with_capacity(%s)" % (self.name, tc))
                if not mut:
                    raise Refuse("fn %s: a Vec that is not `mut`" % self.name)
                if rhs[1] == "Peak":
                    vt, txt = ("vec", "Peak"), "(@nil (@Peak.peak F))"
                else:
                    cell = [None]
                    vt = ("vec?", cell)
                    txt = "@@HOLE%d@@" % len(self.holes)
                    self.holes[txt] = (cell, x)
                if ty is not None and ty != vt:
                    raise Refuse("fn %s: let %s: declared %s, constructed %s" % (self.name, x, ty, vt))
                env2 = self.declare(env, x, vt, True)
                return "let %s := %s in\n%s" % (x, txt, again(env2))
            t, te = self.ex(rhs, env, ty if ty in ("usize", "i32") else None)
            if ty is not None and ty != te:
                raise Refuse("fn %s: let %s: declared %s, initialiser has %s" % (self.name, x, ty, te))
            if te not in ("f64", "Peak"):
                raise Refuse("fn %s: let %s of type %s (locals are f64, Peak or Vec)" % (self.name, x, te))
            env2 = self.declare(env, x, te, mut)
            return "let %s := %s in\n%s" % (x, strip(t), again(env2))
        if kind == "asg":
            _, x, op, e = s
            if x not in env:
                raise Refuse("fn %s: assignment to unknown `%s`" % (self.name, x))
            if not env[x][1] or env[x][0] != "f64":
                raise Refuse("fn %s: assignment to `%s` (not a `mut` f64 local)" % (self.name, x))
            t, te = self.ex(e, env)
            if te != "f64":
                raise Refuse("fn %s: `%s %s` with a %s" % (self.name, x, op, te))
            val = strip(t) if op == "=" else "%s N %s %s" % ({"+=": "add", "-=": "sub", "*=": "mul", "/=": "div"}[op], x, t)
            return "let %s := %s in\n%s" % (x, val, again(env))
        if kind == "push":
            _, x, e = s
            if x not in env or not env[x][1] or env[x][0][0] not in ("vec", "vec?"):
                raise Refuse("fn %s: push on `%s` (not a `mut` Vec local)" % (self.name, x))
            t, te = self.ex(e, env)
            vt = env[x][0]
            if vt[0] == "vec?":
                if vt[1][0] is None:
                    if te not in ("f64", "Peak"):
                        raise Refuse("fn %s: Vec of %s" % (self.name, te))
                    vt[1][0] = te
                elt = vt[1][0]
            else:
                elt = vt[1]
            if te != elt:
                raise Refuse("fn %s: push of a %s on a Vec<%s>" % (self.name, te, elt))
            return "let %s := %s ++ [%s] in\n%s" % (x, x, strip(t), again(env))
        if kind == "ret":
            if ret is None:
                raise Refuse("fn %s: `return` inside a for_each closure or a nested position" % self.name)
            if rest:
                raise Refuse("fn %s: statements after `return`" % self.name)
            t, te = self.ex(s[1], env, self.rty if self.rty in ("usize", "i32") else None)
            self.check_ret(te)
            return ret(strip(t))
        if kind == "if":
            _, c, b1, b2 = s
            ct = self.cond(c, env)
            r1, r2 = contains_ret(b1), (b2 is not None and contains_ret(b2))
            if r1 or r2:
                e1 = bool(b1[0]) and b1[0][-1][0] == "ret"
                e2 = b2 is not None and bool(b2[0]) and b2[0][-1][0] == "ret"
                if not (e1 or e2):
                    raise Refuse("fn %s: an `if` containing `return` none of whose branches ends in `return`" % self.name)
                if e1 and e2 and rest:
                    raise Refuse("fn %s: statements after an `if` both of whose branches return" % self.name)
                # the code after the `if` runs only after a branch that completes: it continues inside that branch
                # (that branch's own locals go out of scope first: Rust scoping, and names are never shadowed)
                after = lambda _env: again(env)
                t1 = self.stmts(b1[0], env, after, ret, in_loop)
                t2 = self.stmts(b2[0], env, after, ret, in_loop) if b2 is not None else again(env)
                return "if %s then\n%s\nelse\n%s" % (ct, ind(t1), t2)
            xs = self.mods([b1, b2], env, "an `if`")
            if not xs:
                raise Refuse("fn %s: an `if` statement that assigns no outer local" % self.name)
            fin = lambda _env: self.tup(xs)
            t1 = self.stmts(b1[0], env, fin, None, in_loop)
            t2 = self.stmts(b2[0], env, fin, None, in_loop) if b2 is not None else self.tup(xs)
            return "let %s :=\n  (if %s then\n%s\n   else\n%s) in\n%s" % (self.pat(xs), ct, ind(t1, 5), ind(t2, 5), again(env))
        if kind == "for":
            _, i, lo, hi, body, closure = s
            if in_loop:
                raise Refuse("fn %s: nested loop" % self.name)
            if body[1] is not None:
                raise Refuse("fn %s: loop body ending in an expression" % self.name)
            a, ta = self.ex(lo, env, "usize")
            b, tb = self.ex(hi, env, "usize")
            if ta != "usize" or tb != "usize":
                raise Refuse("fn %s: range over %s..%s (usize only)" % (self.name, ta, tb))
            xs = self.mods([body], env, "a loop")
            if not xs:
                raise Refuse("fn %s: a loop that assigns no outer local" % self.name)
            benv = self.declare(env, i, "usize", False)
            has_ret = contains_ret(body)
            if has_ret and closure:
                raise Refuse("fn %s: `return` inside a for_each closure" % self.name)
            if has_ret and ret is None:
                raise Refuse("fn %s: a loop with `return` inside an `if` that does not itself end in `return`" % self.name)
            if not has_ret:
                bt = self.stmts(body[0], benv, lambda _e: self.tup(xs), None, True)
                return "let %s :=\n  for_range %s %s (fun %s %s =>\n%s\n  ) %s in\n%s" % (
                    self.pat(xs), a, b, i, self.pat(xs), ind(bt, 4), self.tup(xs), again(env))
            bt = self.stmts(body[0], benv, lambda _e: "inl %s" % self.tup(xs), lambda t: "inr %s" % atom(t), True)
            return "match for_range_ret %s %s (fun %s %s =>\n%s\n  ) %s with\n| inr ret_val => %s\n| inl %s =>\n%s\nend" % (
                a, b, i, self.pat(xs), ind(bt, 4), self.tup(xs), ret("ret_val"), self.tup(xs), ind(again(env)))
        raise Refuse("fn %s: statement form %r" % (self.name, kind))

    def check_ret(self, te):
        if self.norm(te) != self.rty:
            raise Refuse("fn %s: returns a %s, declared %s" % (self.name, te, self.rty))


def balanced(s):
    d = 0
    for ch in s:
        d += ch == "("
        d -= ch == ")"
        if d < 0:
            return False
    return d == 0


def strip(t):
    return t[1:-1] if t.startswith("(") and t.endswith(")") and balanced(t[1:-1]) else t


def atom(t):
    return t if re.fullmatch(r"[A-Za-z_][A-Za-z0-9_']*", t) else "(%s)" % strip(t)


def check_peak_struct():
    """`Peak { mz, intensity }` is translated to `mkPeak mz intensity`: insist that these are the struct's fields"""
    src = open(os.path.join(REPO, "src", "isotopic_pattern", "peak.rs"), encoding="utf-8").read()
    m = re.search(r"pub struct Peak \{(.*?)\n\}", src, re.S)
    if not m:
        raise Refuse("struct Peak not found in peak.rs")
    body = re.sub(r"//[^\n]*|#\[[^\]]*\]", "", m.group(1))
    fields = [f.strip() for f in body.split(",") if f.strip()]
    if fields != ["pub mz: f64", "pub intensity: f64"]:
        raise Refuse("struct Peak has fields %r" % fields)
    if not re.search(r"pub type PeakList = Vec<Peak>;", src):
        raise Refuse("PeakList is not Vec<Peak>")


def translate():
    check_peak_struct()
    # what crate::mz offers (signatures from the same parser that writes SrcGen.v)
    mz_consts, mz_fns = gen_src.translate_file(os.path.join(REPO, "src", "mz.rs"), True)
    src = open(os.path.join(REPO, "src", "isotopic_pattern", "poisson.rs"), encoding="utf-8").read()
    src = src.split("#[cfg(test)]")[0]
    uses, consts, fns = Parser(tokens(src)).file()
    imported = {}
    for path in uses:
        if path[:2] == ("crate", "mz"):
            for x in path[2:]:
                imported[x] = "mz"
        elif path[:1] == ("super",) and set(path[1:]) <= {"Peak", "PeakList"}:
            for x in path[1:]:
                imported[x] = "super"
        else:
            raise Refuse("`use %s`" % "::".join(path))
    for need in ("Peak", "PeakList"):
        if imported.get(need) != "super":
            raise Refuse("`%s` is not imported from super" % need)
    glob = {"consts": {}, "sigs": {}}
    for name, _ in mz_consts:
        if imported.get(name) == "mz":
            glob["consts"][name] = name + "_gen"
    for name, params, _, _ in mz_fns:
        if imported.get(name) == "mz":
            glob["sigs"][name] = ([ty for _, ty in params], "f64")
    for x, where in imported.items():
        if where == "mz" and x not in glob["consts"] and x not in glob["sigs"]:
            raise Refuse("`use crate::mz::%s`: not a constant or function of mz.rs" % x)
    for name in consts:
        if name in glob["consts"]:
            raise Refuse("constant %s defined twice" % name)
        glob["consts"][name] = name + "_gen"
    names = [f[0] for f in fns]
    if sorted(names) != sorted(WANTED):
        raise Refuse("the functions of poisson.rs are %r, expected %r" % (names, WANTED))
    for name, params, rty, _ in fns:
        if name in glob["sigs"]:
            raise Refuse("function %s defined twice" % name)
        glob["sigs"][name] = ([ty for _, ty in params], rty)
    done = {}
    for name, params, rty, body in fns:
        fn = Fn(name, params, rty, glob)
        env = {}
        for a, ty in params:
            env = fn.declare(env, a, ty, False)
        if body[1] is None:
            last = body[0][-1] if body[0] else None
            if last is None or last[0] != "ret":
                raise Refuse("fn %s: the body has no result expression" % name)

            def k(_env):
                raise Refuse("fn %s: the body can end without a value" % name)
        else:
            def k(env2, fn=fn, body=body):
                t, te = fn.ex(body[1], env2, fn.rty if fn.rty in ("usize", "i32") else None)
                fn.check_ret(te)
                return strip(t)
        text = fn.stmts(body[0], env, k, lambda t: t, False)
        for hole, (cell, x) in fn.holes.items():
            if cell[0] is None:
                raise Refuse("fn %s: the element type of Vec `%s` is never fixed by a push" % (name, x))
            text = text.replace(hole, "(@nil %s)" % ("F" if cell[0] == "f64" else "(@Peak.peak F)"))
        if name in fn.calls:
            raise Refuse("fn %s is recursive" % name)
        ps = " ".join("(%s : %s)" % (a, coq_ty(ty)) for a, ty in params)
        done[name] = (fn.calls, "Definition %s_gen {F : Type} (N : Num F) %s : %s :=\n%s." % (name, ps, coq_ty(rty), ind(text)))
    # emit callees first (source order otherwise)
    order, state = [], {}

    def visit(n):
        if state.get(n) == 1:
            raise Refuse("recursive call cycle through %s" % n)
        if state.get(n) == 2 or n not in done:
            return
        state[n] = 1
        for c in done[n][0]:
            visit(c)
        state[n] = 2
        order.append(n)
    for n in names:
        visit(n)
    out = ["(* GENERATED by tools/gen_poisson.py from src/isotopic_pattern/poisson.rs -- do not edit *)",
           "From Coq Require Import ZArith List Bool.", "From CE Require Import Num Peak Imp SrcGen.",
           "Import ListNotations.", "Local Open Scope list_scope.", ""]
    for n in order:
        out.append(done[n][1])
        out.append("")
    return "\n".join(out[:-1]) + "\n", order


def main():
    rc = gen_src.main()          # SrcGen.v (mz.rs, the constants) is what the generated text refers to: keep it in step
    if rc != 0:
        return rc
    try:
        text, order = translate()
    except (Refuse, OSError) as e:
        print("gen_poisson: refused: %s" % e)
        return 3
    old = open(OUT).read() if os.path.exists(OUT) else None
    if old != text:
        open(OUT, "w").write(text)
    print("gen_poisson: %d functions (%s)%s" % (len(order), ", ".join(order), "" if old == text else " [rewritten]"))
    import tie_modes
    ties, field, only = tie_modes.flags(sys.argv[1:])
    if ties:
        return check_ties(order, field, only)
    return 0


TIE = os.path.join(os.path.dirname(OUT), "..", "proofs", "PoissonTie.v")
WANTED = ["poisson_approximation_impl", "poisson_approximate_n_peaks_of_impl", "poisson_approximation",
          "poisson_approximate_n_peaks_of"]


def check_ties(order, field=False, only=None):
    """compile coq/proofs/PoissonTie.v block by block (`(* BEGIN TIE f (needs: ..) *) .. (* END TIE f *)`), in strict
    mode or (field=True) in field mode, see tools/tie_modes.py; prints `tie <f>: OK | FAILED (..) | SKIPPED (..)`"""
    import tie_modes
    coq = os.path.normpath(os.path.join(os.path.dirname(OUT), ".."))
    if not tie_modes.compile_deps(coq, ["model/TieTac.v", "model/Imp.v", "gen/SrcGen.v", "gen/PoissonGen.v"]):
        return 1
    skipped = {n: "not among the functions the translator emitted" for n in WANTED if n not in order}
    bad = tie_modes.check_blocks(coq, os.path.normpath(TIE), WANTED, skipped, field=field, only=only, stem="PoissonTie")
    return 1 if bad else 0


if __name__ == "__main__":
    sys.exit(main())
