#!/usr/bin/env python3
"""Robustness demonstration for tools/gen_cbind.py: every edit is applied to a COPY of the crate source, the generator is
run with --ties on the copy, and the outcome is compared with what is expected.  The generated file is regenerated from
the original source at the end."""
import os, shutil, subprocess, sys
ROOT = os.path.dirname(os.path.dirname(os.path.abspath(__file__)))
SRC = os.path.join(ROOT, "repo_src")
MUT = os.path.join(ROOT, "tests", "mut_src")
TOOL = os.path.join(ROOT, "tools", "gen_cbind.py")


def run(repo):
    env = dict(os.environ, VERIF_REPO=repo)
    r = subprocess.run([sys.executable, TOOL, "--ties"], env=env, stdout=subprocess.PIPE, stderr=subprocess.STDOUT, universal_newlines=True)
    res = {}
    for l in r.stdout.splitlines():
        if l.startswith("tie "):
            n, rest = l[4:].split(":", 1)
            res[n] = rest.strip().split(" ")[0]
    return r.returncode, res, r.stdout


def case(name, rel, edits, expect):
    if os.path.exists(MUT):
        shutil.rmtree(MUT)
    shutil.copytree(SRC, MUT)
    path = os.path.join(MUT, rel)
    s = open(path).read()
    for old, new in edits:
        if s.count(old) != 1:
            print("!! %s: pattern occurs %d times: %r" % (name, s.count(old), old[:50]))
            return False
        s = s.replace(old, new)
    open(path, "w").write(s)
    code, res, out = run(MUT)
    ok = all(v == expect.get(n, "OK") for n, v in res.items()) and all(n in res for n in expect)
    if expect == "exit3":
        ok = code == 3
    print("%-58s exit %d  %s  %s" % (name, code, " ".join("%s=%s" % (n, v) for n, v in res.items() if v != "OK") or ("all OK" if res else "-"),
                                    "as expected" if ok else "UNEXPECTED"))
    if not ok:
        print(out)
    return ok


L = "bindings/c/src/lib.rs"
PARSE_NULL = """    unsafe {
        *out = ptr::null_mut();
    }
    unsafe {
        let formula_view"""
INC_BODY = """                Ok(spec) => {
                    self.0.inc(spec, count);
                    0
                },"""
R = []
print("== (a) semantics-changing edits: the affected ties must FAIL")
R.append(case("a1 parse_formula: `+ 1` dropped from the error code", L, [("(parse_err as u32) + 1", "(parse_err as u32)")], {"parse_formula": "FAILED"}))
R.append(case("a2 set: `+ 1` dropped from the error code", L, [("""                    self.0.set(spec, count);
                    0
                },
                Err(e) => {
                    e as u32 + 1""", """                    self.0.set(spec, count);
                    0
                },
                Err(e) => {
                    e as u32""")], {"set": "FAILED"}))
R.append(case("a3 parse_formula: out-pointer not nulled (error path leaves it unwritten)", L, [(PARSE_NULL, """    unsafe {
        let formula_view""")], {"parse_formula": "FAILED"}))
R.append(case("a4 parse_formula: out-pointer nulled on the Ok path only", L,
              [(PARSE_NULL, """    unsafe {
        let formula_view"""), ("""            Ok(composition) => {
                *out = Box::into_raw""", """            Ok(composition) => {
                *out = ptr::null_mut();
                *out = Box::into_raw""")], {"parse_formula": "FAILED"}))
R.append(case("a5 increment calls set", L, [(INC_BODY, INC_BODY.replace("self.0.inc(", "self.0.set("))], {"increment": "FAILED"}))
R.append(case("a6 subtract adds", L, [("self.0 -= &other.0;", "self.0 += &other.0;")], {"subtract": "FAILED"}))
R.append(case("a7 scale does nothing", L, [("        self.0 *= other;\n", "")], {"scale": "FAILED"}))
R.append(case("a8 parse_formula: Ok path returns 1", L, [("""                *out = Box::into_raw(Box::new(CChemicalComposition(composition)));
                0""", """                *out = Box::into_raw(Box::new(CChemicalComposition(composition)));
                1""")], {"parse_formula": "FAILED"}))
R.append(case("a9 free_chemical_composition frees nothing", L, [("    unsafe { drop(Box::from_raw(slf)) };\n", "")], {"free_chemical_composition": "FAILED"}))
R.append(case("a10 increment: error code `+ 2`", L, [("""                    self.0.inc(spec, count);
                    0
                },
                Err(e) => {
                    e as u32 + 1""", """                    self.0.inc(spec, count);
                    0
                },
                Err(e) => {
                    e as u32 + 2""")], {"increment": "FAILED"}))
R.append(case("a11 variants of ElementSpecificationParsingError swapped", "src/element_specification.rs",
              [("    UnclosedIsotope,\n    UnknownElement,", "    UnknownElement,\n    UnclosedIsotope,")],
              {"error_codes": "FAILED", "parse_formula": "FAILED", "set": "FAILED", "increment": "FAILED"}))
R.append(case("a12 copy allocates an empty composition", L, [("CChemicalComposition(self.0.clone())", "CChemicalComposition::default()")], {"copy": "FAILED"}))
R.append(case("a13 new: allocates but leaves *out null", L, [("""            *out = ptr::null_mut();
            *out = Box::into_raw(Box::new(CChemicalComposition::default()))""", """            let leaked = Box::into_raw(Box::new(CChemicalComposition::default()));
            *out = ptr::null_mut();""")], {"new": "FAILED"}))
R.append(case("a14 set: returns 0 on error", L, [("""                    self.0.set(spec, count);
                    0
                },
                Err(e) => {
                    e as u32 + 1""", """                    self.0.set(spec, count);
                    0
                },
                Err(_e) => {
                    0""")], {"set": "FAILED"}))
R.append(case("a15 add: adds twice", L, [("        self.0 += &other.0;\n", "        self.0 += &other.0;\n        self.0 += &other.0;\n")], {"add": "FAILED"}))
R.append(case("a16 get reads through get_str of an empty default", L, [("            self.0.get_str(&encoded_view)", "            ChemicalComposition::default().get_str(&encoded_view)")], {"get": "FAILED"}))

print("== (b) harmless edits inside the subset: every tie must still hold")
R.append(case("b1 parse_formula: one unsafe block, locals renamed", L, [(PARSE_NULL + """ = CStr::from_ptr(formula);
        let encoded_view = formula_view.to_string_lossy();

        match ChemicalComposition::parse(&encoded_view) {""", """    unsafe {
        *out = ptr::null_mut();
        let view = CStr::from_ptr(formula);
        let text = view.to_string_lossy();
        match ChemicalComposition::parse(&text) {""")], {}))
R.append(case("b2 new: without the redundant nulling", L, [("""            *out = ptr::null_mut();
            *out = Box::into_raw(Box::new(CChemicalComposition::default()))""", """            *out = Box::into_raw(Box::new(CChemicalComposition::default()))""")], {}))
R.append(case("b3 get: String::from_utf8_lossy(to_bytes())", L, [("""            let encoded_view = spec_view.to_string_lossy();
            self.0.get_str(&encoded_view)""", """            let encoded_view = String::from_utf8_lossy(spec_view.to_bytes());
            self.0.get_str(&encoded_view)""")], {}))
R.append(case("b4 copy: pointer in a local, explicit return", L, [("""        unsafe { *out = Box::into_raw(Box::new(CChemicalComposition(self.0.clone()))); }
        0""", """        let fresh = Box::into_raw(Box::new(CChemicalComposition(self.0.clone())));
        unsafe { *out = fresh; }
        return 0;""")], {}))
R.append(case("b5 set: ElementSpecification::parse, arms swapped", L, [("""            match encoded_view.parse::<ElementSpecification>() {
                Ok(spec) => {
                    self.0.set(spec, count);
                    0
                },
                Err(e) => {
                    e as u32 + 1
                }
            }""", """            match ElementSpecification::parse(&encoded_view) {
                Err(code) => (code as u32) + 1,
                Ok(key) => {
                    self.0.set(key, count);
                    0
                }
            }""")], {}))
R.append(case("b6 parse_formula: s.parse::<ChemicalComposition>()", L, [("match ChemicalComposition::parse(&encoded_view) {", "match encoded_view.parse::<ChemicalComposition>() {")], {}))
R.append(case("b7 free: drop in a statement block, explicit return", L, [("""    unsafe { drop(Box::from_raw(slf)) };
    0""", """    unsafe {
        drop(Box::from_raw(slf));
    }
    return 0;""")], {}))

print("== (c) rewrites outside the subset: the function is skipped")
R.append(case("c1 parse_formula with `if let`", L, [("""        match ChemicalComposition::parse(&encoded_view) {
            Ok(composition) => {
                *out = Box::into_raw(Box::new(CChemicalComposition(composition)));
                0
            },
            Err(parse_err) => {
                (parse_err as u32) + 1
            }
        }""", """        if let Ok(composition) = ChemicalComposition::parse(&encoded_view) {
            *out = Box::into_raw(Box::new(CChemicalComposition(composition)));
            0
        } else { 1 }""")], {"parse_formula": "SKIPPED"}))
R.append(case("c2 set with unwrap", L, [("""            match encoded_view.parse::<ElementSpecification>() {
                Ok(spec) => {
                    self.0.set(spec, count);
                    0
                },
                Err(e) => {
                    e as u32 + 1
                }
            }""", """            self.0.set(encoded_view.parse::<ElementSpecification>().unwrap(), count);
            0""")], {"set": "SKIPPED"}))
R.append(case("c3 copy through ptr::read", L, [("CChemicalComposition(self.0.clone())", "std::ptr::read(self)")], {"copy": "SKIPPED"}))
R.append(case("c4 scale not extern \"C\"", L, [("""pub extern "C" fn scale""", "pub fn scale")], {"scale": "SKIPPED"}))
R.append(case("c5 free through a null check", L, [("    unsafe { drop(Box::from_raw(slf)) };\n", "    if !slf.is_null() { unsafe { drop(Box::from_raw(slf)) }; }\n")], {"free_chemical_composition": "SKIPPED"}))
R.append(case("c6 add through a loop", L, [("        self.0 += &other.0;\n", "        for (k, v) in other.0.iter() { self.0.inc(*k, *v); }\n")], {"add": "SKIPPED"}))
R.append(case("c7 mass through calc_mass + rounding", L, [("        self.0.mass()\n", "        (self.0.mass() * 1e6).round() / 1e6\n")], {"mass": "SKIPPED"}))

print("== structure")
R.append(case("s1 the struct is not the newtype", L, [("pub struct CChemicalComposition(ChemicalComposition<'static>);", "pub struct CChemicalComposition(ChemicalComposition<'static>, u32);")], "exit3"))
R.append(case("s2 an enum variant the model does not have", "src/formula.rs", [("    InvalidElement,\n}", "    InvalidElement,\n    TooLong,\n}")], "exit3"))
R.append(case("s3 unbalanced brace", L, [("        self.0 *= other;\n        0\n    }\n}", "        self.0 *= other;\n        0\n    }\n")], "exit3"))
if os.path.exists(MUT):
    shutil.rmtree(MUT)
code, res, out = run(SRC)
print("original source: exit %d, %s" % (code, " ".join("%s=%s" % kv for kv in res.items())))
R.append(code == 0)
print("ALL AS EXPECTED" if all(R) else "SOME UNEXPECTED")
