#!/usr/bin/env python3
"""Apply each seeded change under seeded/<id>/ to /repo, run the check(s) of the property it breaks, undo it.
   usage: tools/run_seeded.py [ids...]   -- writes seeded/<id>/result.json and prints a table"""
import json
import os
import subprocess
import sys
import time

VERIF = os.path.dirname(os.path.dirname(os.path.abspath(__file__)))
REPO = "/repo"


def sh(cmd, cwd=None, timeout=3600):
    p = subprocess.run(cmd, cwd=cwd, stdout=subprocess.PIPE, stderr=subprocess.STDOUT, timeout=timeout, shell=isinstance(cmd, str))
    return p.returncode, p.stdout.decode("utf-8", "replace")


def main():
    ids = sys.argv[1:] or sorted(os.listdir(os.path.join(VERIF, "seeded")))
    rows = []
    for sid in ids:
        d = os.path.join(VERIF, "seeded", sid)
        patch = os.path.join(d, "patch.diff")
        if not os.path.exists(patch):
            continue
        meta = json.load(open(os.path.join(d, "meta.json")))
        props = [str(x).split()[0].rstrip(":") for x in meta.get("checks", [meta["property"]])]
        rc, out = sh(["git", "-C", REPO, "status", "--porcelain"])
        if out.strip():
            print("refusing: /repo has uncommitted changes"); sys.exit(2)
        rc, out = sh(["git", "-C", REPO, "apply", patch])
        if rc != 0:
            rows.append((sid, "patch does not apply", out[-200:])); continue
        res = {}
        try:
            for p in props:
                t0 = time.time()
                rc, out = sh(["./check", p, "--tier", "quick"], cwd=VERIF)
                lines = [l for l in out.splitlines() if l.startswith("VIOLATION") or l.startswith("%s ok" % p)]
                if "Traceback (most recent call last)" in out and not lines:
                    lines = ["CHECK CRASHED: " + out.strip().splitlines()[-1][:200]]
                res[p] = {"exit": rc, "verdict": lines[-1] if lines else out[-300:], "seconds": round(time.time() - t0, 1)}
                viol = [l for l in out.splitlines() if l.startswith("VIOLATION")]
                if viol:
                    rp = viol[-1].split("replay=")[1].split()[0]
                    try:
                        r = json.load(open(rp))
                        res[p]["replay_kind"] = "failing_input" if "failing_input" in r else "no-failing-input-found"
                        res[p]["replay_excerpt"] = json.dumps(r.get("failing_input") or r.get("tie_breaking_case") or r.get("broken"))[:600]
                    except Exception as e:
                        res[p]["replay_kind"] = "unreadable: %s" % e
        finally:
            sh(["git", "-C", REPO, "checkout", "--", "."])
            sh(["git", "-C", REPO, "clean", "-fdq", "tests"])
        json.dump(res, open(os.path.join(d, "result.json"), "w"), indent=1)
        rows.append((sid, " ".join("%s:%s" % (p, "CAUGHT" if (v["exit"] == 1 and v["verdict"].startswith("VIOLATION")) else ("CRASHED" if v["verdict"].startswith("CHECK CRASHED") else "missed")) for p, v in res.items()),
                     " | ".join(v["verdict"][:90] for v in res.values())))
    for r in rows:
        print("%-12s %-28s %s" % r)


if __name__ == "__main__":
    main()
