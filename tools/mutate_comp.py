#!/usr/bin/env python3
"""robustness demonstration for tools/gen_comp.py: mutate a copy of the crate, regenerate, run the per-function ties"""
import os, shutil, subprocess, sys, re
ROOT = "/tmp/agEE"
SRC, MUT = ROOT + "/repo_src", ROOT + "/mut_src"
L, M = "src/composition_list.rs", "src/composition_map.rs"

CASES = {
 # ---- (a) semantics-changing
 "a1_vset_keeps_cache": [(L, """            self.composition.push((elt_spec, count));
        }
        self.mass_cache = None;""", """            self.composition.push((elt_spec, count));
        }""")],
 "a2_minc_set_count": [(M, """        let i = self.get(&elt_spec);
        self.set(elt_spec, i + count);""", """        let i = self.get(&elt_spec);
        self.set(elt_spec, count);""")],
 "a3_vget_absent_1": [(L, """            *c
        } else {
            0
        }""", """            *c
        } else {
            1
        }""")],
 "a4_vfindstr_ignores_isotope": [(L, "find(|(e, _)| e == elt_str)", "find(|(e, _)| e.element.symbol == elt_str)")],
 "a5_mcalc_plain_muladd": [(M, """            total = if elt_spec.isotope == 0 {
                element.most_abundant_mass
            } else {
                element.isotopes[&elt_spec.isotope].mass
            }
            .mul_add(*count as f64, total);""", """            let m = if elt_spec.isotope == 0 {
                element.most_abundant_mass
            } else {
                element.isotopes[&elt_spec.isotope].mass
            };
            total = m * (*count as f64) + total;""")],
 "a6_vcalc_swapped_operands": [(L, """            total = if elt_spec.isotope == 0 {
                element.most_abundant_mass
            } else {
                element.isotopes[&elt_spec.isotope].mass
            }
            .mul_add(*count as f64, total);""", """            let m = if elt_spec.isotope == 0 {
                element.most_abundant_mass
            } else {
                element.isotopes[&elt_spec.isotope].mass
            };
            total = (*count as f64).mul_add(m, total);""")],
 "a7_mmass_unchecked_cache": [(M, """        match self.mass_cache {
            None => self.calc_mass(),
            Some(val) => val,
        }""", """        self.mass_cache.unwrap_or(0.0)""")],
 "a8_mgetstrmut_keeps_cache": [(M, """        self.mass_cache = None;
        let key = Self::plain_key(elt)?;""", """        let key = Self::plain_key(elt)?;""")],
 "a9_mindexmut_or_insert_1": [(M, """        let entry = self.composition.entry(*key);
        entry.or_insert(0)""", """        let entry = self.composition.entry(*key);
        entry.or_insert(1)""")],
 "a10_vindexmutstr_parse_before_clear": [(L, """        self.mass_cache = None;
        let key = key.parse::<ElementSpecification>().unwrap();
        let entry = self.index_mut(&key);""", """        let key = key.parse::<ElementSpecification>().unwrap();
        self.mass_cache = None;
        let entry = self.index_mut(&key);""")],
 "a11_mincstr_wrong_key": [(M, "Ok(spec) => self.inc(spec, count),", "Ok(spec) => self.set(spec, count),")],
 "a12_vfmass_no_store": [(L, """                let total = self.mass();
                self.mass_cache = Some(total);
                total""", """                let total = self.mass();
                total""")],
 # ---- (b) harmless edits inside the subset (all at once)
 "b_harmless": [
   (L, """        let found = self
            .composition
            .iter()
            .enumerate()
            .find(|(_, (e, _))| elt_spec == e);
        if let Some((index, _)) = found {
            Some(index)
        } else {
            None
        }""", """        self.composition.iter().position(|(spec, _)| elt_spec == spec)"""),
   (L, """        if let Some((_, c)) = self.composition.iter().find(|(e, _)| elt_spec == e) {
            *c
        } else {
            0
        }""", """        let hit = self.composition.iter().find(|(e, _)| elt_spec == e);
        match hit {
            Some((_, n)) => *n,
            None => 0,
        }"""),
   (L, """        if let Some(i) = self.find(&elt_spec) {
            self.composition[i].1 = count
        } else {
            self.composition.push((elt_spec, count));
        }
        self.mass_cache = None;""", """        match self.find(&elt_spec) {
            None => {
                self.composition.push((elt_spec, count));
            }
            Some(at) => {
                self.composition[at].1 = count;
            }
        }
        self.mass_cache = None;"""),
   (L, """            total = if elt_spec.isotope == 0 {
                element.most_abundant_mass
            } else {
                element.isotopes[&elt_spec.isotope].mass
            }
            .mul_add(*count as f64, total);""", """            let m = if elt_spec.isotope == 0 {
                element.most_abundant_mass
            } else {
                element.isotopes[&elt_spec.isotope].mass
            };
            let n = *count as f64;
            total = m.mul_add(n, total);"""),
   (M, """        match self.composition.get(elt_spec) {
            Some(i) => *i,
            None => 0,
        }""", """        self.composition.get(elt_spec).copied().unwrap_or(0)"""),
   (M, """        match self.mass_cache {
            None => self.calc_mass(),
            Some(val) => val,
        }""", """        if let Some(cached) = self.mass_cache {
            cached
        } else {
            self.calc_mass()
        }"""),
   (M, """        if let Some(val) = self.get_str_mut(elt) {
            *val += count;
        } else {
            match ElementSpecification::parse(elt) {""", """        let slot = self.get_str_mut(elt);
        if let Some(val) = slot {
            *val += count;
        } else {
            match ElementSpecification::parse(elt) {"""),
   (M, """        let i = self.get(&elt_spec);
        self.set(elt_spec, i + count);""", """        let old = self.get(&elt_spec);
        let new = old + count;
        self.set(elt_spec, new);"""),
 ],
 # ---- (c) out-of-subset rewrites
 "c1_vget_while_loop": [(L, """        if let Some((_, c)) = self.composition.iter().find(|(e, _)| elt_spec == e) {
            *c
        } else {
            0
        }""", """        let mut i = 0;
        while i < self.composition.len() {
            if self.composition[i].0 == *elt_spec {
                return self.composition[i].1;
            }
            i += 1;
        }
        0""")],
 "c2_mcalc_fold": [(M, """        let mut total = 0.0;
        for (elt_spec, count) in &self.composition {
            let element = elt_spec.element;
            total = if elt_spec.isotope == 0 {
                element.most_abundant_mass
            } else {
                element.isotopes[&elt_spec.isotope].mass
            }
            .mul_add(*count as f64, total);
        }
        total""", """        self.composition.iter().fold(0.0, |total, (elt_spec, count)| {
            let element = elt_spec.element;
            if elt_spec.isotope == 0 {
                element.most_abundant_mass
            } else {
                element.isotopes[&elt_spec.isotope].mass
            }
            .mul_add(*count as f64, total)
        })""")],
 # ---- broken structure
 "d_structure": [(M, "    mass_cache: Option<f64>,\n}", "    mass_cache: Option<f32>,\n}")],
}


def run(name):
    if os.path.exists(MUT):
        shutil.rmtree(MUT)
    shutil.copytree(SRC, MUT)
    for rel, old, new in CASES[name]:
        p = os.path.join(MUT, rel)
        s = open(p).read()
        assert s.count(old) == 1, (name, rel, s.count(old), old[:40])
        open(p, "w").write(s.replace(old, new))
    env = dict(os.environ, VERIF_REPO=MUT)
    r = subprocess.run([sys.executable, ROOT + "/tools/gen_comp.py", "--ties"], env=env, stdout=subprocess.PIPE, stderr=subprocess.STDOUT, universal_newlines=True)
    lines = r.stdout.splitlines()
    bad = [l for l in lines if l.startswith("tie ") and not l.endswith(": OK")]
    ok = sum(1 for l in lines if l.startswith("tie ") and l.endswith(": OK"))
    print("=== %s: exit %d, %d ties OK, %d not OK" % (name, r.returncode, ok, len(bad)))
    for l in lines:
        if l.startswith("skipped") or l.startswith("gen_comp: refused"):
            print("   " + l[:230])
    for l in bad:
        print("   " + l[:200])
    if name == "b_harmless":
        r2 = subprocess.run(["coqc", "-Q", ".", "CE", "-w", "-notation-overridden", "proofs/CompTie.v"], cwd=ROOT + "/coq", stdout=subprocess.PIPE, stderr=subprocess.STDOUT, universal_newlines=True)
        print("   whole CompTie.v against the edited source: exit %d %s" % (r2.returncode, r2.stdout[-300:]))
    sys.stdout.flush()


for n in (sys.argv[1:] or list(CASES)):
    run(n)
shutil.rmtree(MUT, ignore_errors=True)
# restore: regenerate from the pristine source
subprocess.run([sys.executable, ROOT + "/tools/gen_comp.py"], env=dict(os.environ, VERIF_REPO=SRC))
