#!/usr/bin/env python3
"""The two modes of a source tie file (coq/proofs/{Src,Poisson,Conv,Peak,Comp}Tie.v) and the block-by-block check
shared by the translators' `--ties [--field] [--only=a,b]`.

A tie file is ONE text.  As committed (strict mode) it contains, right after the section's
`Context {F : Type} (N : Num F).`, the two lines

      (* FIELD-MODE-CONTEXT *)
      Ltac leaf := leaf_strict. (* FIELD-MODE-LEAF *)

`field_text` turns that text into its FIELD MODE (never written into the repository, compiled in a temporary
directory): the first line becomes `Context (OF : OField N). Add Field TieField : (of_field N OF).`, the second
`Ltac leaf := leaf_field.` (coq/model/TieTac.v).  The ties then hold over every ordered field.

Blocks: `(* BEGIN TIE f (needs: a b) *) ... (* END TIE f *)`; a block is compiled together with the text outside
all blocks and the blocks it needs (transitively).  Output, one line per function:

      tie <f>: OK
      tie <f>: FAILED (<last lines of coqc's message>)
      tie <f>: SKIPPED (<why the translator did not translate f>)
(the same lines in both modes)."""
import os, re, subprocess, sys, tempfile

CONTEXT_MARK = "(* FIELD-MODE-CONTEXT *)"
LEAF_RE = re.compile(r"^([ \t]*)Ltac leaf := leaf_strict\. \(\* FIELD-MODE-LEAF \*\)[ \t]*$", re.M)
CONTEXT_RE = re.compile(r"^([ \t]*)" + re.escape(CONTEXT_MARK) + r"[ \t]*$", re.M)
FIELD_CONTEXT = "Context (OF : OField N). Add Field TieField : (of_field N OF)."
FIELD_LEAF = "Ltac leaf := leaf_field."
BLOCK_RE = re.compile(r"\(\* BEGIN TIE (\w+)(?: \(needs: ([\w ]*)\))? \*\)\n(.*?)\(\* END TIE \1 \*\)\n", re.S)
COQ_ARGS = ["-w", "-notation-overridden,-deprecated-hint-without-locality,-inexact-float"]


class NoMarkers(Exception):
    pass


def field_text(text):
    """the field-mode text of a strict-mode tie file"""
    if len(CONTEXT_RE.findall(text)) != 1 or len(LEAF_RE.findall(text)) != 1:
        raise NoMarkers("the tie file does not have exactly one FIELD-MODE-CONTEXT and one FIELD-MODE-LEAF line")
    text = CONTEXT_RE.sub(lambda m: m.group(1) + FIELD_CONTEXT, text)
    return LEAF_RE.sub(lambda m: m.group(1) + FIELD_LEAF, text)


def flags(argv):
    """(--ties, --field, --only list or None)"""
    only = None
    for a in argv:
        if a.startswith("--only="):
            only = [x for x in a[len("--only="):].split(",") if x]
    return "--ties" in argv, "--field" in argv, only


TIMEOUT = int(os.environ.get("TIE_TIMEOUT", "600"))      # seconds per coqc call


def run(args, cwd):
    return subprocess.run(["timeout", str(TIMEOUT)] + args, cwd=cwd, stdout=subprocess.PIPE, stderr=subprocess.STDOUT,
                          universal_newlines=True)


def compile_deps(coq, files):
    """(re)compile the files a tie file imports and that may have changed (gen/*.v, model/Imp*.v, model/TieTac.v)"""
    for f in files:
        vo = os.path.join(coq, f + "o")
        src = os.path.join(coq, f)
        if f.startswith("model/") and os.path.exists(vo) and os.path.getmtime(vo) >= os.path.getmtime(src):
            continue
        r = run(["coqc", "-Q", ".", "CE"] + COQ_ARGS + [f], coq)
        if r.returncode != 0:
            print("tie check: %s does not compile\n%s" % (f, r.stdout))
            return False
    return True


def split_blocks(text):
    blocks, common, pos = {}, [], 0
    for m in BLOCK_RE.finditer(text):
        common.append(text[pos:m.start()])
        common.append("@@%s@@" % m.group(1))
        blocks[m.group(1)] = ((m.group(2) or "").split(), m.group(3))
        pos = m.end()
    common.append(text[pos:])
    return blocks, common


def closure(blocks, n, acc):
    for d in blocks[n][0]:
        if d in blocks and d not in acc:
            closure(blocks, d, acc)
    if n not in acc:
        acc.append(n)
    return acc


def drop_dangling_prints(body):
    """`Print Assumptions x.` lines (after the section) about lemmas of blocks that were left out"""
    defined = set(re.findall(r"\b(?:Theorem|Lemma|Corollary|Definition|Fixpoint)\s+(\w+)", body))
    keep = []
    for line in body.split("\n"):
        m = re.match(r"\s*Print Assumptions (\w+)\.\s*$", line)
        if m and m.group(1) not in defined:
            continue
        keep.append(line)
    return "\n".join(keep)


def failure(out):
    msg = [l for l in out.splitlines() if l.strip()]
    return " | ".join(msg[-3:])[:300]


def check_blocks(coq, tie_path, wanted, skipped, field=False, only=None, stem="Tie", label=None):
    """compile the tie file block by block; `skipped`: {function: reason}.  Returns the number of functions whose tie
    is not OK."""
    text = open(tie_path, encoding="utf-8").read()
    tag = ""
    if field:
        try:
            text = field_text(text)
        except NoMarkers as e:
            print("tie check: %s: %s" % (os.path.basename(tie_path), e))
            return 1
    blocks, common = split_blocks(text)
    bad = 0
    names = [n for n in wanted if only is None or n in only]
    with tempfile.TemporaryDirectory() as tmp:
        for n in names:
            if n in skipped:
                print("tie %s%s: SKIPPED (%s)" % (n, tag, skipped[n]))
                bad += 1
                continue
            if n not in blocks:
                print("tie %s%s: FAILED (no block in %s)" % (n, tag, os.path.basename(tie_path)))
                bad += 1
                continue
            keep = closure(blocks, n, [])
            body = "".join(c if not c.startswith("@@") else (blocks[c[2:-2]][1] if c[2:-2] in keep else "") for c in common)
            body = drop_dangling_prints(body)
            path = os.path.join(tmp, "%s_%s.v" % (stem, n))
            open(path, "w", encoding="utf-8").write(body)
            r = run(["coqc", "-Q", coq, "CE"] + COQ_ARGS + [path], tmp)
            if r.returncode == 0:
                print("tie %s%s: OK" % (n, tag))
            else:
                bad += 1
                print("tie %s%s: FAILED (%s)" % (n, tag, failure(r.stdout)))
    return bad


def check_whole(coq, tie_path, part, field=False, stem="Tie"):
    """compile the whole tie file in a temporary directory; one line `tie <part>: OK | FAILED (...)`"""
    text = open(tie_path, encoding="utf-8").read()
    tag = ""
    if field:
        try:
            text = field_text(text)
        except NoMarkers as e:
            print("tie check: %s: %s" % (os.path.basename(tie_path), e))
            return 1
    with tempfile.TemporaryDirectory() as tmp:
        path = os.path.join(tmp, "%s_all.v" % stem)
        open(path, "w", encoding="utf-8").write(text)
        r = run(["coqc", "-Q", coq, "CE"] + COQ_ARGS + [path], tmp)
    if r.returncode == 0:
        print("tie %s%s: OK" % (part, tag))
        return 0
    print("tie %s%s: FAILED (%s)" % (part, tag, failure(r.stdout)))
    return 1


if __name__ == "__main__":
    # python3 tools/tie_modes.py coq/proofs/PeakTie.v  -> the field-mode text on stdout
    sys.stdout.write(field_text(open(sys.argv[1], encoding="utf-8").read()))
