#!/usr/bin/env python3
"""Translate the exported functions of the C bindings, bindings/c/src/lib.rs, into a SHALLOW embedding in Gallina ->
coq/gen/CBindGen.v.  coq/proofs/CBindTie.v then proves that every generated function is the step of the hand-written
model coq/model/CBind.v for the corresponding call.

Raw pointers, Box::into_raw / from_raw, CStr::from_ptr and to_string_lossy are not translated literally: they are read
the way the model reads them (coq/model/ImpX.v: the heap of boxes is the model's handle table, a pointer is null or an
index, a C string is its bytes, the lossy decoding is a parameter `lossy`).  What IS taken from the current source is the
CONTROL STRUCTURE of every function: the order of the statements, what is written to the out-pointer and on which paths,
which parser is called on which text, the `match` on its result, which code every arm returns (the cast of the error to
u32 uses the variant order of the CURRENT enums of src/formula.rs and src/element_specification.rs, and the `+ 1` is the
source's), which operation is applied to which handle, what is allocated and what is freed.

Every function is translated INDEPENDENTLY: a function whose body is outside the subset is skipped (`skipped <name>:
<construct>` on stdout, its name in `cbind_gen_skipped` in CBindGen.v).  Only a broken FILE STRUCTURE (unbalanced
brackets, `struct CChemicalComposition` not the newtype of ChemicalComposition, the two error enums not the model's
variants) makes the translator exit with status 3.

  python3 tools/gen_cbind.py            regenerate coq/gen/CBindGen.v (rewritten only when its content changes)
  python3 tools/gen_cbind.py --ties     additionally compile coq/proofs/CBindTie.v block by block and print
                                        `tie <f>: OK | FAILED | SKIPPED` for every function

FUNCTIONS: parse_formula, free_chemical_composition (free functions); new, mass, copy, get, set, increment, add, subtract,
scale (`impl CChemicalComposition`).  All must be `extern "C"`.
Every generated definition takes (PERIODIC_TABLE : ptable) (uni_numeric uni_alphabetic : char -> bool) (lossy : list N ->
str) first, then (heap : handles), then the handle `self` of a method, then the parameters except out-pointers (an
out-pointer carries no information in: its cell starts Unwritten); `mass_gen` also takes {M} (mass_of : ents -> M).
It yields  xres (handles * [cell *]* value) : XOk (heap after the call, the out cells in parameter order, the value
returned) | XUB (a pointer that is not live was dereferenced / freed) | XAbort (a panic reached the `extern "C"` boundary).

TRANSLATION (state-passing; Gallina shadowing = the new value)
  *mut c_char / *const c_char -> cstring, *mut *mut CChemicalComposition -> an out cell, *mut CChemicalComposition -> ptr,
  &CChemicalComposition / &self / &mut self -> a handle (nat), i32 / u32 -> Z, f64 -> M (mass only),
  ChemicalComposition / CChemicalComposition -> ents, ElementSpecification -> key, Result<_, FormulaParserError> -> fres,
  Result<_, ElementSpecificationParsingError> -> eres, CStr -> list N, Cow<str> / String / &str -> str.
  * entry: for `&self` / `&mut self` and every `&CChemicalComposition` parameter p, in order:
                                          match live heap p with None => XUB | Some p_0 => ... end      (p_0 is `p.0`)
  * exit with value v:                    XOk (heap, cells, v);  in a `&mut self` method heap is set_h heap self (Some self_0)
  * `unsafe { .. }` / `{ .. }`            -> its statements (a block may not shadow an outer local)
  * `let x [: T] = e;`                    -> let x := e in ...
  * `*out = e;`                           -> let out := Written e in ...          (out an out-pointer parameter)
  * `.. Box::into_raw(Box::new(e))` as the right-hand side of `*out = ` / `let x = `
                                          -> let '(heap, t) := box_alloc heap e in ...
  * `drop(Box::from_raw(p));`             -> match box_free heap p with None => XUB | Some heap => ... end
  * `self.0.set(k, n);` `self.0.inc(k, n);` `self.0 += &o.0;` `-=` `self.0 *= n;`   (in a `&mut self` method)
                                          -> let self_0 := e_set k n self_0 / e_inc .. / e_add self_0 o_0 / e_sub .. / e_mul self_0 n in ...
  * `match r { Ok(x) => A, Err(e) => B }` as the value of the function (r a Result of one of the two parsers)
                                          -> match r with FOk x => A | FErr e => B | FPanic => XAbort end   (EOk / EErr / EPanic)
  * `if c { A } else { B }` as the value  -> if c then A else B
  * `return e;` / the last expression     -> the exit with e
  * ptr::null_mut() -> None, CStr::from_ptr(p) -> cstr_from_ptr p, v.to_string_lossy() / String::from_utf8_lossy(v.to_bytes())
    -> lossy v, ChemicalComposition::parse(&s) / s.parse::<ChemicalComposition>() -> comp_parse PERIODIC_TABLE uni_numeric s,
    s.parse::<ElementSpecification>() / ElementSpecification::parse(&s) -> espec_parse PERIODIC_TABLE s,
    CChemicalComposition(c) -> c, CChemicalComposition::default() (with #[derive(Default)]) / ChemicalComposition::default() /
    ::new() -> comp_default, x.0 -> x_0, c.get_str(&s) -> comp_get_str PERIODIC_TABLE uni_alphabetic c s, c.mass() ->
    mass_of c, c.clone() -> c, `e as u32` (e an error) -> <Enum>_discr_gen e, `<cast> + <literal>` -> Z.add (a discriminant
    plus a literal cannot overflow a u32), integer literals, == != < <= > >= on i32 / u32, && || !.

GRAMMAR: that of tools/gen_render.py (its parser is used, with `unsafe` blocks, `as` and `*p = e` switched on), without
loops, closures and macros.  Everything else is refused (the function is skipped)."""
import os, re, sys
sys.path.insert(0, os.path.dirname(os.path.abspath(__file__)))
from gen_src import Refuse
from gen_poisson import ind
from gen_espec import tokens, is_op, impl_header, drop_vis, Structure
from gen_render import split_items, enum_variants, parse_fn, unparen, strip, atom, check_ties

REPO = os.environ.get("VERIF_REPO", "/repo")
COQ = os.path.join(os.path.dirname(os.path.dirname(os.path.abspath(__file__))), "coq")
OUT = os.path.join(COQ, "gen", "CBindGen.v")
TIE = os.path.join(COQ, "proofs", "CBindTie.v")
PRE = "PERIODIC_TABLE uni_numeric uni_alphabetic lossy"
BINDERS = "(PERIODIC_TABLE : ptable) (uni_numeric uni_alphabetic : char -> bool) (lossy : list N -> str)"
CC, COMP, SPEC = "CChemicalComposition", "ChemicalComposition", "ElementSpecification"
FERR, EERR = "FormulaParserError", "ElementSpecificationParsingError"
MODEL_ENUMS = {FERR: ("err", ["InvalidStart", "ElementCountMalformed", "IsotopeCountMalformed", "GroupCountMalformed",
                              "IncompleteFormula", "InvalidElement"]),
               EERR: ("espec_err", ["UnclosedIsotope", "UnknownElement"])}
FREE = ["parse_formula", "free_chemical_composition"]
METHODS = ["new", "mass", "copy", "get", "set", "increment", "add", "subtract", "scale"]
WANTED = FREE + METHODS
EXTRA_BLOCKS = ["error_codes"]

RESERVED = set("""N F Z M nat bool list option str char string String ptable elem key ents handles ptr cell cstring xres fres
 eres err espec_err nil cons app fst snd pair negb andb orb true false Some None XOk XUB XAbort FOk FErr FPanic EOk EErr EPanic
 Unwritten Written fun let in if then else match with end forall exists fix cofix as at return Type Prop Set where struct
 using Definition Section Context End heap live set_h box_alloc box_free cstr_from_ptr lossy comp_default comp_parse
 comp_get_str mass_of e_set e_inc e_add e_sub e_mul espec_parse PERIODIC_TABLE uni_numeric uni_alphabetic length""".split())


def load(rel):
    src = open(os.path.join(REPO, rel), encoding="utf-8").read()
    src = src.split("#[cfg(test)]")[0]
    return split_items(tokens(src), rel)


def file_structure():
    """-> {name: (header tokens, body tokens, in the impl?)}, facts about the struct and the enums"""
    fns, info = {}, {"derive_default": False, "struct": False, "enums": {}}
    for attrs, head, body in load("bindings/c/src/lib.rs"):
        head = drop_vis(head)
        hv = [v for k, v in head if k != "life"]
        if hv[:2] == ["struct", CC]:
            if body is not None or hv[2:] != ["(", COMP, "<", ">", ")"]:
                raise Structure("struct %s is not the newtype `%s(%s<'static>)`" % (CC, CC, COMP))
            info["struct"] = True
            info["derive_default"] = any(a[:1] == ["derive"] and "Default" in a for a in attrs)
        elif "fn" in hv[:3] and body is not None:
            name = hv[hv.index("fn") + 1]
            if name in fns:
                raise Structure("`%s` defined twice" % name)
            fns[name] = (head, body, False)
        elif hv[:1] == ["impl"] and body is not None:
            tr, targs, ty = impl_header(head)
            if tr is None and ty == CC:
                for a2, h2, b2 in split_items(body, "impl %s" % CC):
                    h2 = drop_vis(h2)
                    h2v = [v for _, v in h2]
                    if "fn" in h2v[:3] and b2 is not None:
                        name = h2v[h2v.index("fn") + 1]
                        if name in fns:
                            raise Structure("`%s` defined twice" % name)
                        fns[name] = (h2, b2, True)
    if not info["struct"]:
        raise Structure("no `struct %s`" % CC)
    for rel, en in (("src/formula.rs", FERR), ("src/element_specification.rs", EERR)):
        for attrs, head, body in load(rel):
            hv = [v for _, v in drop_vis(head)]
            if hv[:2] == ["enum", en] and body is not None:
                vs = enum_variants(body)
                if any(p for _, p in vs):
                    raise Structure("enum %s: a variant with a payload or an explicit discriminant" % en)
                info["enums"][en] = [n for n, _ in vs]
        if sorted(info["enums"].get(en) or []) != sorted(MODEL_ENUMS[en][1]):
            raise Structure("enum %s has variants %r, the model has %r" % (en, info["enums"].get(en), MODEL_ENUMS[en][1]))
    return fns, info


# ------------------------------------------------------------------ types
TEXT = ("str", "String", "Cow")
COQ_TY = {"i32": "Z", "u32": "Z", "f64": "M"}


def show(ty):
    if isinstance(ty, tuple):
        return "Result<%s, %s>" % (show(ty[1]), ty[2])
    return ty or "_"


class Fn:
    def __init__(self, gname, inimpl, sig, body, info):
        self.gname, self.inimpl, self.sig, self.body, self.info = gname, inimpl, sig, body, info
        if sig["abi"] != "C":
            raise Refuse("not an `extern \"C\"` function")
        if sig["generics"] or sig["where"]:
            raise Refuse("generic function")
        if sig["selfkind"] == "val":
            raise Refuse("`self` by value")
        if sig["selfkind"] is not None and not inimpl:
            raise Refuse("`self` outside the impl")
        self.params = [(a, self.param_ty(t)) for a, t in sig["params"]]
        self.rty = self.resolve(sig["rty"]) if sig["rty"] is not None else None
        if self.rty not in ("u32", "i32", "f64"):
            raise Refuse("result type %s" % show(self.rty))
        self.outs = [a for a, t in self.params if t == "OutPtr"]
        self.ntemp = 0

    def param_ty(self, t):
        if t[0] == "ptr":
            inner = t[1]
            if inner[0] == "path" and inner[1][-1] == "c_char":
                return "CStrPtr"
            if inner[0] == "path" and inner[1] == [CC]:
                return "Ptr"
            if inner[0] == "ptr" and inner[1][0] == "path" and inner[1][1] == [CC]:
                return "OutPtr"
            raise Refuse("pointer parameter type")
        if t[0] == "mutref":
            raise Refuse("`&mut` parameter")
        if t[0] == "path" and t[1] == [CC]:
            return "Handle"                    # `&CChemicalComposition` (the reference is erased by the parser)
        return self.resolve(t)

    def resolve(self, t):
        if t[0] != "path":
            raise Refuse("type form %r" % t[0])
        segs, args = t[1], t[2]
        base = {"i32": "i32", "u32": "u32", "f64": "f64", "bool": "bool", "str": "str", "String": "String", COMP: "Comp",
                CC: "CC", SPEC: "Spec"}
        if len(segs) == 1 and segs[0] in base and (not args or segs[0] in (COMP, SPEC)):
            return base[segs[0]]
        raise Refuse("type `%s`" % "::".join(segs))

    def fresh(self, p):
        self.ntemp += 1
        return "%s_%d" % (p, self.ntemp)

    def declare(self, env, x, ty):
        if not re.fullmatch(r"[a-z_][a-z0-9_]*", x) or x == "_" or x.endswith("_gen") or re.fullmatch(r"[t]_\d+|\w+_0", x):
            raise Refuse("local name `%s` is not a plain lower-case identifier (or looks like a generated one)" % x)
        if ty is None:
            raise Refuse("the type of `%s` is not determined" % x)
        env = dict(env)
        c = x + "_" if x in RESERVED else x
        if any(isinstance(n, str) and v["coq"] == c and n != x for n, v in env.items()):
            raise Refuse("local names `%s` and `%s` collide after renaming" % (x, c))
        env[x] = {"ty": ty, "coq": c}
        return env

    # ---- exits
    def exit_(self, v, env):
        heap = "set_h heap self (Some self_0)" if self.sig["selfkind"] == "mut" else "heap"
        parts = [heap] + [env[o]["coq"] for o in self.outs] + [strip(v)]
        return "XOk (%s)" % ", ".join(parts)

    def value(self, e, env):
        """the function's value: an expression in result position"""
        core = unparen(e) if e[0] == "paren" else e
        if core[0] in ("unsafe", "blockexpr"):
            return self.seq(core[1][0], core[1][1], self.inner(env), env)
        if core[0] == "return":
            return self.value(core[1], env)
        if core[0] == "match":
            return self.match_(core, env)
        if core[0] == "if":
            _, c, b1, b2 = core
            if b2 is None:
                raise Refuse("an `if` without `else` as a value")
            ct, cty = self.ex(c, env)
            if cty != "bool":
                raise Refuse("`if` on a %s" % show(cty))
            t1 = self.seq(b1[0], b1[1], self.inner(env), env)
            t2 = self.seq(b2[0], b2[1], self.inner(env), env)
            return "if %s then\n%s\nelse\n%s" % (strip(ct), ind(t1), ind(t2))
        t, ty = self.ex(e, env, self.rty)
        if ty != self.rty:
            raise Refuse("returns a %s, declared %s" % (show(ty), show(self.rty)))
        return self.exit_(t, env)

    def inner(self, env):
        """entering a nested block: remember the outer names, to refuse shadowing"""
        env = dict(env)
        env[("outer",)] = set(n for n in env if isinstance(n, str))
        return env

    def match_(self, e, env):
        _, scrut, arms = e
        st, sty = self.ex(scrut, env)
        if not (isinstance(sty, tuple) and sty[0] == "result"):
            raise Refuse("`match` on a %s" % show(sty))
        ok, er, pn = ("FOk", "FErr", "FPanic") if sty[2] == FERR else ("EOk", "EErr", "EPanic")
        out, seen = [], []
        for pat, body in arms:
            if pat[0] != "ppath" or pat[1] not in (["Ok"], ["Err"]) or pat[2] is None or len(pat[2]) != 1 \
                    or pat[2][0][0] not in ("pvar", "pwild") or (pat[2][0][0] == "pvar" and pat[2][0][1]):
                raise Refuse("match arm pattern on a Result")
            which = pat[1][0]
            if which in seen:
                raise Refuse("two arms for %s" % which)
            seen.append(which)
            aenv = self.inner(env)
            binder = "_"
            if pat[2][0][0] == "pvar":
                name = pat[2][0][2]
                if name in env:
                    raise Refuse("the arm binds `%s`, which shadows an outer local" % name)
                aenv = self.declare(aenv, name, sty[1] if which == "Ok" else sty[2])
                binder = aenv[name]["coq"]
            body = unparen(body) if body[0] == "paren" else body
            if body[0] == "blockexpr":
                t = self.seq(body[1][0], body[1][1], aenv, env)
            else:
                t = self.value(body, aenv)
            out.append("| %s %s =>\n%s" % (ok if which == "Ok" else er, binder, ind(t)))
        if sorted(seen) != ["Err", "Ok"]:
            raise Refuse("`match` on a Result without an arm for each of Ok / Err")
        out.append("| %s => XAbort" % pn)
        return "match %s with\n%s\nend" % (strip(st), "\n".join(out))

    # ---- statements
    def is_alloc(self, e):
        e = unparen(e)
        if e[0] == "call" and e[1] == ["Box", "into_raw"] and len(e[2]) == 1:
            b = unparen(e[2][0])
            if b[0] == "call" and b[1] == ["Box", "new"] and len(b[2]) == 1:
                return b[2][0]
        return None

    def check_shadow(self, env, name):
        if name in env.get(("outer",), ()):
            raise Refuse("a nested block declares `%s`, which shadows an outer local" % name)

    def seq(self, ss, tail, env, outer_env=None):
        if not ss:
            if tail is None:
                raise Refuse("a block that ends without a value")
            return self.value(tail, env)
        s, more = ss[0], ss[1:]
        again = lambda env2: self.seq(more, tail, env2, outer_env)
        if s[0] == "expr" and unparen(s[1])[0] in ("unsafe", "blockexpr"):
            b = unparen(s[1])[1]
            inner = list(b[0]) + ([("expr", b[1])] if b[1] is not None else [])
            if any(x[0] == "ret" for x in inner):
                raise Refuse("`return` inside a nested block that is not last")
            # the statements of the block, then the rest; names the block declares must not shadow outer ones
            marker = self.inner(env)
            return self.seq(inner + [("leave", env.get(("outer",)))] + list(more), tail, marker, outer_env)
        if s[0] == "leave":
            env = dict(env)
            if s[1] is None:
                env.pop(("outer",), None)
            else:
                env[("outer",)] = s[1]
            return again(env)
        if s[0] == "let":
            _, pat, ty, e = s
            if pat[0] != "pvar" or pat[1]:
                raise Refuse("`let` with a pattern / `let mut`")
            self.check_shadow(env, pat[2])
            a = self.is_alloc(e)
            if a is not None:
                v, tv = self.ex(a, env, "CC")
                if tv != "CC":
                    raise Refuse("Box::new(<%s>)" % show(tv))
                env2 = self.declare(env, pat[2], "Ptr")
                return "let '(heap, %s) := box_alloc heap %s in\n%s" % (env2[pat[2]]["coq"], atom(v), again(env2))
            wty = self.resolve(ty) if ty is not None else None
            t, tyv = self.ex(e, env, wty)
            if wty is not None and wty != tyv and not (wty in TEXT and tyv in TEXT):
                raise Refuse("let: declared %s, initialiser has %s" % (show(wty), show(tyv)))
            env2 = self.declare(env, pat[2], tyv)
            return "let %s := %s in\n%s" % (env2[pat[2]]["coq"], strip(t), again(env2))
        if s[0] == "assign":
            _, op, lhs, rhs = s
            if op == "=" and lhs[0] == "deref":
                tgt = unparen(lhs[1])
                if tgt[0] != "var" or tgt[1] not in self.outs:
                    raise Refuse("assignment through a pointer that is not an out-pointer parameter")
                cellv = env[tgt[1]]["coq"]
                a = self.is_alloc(rhs)
                if a is not None:
                    v, tv = self.ex(a, env, "CC")
                    if tv != "CC":
                        raise Refuse("Box::new(<%s>)" % show(tv))
                    t = self.fresh("t")
                    return "let '(heap, %s) := box_alloc heap %s in\nlet %s := Written %s in\n%s" % (t, atom(v), cellv, t, again(env))
                r, tr = self.ex(rhs, env, "Ptr")
                if tr != "Ptr":
                    raise Refuse("`*%s = <%s>`" % (tgt[1], show(tr)))
                return "let %s := Written %s in\n%s" % (cellv, atom(r), again(env))
            l = unparen(lhs)
            if l == ("tfield", ("var", "self"), 0) and op in ("+=", "-=", "*="):
                if self.sig["selfkind"] != "mut":
                    raise Refuse("`self.0 %s ..` without `&mut self`" % op)
                r, tr = self.ex(rhs, env, "i32" if op == "*=" else None)
                if op == "*=" and tr == "i32":
                    return "let self_0 := e_mul self_0 %s in\n%s" % (atom(r), again(env))
                if op in ("+=", "-=") and tr == "Comp" and unparen(rhs) is not rhs and rhs[0] == "ref":
                    return "let self_0 := %s self_0 %s in\n%s" % ("e_add" if op == "+=" else "e_sub", atom(r), again(env))
                raise Refuse("`self.0 %s <%s>`" % (op, show(tr)))
            raise Refuse("assignment `.. %s ..`" % op)
        if s[0] == "ret":
            if more or tail is not None:
                raise Refuse("statements after `return`")
            return self.value(s[1], env)
        if s[0] == "expr":
            e = unparen(s[1])
            if e[0] == "call" and e[1] in (["drop"], ["std", "mem", "drop"], ["mem", "drop"]) and len(e[2]) == 1:
                b = unparen(e[2][0])
                if b[0] == "call" and b[1] == ["Box", "from_raw"] and len(b[2]) == 1:
                    p, tp = self.ex(b[2][0], env)
                    if tp != "Ptr":
                        raise Refuse("Box::from_raw(<%s>)" % show(tp))
                    return "match box_free heap %s with\n| None => XUB\n| Some heap =>\n%s\nend" % (atom(p), ind(again(env)))
                raise Refuse("`drop` of something that is not `Box::from_raw(p)`")
            if e[0] == "mcall" and unparen(e[1]) == ("tfield", ("var", "self"), 0) and e[2] in ("set", "inc") and len(e[4]) == 2:
                if self.sig["selfkind"] != "mut":
                    raise Refuse("`self.0.%s(..)` without `&mut self`" % e[2])
                k, tk = self.ex(e[4][0], env)
                n, tn = self.ex(e[4][1], env, "i32")
                if tk != "Spec" or tn != "i32" or e[4][0][0] == "ref":
                    raise Refuse("`self.0.%s(<%s>, <%s>)`" % (e[2], show(tk), show(tn)))
                return "let self_0 := %s %s %s self_0 in\n%s" % ("e_set" if e[2] == "set" else "e_inc", atom(k), atom(n), again(env))
            if e[0] in ("match", "if"):
                if more or tail is not None:
                    raise Refuse("a `%s` statement that is not last" % e[0])
                return self.value(e, env)
            raise Refuse("expression statement `%s ..;`" % (e[2] if e[0] == "mcall" else "::".join(e[1]) if e[0] == "call" else e[0]))
        if s[0] == "continue":
            raise Refuse("`continue`")
        raise Refuse("statement form %r" % s[0])

    # ---- pure expressions
    def ex(self, e, env, want=None):
        k = e[0]
        if k in ("paren", "ref"):
            return self.ex(e[1], env, want)
        if k == "deref":
            raise Refuse("dereference of a pointer in an expression")
        if k == "int":
            ty = e[2] or (want if want in ("i32", "u32") else None)
            if ty not in ("i32", "u32") or (e[2] and want in ("i32", "u32") and e[2] != want):
                raise Refuse("integer literal %s where no i32 / u32 is expected" % e[1])
            if int(e[1]) >= 2 ** 31:
                raise Refuse("literal %s too large" % e[1])
            return "%s%%Z" % e[1], ty
        if k == "bool":
            return e[1], "bool"
        if k == "var":
            if e[1] in env:
                v = env[e[1]]
                if v["ty"] == "OutPtr":
                    raise Refuse("the out-pointer `%s` is used other than in `*%s = ..`" % (e[1], e[1]))
                return v["coq"], v["ty"]
            raise Refuse("unknown name `%s`" % e[1])
        if k == "tfield":
            b = unparen(e[1])
            if e[2] == 0 and b[0] == "var" and b[1] in env and env[b[1]]["ty"] == "Handle":
                return env[b[1]]["coq"] + "_0", "Comp"
            raise Refuse("tuple field `.%d`" % e[2])
        if k == "cast":
            a, ta = self.ex(e[1], env)
            to = self.resolve(e[2])
            if ta in (FERR, EERR) and to == "u32":
                return "(%s_discr_gen %s)" % (ta, atom(a)), "u32"
            raise Refuse("`<%s> as %s`" % (show(ta), show(to)))
        if k == "bin":
            a, ta = self.ex(e[2], env)
            l = e[2]
            while l[0] == "paren":
                l = l[1]
            if l[0] == "cast" and ta == "u32" and e[1] == "+" and unparen(e[3])[0] == "int" and int(unparen(e[3])[1]) < 2 ** 31:
                b, _ = self.ex(e[3], env, "u32")
                return "(Z.add %s %s)" % (atom(a), atom(b)), "u32"
            raise Refuse("arithmetic `<%s> %s ..` (only <error as u32> + <literal>)" % (show(ta), e[1]))
        if k == "not":
            t, ty = self.ex(e[1], env)
            if ty != "bool":
                raise Refuse("`!` on a %s" % show(ty))
            return "(negb %s)" % atom(t), "bool"
        if k == "logic":
            a, ta = self.ex(e[2], env)
            b, tb = self.ex(e[3], env)
            if ta != "bool" or tb != "bool":
                raise Refuse("`%s` on %s and %s" % (e[1], show(ta), show(tb)))
            return "(%s %s %s)" % ("orb" if e[1] == "||" else "andb", atom(a), atom(b)), "bool"
        if k == "cmp":
            if unparen(e[2])[0] == "int":
                b, tb = self.ex(e[3], env)
                a, ta = self.ex(e[2], env, tb)
            else:
                a, ta = self.ex(e[2], env)
                b, tb = self.ex(e[3], env, ta)
            if ta != tb or ta not in ("i32", "u32"):
                raise Refuse("`%s` on %s and %s" % (e[1], show(ta), show(tb)))
            a, b = atom(a), atom(b)
            return {"==": "(Z.eqb %s %s)" % (a, b), "!=": "(negb (Z.eqb %s %s))" % (a, b), "<": "(Z.ltb %s %s)" % (a, b),
                    "<=": "(Z.leb %s %s)" % (a, b), ">": "(Z.ltb %s %s)" % (b, a), ">=": "(Z.leb %s %s)" % (b, a)}[e[1]], "bool"
        if k == "call":
            return self.call(e, env, want)
        if k == "mcall":
            return self.mcall(e, env, want)
        if k in ("match", "if", "unsafe", "blockexpr", "return"):
            raise Refuse("`%s` inside an expression (only as the value of the function)" % k)
        raise Refuse("expression form %r" % k)

    def call(self, e, env, want):
        path, args = e[1], e[2]
        n = len(args)
        if path[-2:] == ["ptr", "null_mut"] and path[:-2] in ([], ["std"], ["core"]) and n == 0:
            return "None", "Ptr"
        if path == ["CStr", "from_ptr"] and n == 1:
            a, ta = self.ex(args[0], env)
            if ta != "CStrPtr":
                raise Refuse("CStr::from_ptr(<%s>)" % show(ta))
            return "(cstr_from_ptr %s)" % atom(a), "CStr"
        if path == ["String", "from_utf8_lossy"] and n == 1:
            a, ta = self.ex(args[0], env)
            if ta != "CBytes":
                raise Refuse("String::from_utf8_lossy(<%s>)" % show(ta))
            return "(lossy %s)" % atom(a), "Cow"
        if path == [COMP, "parse"] and n == 1:
            a, ta = self.ex(args[0], env)
            if ta not in TEXT:
                raise Refuse("%s::parse(<%s>)" % (COMP, show(ta)))
            return "(comp_parse PERIODIC_TABLE uni_numeric %s)" % atom(a), ("result", "Comp", FERR)
        if path == [SPEC, "parse"] and n == 1:
            a, ta = self.ex(args[0], env)
            if ta not in TEXT:
                raise Refuse("%s::parse(<%s>)" % (SPEC, show(ta)))
            return "(espec_parse PERIODIC_TABLE %s)" % atom(a), ("result", "Spec", EERR)
        if path in ([CC], ["Self"]) and n == 1 and (path == [CC] or self.inimpl):
            a, ta = self.ex(args[0], env)
            if ta != "Comp":
                raise Refuse("%s(<%s>)" % (CC, show(ta)))
            return a, "CC"
        if path in ([CC, "default"], ["Self", "default"]) and n == 0 and (path[0] == CC or self.inimpl):
            if not self.info["derive_default"]:
                raise Refuse("%s::default() without #[derive(Default)] on the struct" % CC)
            return "comp_default", "CC"
        if path in ([COMP, "default"], [COMP, "new"]) and n == 0:
            return "comp_default", "Comp"
        raise Refuse("call of `%s`" % "::".join(path))

    def mcall(self, e, env, want):
        _, recv, m, turbo, args = e
        a, ta = self.ex(recv, env)
        a = atom(a)
        n = len(args)
        if ta == "CStr" and n == 0 and turbo is None:
            if m == "to_string_lossy":
                return "(lossy %s)" % a, "Cow"
            if m == "to_bytes":
                return a, "CBytes"
        if ta in TEXT and m == "parse" and n == 0 and turbo is not None:
            to = self.resolve(turbo)
            if to == "Spec":
                return "(espec_parse PERIODIC_TABLE %s)" % a, ("result", "Spec", EERR)
            if to == "Comp":
                return "(comp_parse PERIODIC_TABLE uni_numeric %s)" % a, ("result", "Comp", FERR)
            raise Refuse("parse::<%s>()" % show(to))
        if turbo is not None:
            raise Refuse("turbofish on `.%s`" % m)
        if ta in TEXT and m in ("as_ref", "as_str", "to_string", "into_owned", "to_owned", "clone") and n == 0:
            return a, "String"
        if ta == "Comp":
            if m == "get_str" and n == 1:
                s, ts = self.ex(args[0], env)
                if ts not in TEXT:
                    raise Refuse("get_str(<%s>)" % show(ts))
                return "(comp_get_str PERIODIC_TABLE uni_alphabetic %s %s)" % (a, atom(s)), "i32"
            if m == "mass" and n == 0:
                if self.gname != "mass":
                    raise Refuse("`.mass()` outside the function `mass`")
                return "(mass_of %s)" % a, "f64"
            if m == "clone" and n == 0:
                return a, "Comp"
        raise Refuse("method `.%s(..)` on a %s" % (m, show(ta)))

    # ---- the definition
    def translate(self):
        env, binders, derefs = {}, [], []
        if self.sig["selfkind"] is not None:
            env["self"] = {"ty": "Handle", "coq": "self"}
            binders.append("(self : nat)")
            derefs.append("self")
        inits = []
        for a, ty in self.params:
            env = self.declare(env, a, ty)
            c = env[a]["coq"]
            if ty == "OutPtr":
                inits.append("let %s := Unwritten in" % c)
            else:
                binders.append("(%s : %s)" % (c, {"CStrPtr": "cstring", "Ptr": "ptr", "Handle": "nat", "i32": "Z", "u32": "Z"}[ty]))
                if ty == "Handle":
                    derefs.append(c)
        text = self.seq(self.body[0], self.body[1], env)
        if inits:
            text = "\n".join(inits) + "\n" + text
        for d in reversed(derefs):
            text = "match live heap %s with\n| None => XUB\n| Some %s_0 =>\n%s\nend" % (d, d, ind(text))
        rty = "xres (%s)" % " * ".join(["handles"] + ["cell"] * len(self.outs) + [COQ_TY[self.rty]])
        extra = " {M : Type} (mass_of : ents -> M)" if self.gname == "mass" else ""
        if self.rty == "f64" and self.gname != "mass":
            raise Refuse("an f64 result outside `mass`")
        return "Definition %s_gen %s%s %s : %s :=\n%s." % (
            self.gname, BINDERS, extra, " ".join(["(heap : handles)"] + binders), rty, ind(text))


class World:
    def __init__(self, fns, info):
        self.src, self.info = fns, info
        self.done, self.skipped, self.emitted = {}, {}, []

    def attempt(self, name):
        if name not in self.src or (self.src[name][2] != (name in METHODS)):
            self.skipped[name] = "no such function in the source"
            return
        try:
            head, body, inimpl = self.src[name]
            sig, ast = parse_fn(head, body, ext=True)
            self.done[name] = Fn(name, inimpl, sig, ast, self.info).translate()
            self.emitted.append(name)
        except Refuse as e:
            self.skipped[name] = str(e)


def translate():
    world = World(*file_structure())
    for name in WANTED:
        world.attempt(name)
    out = ["(* GENERATED by tools/gen_cbind.py from bindings/c/src/lib.rs (and the variant order of the error enums of",
           "   src/formula.rs, src/element_specification.rs) -- do not edit *)",
           "From Coq Require Import List ZArith NArith Bool Arith.",
           "From CE Require Import Str TableTypes TableModel Comp ESpec Formula CBind ImpE ImpX.",
           "Import ListNotations.", "Local Open Scope list_scope.", ""]
    for en in (FERR, EERR):
        ty, _ = MODEL_ENUMS[en]
        out.append("(* `e as u32` for e : %s -- the discriminants of the enum as the source lists it *)" % en)
        out.append("Definition %s_discr_gen (e : %s) : Z :=\n  match e with %s end." % (
            en, ty, " | ".join("%s => %d%%Z" % (v, i) for i, v in enumerate(world.info["enums"][en]))))
        out.append("")
    for n in world.emitted:
        out.append(world.done[n])
        out.append("")
    q = lambda names: "[" + "; ".join('"%s"' % n for n in names) + "]%string"
    out.append("(* what the translator did with the functions it was asked for *)")
    out.append("From Coq Require Import String.")
    out.append("Definition cbind_gen_translated : list string := %s." % q([n for n in WANTED if n in world.done]))
    out.append("Definition cbind_gen_skipped : list string := %s." % q([n for n in WANTED if n in world.skipped]))
    return "\n".join(out) + "\n", world


def main():
    try:
        text, world = translate()
    except (Structure, OSError) as e:
        print("gen_cbind: refused: %s" % e)
        return 3
    old = open(OUT).read() if os.path.exists(OUT) else None
    if old != text:
        open(OUT, "w").write(text)
    for n in WANTED:
        if n in world.skipped:
            print("skipped %s: %s" % (n, world.skipped[n]))
    print("gen_cbind: %d functions translated (%s), %d skipped%s" % (
        len(world.emitted), ", ".join(world.emitted), len([n for n in WANTED if n in world.skipped]),
        "" if old == text else " [rewritten]"))
    if "--ties" in sys.argv[1:]:
        return check_ties(world, EXTRA_BLOCKS + WANTED, TIE, ("model/ImpX.v", "gen/CBindGen.v"), "CBindTie")
    return 0


if __name__ == "__main__":
    sys.exit(main())
