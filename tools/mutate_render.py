#!/usr/bin/env python3
"""Robustness demonstration for tools/gen_render.py: every edit is applied to a COPY of the crate source, the generator is
run with --ties on the copy, and the outcome is compared with what is expected.  The generated file is regenerated from
the original source at the end."""
import os, shutil, subprocess, sys
ROOT = os.path.dirname(os.path.dirname(os.path.abspath(__file__)))
SRC = os.path.join(ROOT, "repo_src")
MUT = os.path.join(ROOT, "tests", "mut_src")
TOOL = os.path.join(ROOT, "tools", "gen_render.py")


def run(repo):
    env = dict(os.environ, VERIF_REPO=repo)
    r = subprocess.run([sys.executable, TOOL, "--ties"], env=env, stdout=subprocess.PIPE, stderr=subprocess.STDOUT, universal_newlines=True)
    res = {}
    for l in r.stdout.splitlines():
        if l.startswith("tie "):
            n, rest = l[4:].split(":", 1)
            res[n] = rest.strip().split(" ")[0]
    return r.returncode, res, r.stdout


def case(name, rel, edits, expect):
    """edits: [(old, new)] applied to file rel; expect: {tie: OK|FAILED|SKIPPED} (unlisted ties must be OK)"""
    if os.path.exists(MUT):
        shutil.rmtree(MUT)
    shutil.copytree(SRC, MUT)
    path = os.path.join(MUT, rel)
    s = open(path).read()
    for old, new in edits:
        if s.count(old) != 1:
            print("!! %s: pattern occurs %d times: %r" % (name, s.count(old), old[:50]))
            return False
        s = s.replace(old, new)
    open(path, "w").write(s)
    code, res, out = run(MUT)
    ok = True
    for n, v in res.items():
        want = expect.get(n, "OK")
        if v != want:
            ok = False
    for n in expect:
        if n not in res:
            ok = False
    print("%-52s exit %d  %s  %s" % (name, code, " ".join("%s=%s" % (n, v) for n, v in res.items() if v != "OK") or "all OK",
                                    "as expected" if ok else "UNEXPECTED"))
    if not ok:
        print(out)
    return ok


F = "src/formula.rs"
HEAD_C = """    let carbon_count = composition["C"];
    if carbon_count != 0 {
        result.push('C');
        result.push_str(&carbon_count.to_string());
    }
"""
HEAD_H = """    let carbon_count = composition["H"];
    if carbon_count != 0 {
        result.push('H');
        result.push_str(&carbon_count.to_string());
    }
"""
SORT = """    items.sort_by(|a, b| {
        a.0.element
            .symbol
            .cmp(&b.0.element.symbol)
            .then(a.0.isotope.cmp(&b.0.isotope))
    });
"""
LOOP = """    for (key, count) in items {
        // Skip the C and N
        if ((key.element.symbol == "C") || (key.element.symbol == "H")) && key.isotope == 0 {
            continue;
        } else if key.isotope != 0 {
            result.push_str(&format!("{}[{}]{}", key.element.symbol, key.isotope, count));
        } else {
            result.push_str(&format!("{}{}", key.element.symbol, count));
        }
    }
"""
DEP = {"to_formula": "FAILED", "display_comp": "FAILED", "display_vec": "FAILED", "display_map": "FAILED"}
SKIP = {"to_formula": "SKIPPED", "display_comp": "SKIPPED", "display_vec": "SKIPPED", "display_map": "SKIPPED"}
results = []
print("== (a) semantics-changing edits: the affected ties must FAIL")
results.append(case("a1 C/H-first rule dropped (both heads removed)", F, [(HEAD_C, ""), (HEAD_H, "")], DEP))
results.append(case("a2 H head removed only", F, [(HEAD_H, "")], DEP))
results.append(case("a3 H printed before C", F, [(HEAD_C + HEAD_H, HEAD_H + HEAD_C)], DEP))
results.append(case("a4 sort key (symbol, isotope) -> symbol only", F, [(SORT, "    items.sort_by(|a, b| a.0.element.symbol.cmp(&b.0.element.symbol));\n")], DEP))
results.append(case("a5 sort descending (b.cmp(a))", F, [(SORT, "    items.sort_by(|a, b| b.0.element.symbol.cmp(&a.0.element.symbol).then(b.0.isotope.cmp(&a.0.isotope)));\n")], DEP))
results.append(case("a6 no sort at all", F, [(SORT, "")], DEP))
results.append(case("a7 count 1 not printed", F, [("""            result.push_str(&format!("{}{}", key.element.symbol, count));""",
     """            if *count == 1 { result.push_str(&key.element.symbol); } else { result.push_str(&format!("{}{}", key.element.symbol, count)); }""")], DEP))
results.append(case("a8 C head: count 1 not printed", F, [("""        result.push('C');
        result.push_str(&carbon_count.to_string());""", """        result.push('C');
        if carbon_count != 1 { result.push_str(&carbon_count.to_string()); }""")], DEP))
results.append(case("a9 bracket printed for isotope 0", F, [("} else if key.isotope != 0 {", "} else if key.isotope != 0 || key.isotope == 0 {")], DEP))
results.append(case("a10 bracket never printed", F, [("""format!("{}[{}]{}", key.element.symbol, key.isotope, count)""", """format!("{}{}", key.element.symbol, count)""")], DEP))
results.append(case("a11 skip rule: C and N (as the comment says)", F, [("""(key.element.symbol == "H")) && key.isotope == 0""", """(key.element.symbol == "N")) && key.isotope == 0""")], DEP))
results.append(case("a12 skip rule ignores the isotope", F, [("""(key.element.symbol == "H")) && key.isotope == 0 {""", """(key.element.symbol == "H")) {""")], DEP))
results.append(case("a13 C head printed when count > 0 only", F, [("""    let carbon_count = composition["C"];
    if carbon_count != 0 {""", """    let carbon_count = composition["C"];
    if carbon_count > 0 {""")], DEP))
results.append(case("a14 Display for the Map writes a prefix", "src/composition_map.rs",
     [("        f.write_str(&crate::formula::to_formula(self))", """        write!(f, "M{}", crate::formula::to_formula(self))""")], {"display_map": "FAILED"}))
results.append(case("a15 From<&ChemicalComposition> swaps the variants", "src/abstract_composition.rs",
     [("""            ChemicalComposition::Vec(v) => Self::Vec(v),
            ChemicalComposition::Map(m) => Self::Map(m),""", """            ChemicalComposition::Vec(v) => Self::Map(v),
            ChemicalComposition::Map(m) => Self::Vec(m),""")], {"from_comp": "SKIPPED", "display_comp": "SKIPPED"}))
results.append(case("a16 separator between items", F, [("""format!("{}{}", key.element.symbol, count)""", """format!("{}{} ", key.element.symbol, count)""")], DEP))

print("== (b) harmless edits inside the subset: every tie must still hold")
results.append(case("b2 String::new(), counts named differently", F, [("String::with_capacity(composition.len() * 2)", "String::new()"), (HEAD_H, HEAD_H.replace("carbon_count", "hydrogen_count"))], {}))
results.append(case("b3 sort_by_key on (symbol, isotope)", F, [(SORT, "    items.sort_by_key(|a| (a.0.element.symbol.clone(), a.0.isotope));\n")], {}))
results.append(case("b4 conditions reordered / negated, continue as a statement", F, [(LOOP, """    for (spec, n) in items {
        if spec.isotope == 0 && (spec.element.symbol == "H" || spec.element.symbol == "C") {
            continue;
        }
        if spec.isotope == 0 {
            result.push_str(&format!("{}{}", spec.element.symbol, n));
        } else {
            result.push_str(&format!("{}[{}]{}", spec.element.symbol, spec.isotope, n));
        }
    }
""")], {}))
results.append(case("b5 format! replaced by pushes, skip without continue", F, [(LOOP, """    for (key, count) in items {
        if !(((key.element.symbol == "C") || (key.element.symbol == "H")) && key.isotope == 0) {
            result.push_str(&key.element.symbol);
            if key.isotope != 0 {
                result.push('[');
                result.push_str(&key.isotope.to_string());
                result.push(']');
            }
            result.push_str(&count.to_string());
        }
    }
""")], {}))
results.append(case("b6 heads through format!, explicit return", F, [("""        result.push('C');
        result.push_str(&carbon_count.to_string());""", """        result += &format!("C{}", carbon_count);"""), ("    result\n}\n\n#[cfg(test)]", "    return result;\n}\n\n#[cfg(test)]")], {}))
results.append(case("b7 Display through write!", "src/composition_list.rs", [("        f.write_str(&crate::formula::to_formula(self))", """        write!(f, "{}", crate::formula::to_formula(self))""")], {}))
results.append(case("b8 comparison closure with a block and a let-free then", F, [(SORT, """    items.sort_by(|x, y| { x.0.element.symbol.cmp(&y.0.element.symbol).then(x.0.isotope.cmp(&y.0.isotope)) });\n""")], {}))

print("== (c) rewrites outside the subset: the function is skipped (and what needs it)")
results.append(case("c1 loop as an iterator chain", F, [(LOOP, """    items.iter().filter(|(k, _)| !((k.element.symbol == "C" || k.element.symbol == "H") && k.isotope == 0)).for_each(|(key, count)| {
        if key.isotope != 0 { result.push_str(&format!("{}[{}]{}", key.element.symbol, key.isotope, count)); } else { result.push_str(&format!("{}{}", key.element.symbol, count)); }
    });
""")], SKIP))
results.append(case("c2 while loop with an index", F, [(LOOP, """    let mut i = 0;
    while i < items.len() {
        let (key, count) = items[i];
        i += 1;
        if key.isotope != 0 { result.push_str(&format!("{}[{}]{}", key.element.symbol, key.isotope, count)); } else { result.push_str(&format!("{}{}", key.element.symbol, count)); }
    }
""")], SKIP))
results.append(case("c3 sort_unstable_by", F, [("items.sort_by(|a, b| {", "items.sort_unstable_by(|a, b| {")], SKIP))
results.append(case("c4 width in the format string", F, [("""format!("{}{}", key.element.symbol, count)""", """format!("{}{:02}", key.element.symbol, count)""")], SKIP))
results.append(case("c5 Display of the Vec through to_string()", "src/composition_list.rs", [("        f.write_str(&crate::formula::to_formula(self))", """        f.pad(&crate::formula::to_formula(self))""")], {"display_vec": "SKIPPED"}))
results.append(case("c6 Index<&str> of the Ref no longer the dispatch", "src/abstract_composition.rs", [("""            Self::Vec(c) => c.index(key),
            Self::Map(c) => c.index(key),""", """            Self::Vec(c) => c.index(key),
            Self::Map(c) => &0,""")], SKIP))

print("== structure")
if os.path.exists(MUT):
    shutil.rmtree(MUT)
shutil.copytree(SRC, MUT)
p = os.path.join(MUT, F)
txt = open(p).read().replace("    result\n}\n\n#[cfg(test)]", "    result\n\n#[cfg(test)]")
open(p, "w").write(txt)
code, res, out = run(MUT)
print("unbalanced brace in formula.rs: exit %d (%s)" % (code, out.strip().splitlines()[-1]))
results.append(code == 3)
shutil.rmtree(MUT)
code, res, out = run(SRC)
print("original source: exit %d, %s" % (code, " ".join("%s=%s" % kv for kv in res.items())))
results.append(code == 0)
print("ALL AS EXPECTED" if all(results) else "SOME UNEXPECTED")
