#!/usr/bin/env python3
"""robustness demonstration for tools/gen_props.py: edit a scratch copy of src/props.rs / src/abstract_composition.rs,
regenerate coq/gen/PropsGen.v from it, run the per-function ties, and compare with what is expected:

  (a) semantics-changing edits: exactly the ties of the edited function(s) - and of the functions whose blocks need them
      (`needs:` in PropsTie.v) - must be FAILED, every other tie must stay OK;
  (b) harmless edits inside the subset: every tie stays OK;
  (c) rewrites outside the subset: the function is SKIPPED (never FAILED);
  (d) a broken file structure: exit 3.

  python3 tools/mutate_props.py [case ...]      (root of the working copy: the parent of tools/; VERIF_JOBS parallel coqc)
At the end PropsGen.v is regenerated from the pristine source."""
import os, re, shutil, subprocess, sys
ROOT = os.path.dirname(os.path.dirname(os.path.abspath(__file__)))
SRC, MUT = ROOT + "/repo_src", ROOT + "/mut_src"
P, A = "src/props.rs", "src/abstract_composition.rs"
BASE_NOT_OK = set()             # ties that are not OK on the pristine source
ALL3 = lambda f: {"v_" + f, "m_" + f, "a_" + f}

SUB_REF = """            Sub<&'inner C> for &$tp
        {
            type Output = $tp;

            #[inline]
            fn sub(self, other: &'inner C) -> Self::Output {
                let mut inst = self.clone();
                other.iter().for_each(|(k, v)| {
                    inst.inc(*k, %s);"""
ADD_ASSIGN = """            AddAssign<&'inner C> for $tp
        {
            #[inline]
            fn add_assign(&mut self, other: &'inner C) {
                other.iter().for_each(|(k, v)| {
                    self.%s(*k, *v);"""
MUL_VAL = """        impl<'lifespan> Mul<i32> for $tp {
            type Output = $tp;

            #[inline]
            fn mul(self, other: i32) -> Self::Output {
                let mut inst = %s;"""
ADD_REF = """            Add<&'inner C> for &$tp
        {
            type Output = $tp;

            #[inline]
            fn add(self, other: &'inner C) -> Self::Output {
                let mut inst = self.clone();
                %s
                return inst;"""
ADD_VAL = """            Add<&'inner C> for $tp
        {
            type Output = $tp;

            #[inline]
            fn add(self, other: &'inner C) -> Self::Output {
                let mut inst = self.clone();
                %s
                return inst;"""
FOR_EACH = """other.iter().for_each(|(k, v)| {
                    inst.inc(*k, *v);
                });"""

# name: (edits [(file, old, new[, nth])], kind, roots of the expected failures / expected skips)
CASES = {
 # ---- (a) semantics-changing
 "a01_sub_ref_no_negation": ([(P, SUB_REF % "-*v", SUB_REF % "*v")], "fail", ALL3("sub_ref")),
 "a02_add_assign_set_for_inc": ([(P, ADD_ASSIGN % "inc", ADD_ASSIGN % "set")], "fail", ALL3("add_assign")),
 "a03_mul_val_drops_the_clone": ([(P, MUL_VAL % "self.clone()", MUL_VAL % "Self::default()")], "fail", ALL3("mul_val")),
 "a04_neg_mul_by_plus_one": ([(P, "                self._mul_by(-1);\n                self", "                self._mul_by(1);\n                self")],
                             "fail", ALL3("neg")),
 "a05_enum_get_str_vec_arm_get_str": ([(A, "ChemicalComposition::Vec(v) => *v.index(sym),", "ChemicalComposition::Vec(v) => v.get_str(sym),")],
                                      "fail", {"a_get_str"}),
 "a06_enum_inc_map_arm_sets": ([(A, "ChemicalComposition::Map(m) => m.inc(elt_spec, count),", "ChemicalComposition::Map(m) => m.set(elt_spec, count),")],
                               "fail", {"a_inc"}),
 "a07_into_map_returns_vec_unchanged": ([(A, "ChemicalComposition::Vec(c) => Self::Map(c.into()),", "ChemicalComposition::Vec(c) => Self::Vec(c),")],
                                        "fail", {"a_into_map"}),
 "a08_impl_from_inc_for_set": ([(P, "                    inst.set(*k, *v);", "                    inst.inc(*k, *v);")], "fail",
                               {"v_from_m", "m_from_v", "v_from_a", "m_from_a", "a_from_v", "a_from_m"}),
 "a09_like_map_mass_uncached": ([(P, "    fn mass(&self) -> f64 {\n        self.mass()\n    }", "    fn mass(&self) -> f64 {\n        self.calc_mass()\n    }", 1)],
                                "fail", {"lm_mass"}),
 "a10_like_enum_mul_by_map_arm_negates": ([(P, """            AbstractChemicalComposition::Map(c) => {
                *c *= scaler;""", """            AbstractChemicalComposition::Map(c) => {
                *c *= -scaler;""")], "fail", {"la_mul_by"}),
 "a11_enum_inc_str_vec_arm_overwrites": ([(A, "*v.index_mut(elt_spec) += count,", "*v.index_mut(elt_spec) = count,")], "fail", {"a_inc_str"}),
 "a12_enum_add_from_subtracts": ([(A, "            self.inc(*key, *val);", "            self.inc(*key, -(*val));")], "fail", {"a_add_from"}),
 "a13_mul_assign_mut_doubles": ([(P, """        impl<'lifespan> MulAssign<i32> for &mut $tp {
            #[inline]
            fn mul_assign(&mut self, other: i32) {
                self._mul_by(other);""", """        impl<'lifespan> MulAssign<i32> for &mut $tp {
            #[inline]
            fn mul_assign(&mut self, other: i32) {
                self._mul_by(other * 2);""")], "fail", ALL3("mul_assign_mut")),
 "a14_enum_from_pairs_sets": ([(A, "            composition.inc(k, v);", "            composition.set(k, v);")], "fail", {"a_from_pairs_spec"}),
 "a15_enum_default_is_a_map": ([(A, "ChemicalComposition::Vec(ChemicalCompositionVec::default())", "ChemicalComposition::Map(ChemicalCompositionMap::default())")],
                               "fail", {"a_default"}),
 "a16_enum_has_mass_cached_vec_arm": ([(A, "ChemicalComposition::Vec(v) => v.has_mass_cached(),", "ChemicalComposition::Vec(v) => v.is_empty(),")],
                                      "fail", {"a_has_mass_cached"}),
 "a17_into_vec_keeps_the_map": ([(A, "ChemicalComposition::Map(c) => Self::Vec(c.into()),", "ChemicalComposition::Map(c) => Self::Map(c),")],
                                "fail", {"a_into_vec"}),
 "c03_string_literal_argument": ([(A, "ChemicalCompositionRef::Map(m) => m.get(elt_spec),", "ChemicalCompositionRef::Map(m) => m.get_str(\"C\"),")],
                                        "skip", {"r_get"}),
 "a18_enum_eq_ignores_the_counts": ([(A, "other.iter().any(|(k2, v2)| k2 == k && v2 == v)", "other.iter().any(|(k2, _v2)| k2 == k)")], "fail", {"a_eq"}),
 "a19_enum_eq_skips_the_length_test": ([(A, "        if self.len() != other.len() {\n            false", "        if self.len() != self.len() {\n            false")], "fail", {"a_eq"}),
 # ---- (b) harmless edits inside the subset
 "b01_renamed_closure_variables": ([(P, ADD_REF % FOR_EACH, ADD_REF % """other.iter().for_each(|(key, cnt)| {
                    inst.inc(*key, *cnt);
                });""")], "ok", set()),
 "b02_for_loop_instead_of_for_each": ([(P, ADD_VAL % FOR_EACH, ADD_VAL % """for (k, v) in other.iter() {
                    inst.inc(*k, *v);
                }""")], "ok", set()),
 "b03_explicit_return": ([(A, """    pub fn len(&self) -> usize {
        match self {
            ChemicalComposition::Vec(i) => i.len(),
            ChemicalComposition::Map(i) => i.len(),
        }
    }""", """    pub fn len(&self) -> usize {
        return match self {
            ChemicalComposition::Vec(i) => i.len(),
            ChemicalComposition::Map(i) => i.len(),
        };
    }"""), (P, "                dup._mul_by(-1);\n                dup", "                dup._mul_by(-1);\n                return dup;")], "ok", set()),
 "b04_reordered_impls": ([(P, "impl_arithmetic!(ChemicalCompositionMap<'lifespan>);\nimpl_arithmetic!(ChemicalCompositionVec<'lifespan>);",
                           "impl_arithmetic!(ChemicalCompositionVec<'lifespan>);\nimpl_arithmetic!(ChemicalCompositionMap<'lifespan>);"),
                          (A, """            ChemicalComposition::Vec(v) => v.set(elt_spec, count),
            ChemicalComposition::Map(m) => m.set(elt_spec, count),""", """            ChemicalComposition::Map(m) => m.set(elt_spec, count),
            ChemicalComposition::Vec(v) => v.set(elt_spec, count),""")], "ok", set()),
 "b05_tail_expression_instead_of_return": ([(P, """        impl<'lifespan> Mul<i32> for &$tp {
            type Output = $tp;

            #[inline]
            fn mul(self, other: i32) -> Self::Output {
                let mut inst = self.clone();
                inst._mul_by(other);
                return inst;""", """        impl<'lifespan> Mul<i32> for &$tp {
            type Output = $tp;

            #[inline]
            fn mul(self, other: i32) -> Self::Output {
                let mut inst = self.clone();
                inst._mul_by(other);
                inst""")], "ok", set()),
 "b06_renamed_arm_variables": ([(A, """            ChemicalComposition::Vec(v) => v.inc(elt_spec, count),
            ChemicalComposition::Map(m) => m.inc(elt_spec, count),""", """            ChemicalComposition::Vec(inner) => inner.inc(elt_spec, count),
            Self::Map(inner) => inner.inc(elt_spec, count),""")], "ok", set()),
 "b07_parenthesised_negation_and_deref": ([(P, """            SubAssign<&'inner C> for $tp
        {
            #[inline]
            fn sub_assign(&mut self, other: &'inner C) {
                other.iter().for_each(|(k, v)| {
                    self.inc(*k, -*v);""", """            SubAssign<&'inner C> for $tp
        {
            #[inline]
            fn sub_assign(&mut self, other: &'inner C) {
                other.iter().for_each(|(k, v)| {
                    self.inc(*k, -(*v));"""), (P, "        (*self) *= scaler;", "        *self *= scaler;")], "ok", set()),
 "b08_all_harmless_at_once": ("b01 b02 b03 b04 b05 b06 b07", "ok", set()),
 # ---- (c) rewrites outside the subset
 "c01_while_let_loop": ([(P, ADD_REF % FOR_EACH, ADD_REF % """let mut it = other.iter();
                while let Some((k, v)) = it.next() {
                    inst.inc(*k, *v);
                }""")], "skip", ALL3("add_ref")),
 "c02_fold_instead_of_loop": ([(A, """        for (key, val) in other.iter() {
            self.inc(*key, -(*val));
        }""", """        other.iter().fold((), |_, (key, val)| self.inc(*key, -(*val)));""")], "skip", {"a_sub_from"}),
 # ---- (d) broken structure
 "d01_enum_without_map_variant": ([(A, "    Map(ChemicalCompositionMap<'lifespan>),\n}\n\nimpl<'lifespan> PartialEq", "}\n\nimpl<'lifespan> PartialEq")], "exit3", set()),
 "d02_macro_with_two_rules": ([(P, """                inst
            }
        }
    };
}""", """                inst
            }
        }
    };
    () => {};
}""")], "exit3", set()),
}


def needs_graph():
    text = open(ROOT + "/coq/proofs/PropsTie.v").read()
    g = {}
    for m in re.finditer(r"\(\* BEGIN TIE (\w+)(?: \(needs: ([\w ]*)\))? \*\)", text):
        g[m.group(1)] = (m.group(2) or "").split()
    return g


def dependents(roots, g):
    out, changed = set(roots), True
    while changed:
        changed = False
        for n, ds in g.items():
            if n not in out and any(d in out for d in ds):
                out.add(n); changed = True
    return out


def edits_of(name):
    e = CASES[name][0]
    if isinstance(e, str):
        out = []
        for k in e.split():
            out += edits_of([c for c in CASES if c.startswith(k + "_")][0])
        return out
    return e


def run(name, g):
    _, kind, roots = CASES[name]
    if os.path.exists(MUT):
        shutil.rmtree(MUT)
    shutil.copytree(SRC, MUT)
    for ed in edits_of(name):
        rel, old, new = ed[:3]
        p = os.path.join(MUT, rel)
        s = open(p).read()
        if len(ed) == 4:
            parts = s.split(old)
            assert len(parts) > ed[3] + 1, (name, rel, old[:40])
            s = old.join(parts[:ed[3] + 1]) + new + old.join(parts[ed[3] + 1:])
        else:
            assert s.count(old) == 1, (name, rel, s.count(old), old[:60])
            s = s.replace(old, new)
        open(p, "w").write(s)
    env = dict(os.environ, VERIF_REPO=MUT)
    r = subprocess.run([sys.executable, ROOT + "/tools/gen_props.py", "--ties"], env=env, stdout=subprocess.PIPE, stderr=subprocess.STDOUT, universal_newlines=True)
    lines = r.stdout.splitlines()
    verdict = {}
    for l in lines:
        m = re.match(r"tie (\w+): (OK|FAILED|SKIPPED|no block)", l)
        if m:
            verdict[m.group(1)] = m.group(2)
    failed = {n for n, v in verdict.items() if v == "FAILED"}
    skipped = {n for n, v in verdict.items() if v == "SKIPPED"} - BASE_NOT_OK
    ok = sum(v == "OK" for v in verdict.values())
    if kind == "fail":
        exp = {n for n in dependents(roots, g) if n in verdict}
        good = failed == exp and not skipped
        what = "expected FAILED: %s" % " ".join(sorted(exp))
    elif kind == "ok":
        good = not failed and not skipped and r.returncode in (0, 1) and ok > 100
        what = "expected: every tie OK"
    elif kind == "skip":
        exp = {n for n in dependents(roots, g) if n in verdict}
        good = not failed and skipped == exp
        what = "expected SKIPPED (never FAILED): %s" % " ".join(sorted(exp))
    else:
        good = r.returncode == 3
        what = "expected: exit 3"
    print("=== %-42s %s   exit %d, %d OK, %d FAILED, %d SKIPPED (+%d skipped on the pristine source)" % (
        name, "PASS" if good else "**MISMATCH**", r.returncode, ok, len(failed), len(skipped), len(BASE_NOT_OK)))
    print("      %s" % what)
    if failed:
        print("      FAILED: %s" % " ".join(sorted(failed)))
    if skipped:
        print("      SKIPPED: %s" % " ".join(sorted(skipped)))
    for l in lines:
        if l.startswith("skipped") or l.startswith("gen_props: refused"):
            print("      " + l[:200])
    sys.stdout.flush()
    return good


def main():
    g = needs_graph()
    names = sys.argv[1:] or list(CASES)
    res = [(n, run(n, g)) for n in names]
    shutil.rmtree(MUT, ignore_errors=True)
    subprocess.run([sys.executable, ROOT + "/tools/gen_props.py"], env=dict(os.environ, VERIF_REPO=SRC), stdout=subprocess.DEVNULL)
    print("mutate_props: %d of %d cases as expected" % (sum(ok for _, ok in res), len(res)))
    return 0 if all(ok for _, ok in res) else 1


if __name__ == "__main__":
    sys.exit(main())
