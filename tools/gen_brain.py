#!/usr/bin/env python3
"""Translate the numeric core of src/isotopic_pattern/baffling.rs (the BRAIN algorithm) into a SHALLOW embedding in
Gallina over the numeric interface `Num` -> coq/gen/BrainGen.v.  coq/proofs/BrainTie.v then proves that the hand-written
model coq/model/Brain.v computes exactly what this translation computes.  Same style as gen_peak.py (state-passing,
Gallina shadowing = the new value, every function translated INDEPENDENTLY); the new combinators are in
coq/model/ImpB.v.

  python3 tools/gen_brain.py            regenerate coq/gen/BrainGen.v (rewritten only when its content changes)
  python3 tools/gen_brain.py --ties     additionally compile coq/proofs/BrainTie.v block by block (in parallel) and print
                                        `tie <name>: OK | FAILED | SKIPPED` for every target
                                        (--only=a,b: these targets only; --keep: failing block files are left in /tmp)
  python3 tools/gen_brain.py --ties --field   the same in FIELD MODE: the blocks are proved for every ordered field (OField)
                                        with leaves closed up to the field laws; a second chance for a tie that a harmless
                                        floating-point rewrite (operand order, x/t -> x*(1/t), mul_add, ..) broke in strict mode
  python3 tools/gen_brain.py --ties --both    both modes in one run: lines `tie <name> [strict]: ..` and `tie <name> [field]: ..`

A target whose body is outside the subset is skipped (`skipped <name>: <construct>` on stdout, its name in
`brain_gen_skipped` in BrainGen.v), and so is a target that calls a skipped one.  Only an unparseable FILE STRUCTURE
(unbalanced braces, a struct / enum / alias the fixed Gallina records depend on that has changed shape) makes the
translator exit with status 3.

PANICS are explicit (see ImpB.v): a function that contains a usize subtraction, an index, an `unwrap`, a `panic!` or a
call of such a function returns `option T`, None = the panic; the others return T.  i32/i8/usize `+ *` are Z / nat
operations (exact in the absence of overflow); `with_capacity(e)` / `reserve(e)` type-check e and drop it.

TYPES   f64, f32 -> F | usize -> nat | i32, i8 -> Z | u8, u16 -> N | bool | str, String -> string | DVec, Vec<T> -> list |
  Option<T> -> option | (A, B) -> A * B | PolynomialParameters -> Brain.params | PhiConstants -> Brain.phi |
  NumPeaksSpec -> Brain.spec | Peak -> Peak.peak | PeakList -> list peak | IsotopicConstants -> ImpB.iconst |
  IsotopicDistribution -> ImpB.idist | ElementPolynomialMap -> ImpB.pmap | Element, ElementSpecification -> TableModel.elem
  (`.element` is the identity; f64 fields of Element / Isotope are `Brain.micro N <the 1e-6 integer of TableModel>`) |
  Isotope -> TableModel.iso | ChemicalComposition c -> TWO values: c_mass : F (what `c.mass()` returns) and
  c : list (elem * Z) (what `c.iter()` yields, `c.len()` its length).  References are erased (`&x`, `*x` -> x): the
  source is borrow-checked, shared data is immutable.  A `&mut` parameter (and `&mut self`) is passed in and RETURNED:
  result = (declared result, `&mut self`, the `&mut` parameters in order), a 1-tuple being the value itself.

GRAMMAR (comments and string literals are removed first; `#[cfg(test)]` cuts the file)
  fn      := ['pub'] 'fn' name '(' [selfp] (',' param)* ')' ['->' type] block      (no type parameters)
  selfp   := '&' 'self' | '&' 'mut' 'self'            param := name ':' type
  block   := '{' stmt* [expr] '}'
  stmt    := 'let' ['mut'] (name | '_') [':' type] '=' expr ';'
           | place ('=' | '+=' | '-=' | '*=' | '/=') expr ';'       place := name ('.' field | '[' expr ']')*
           | expr ';'          (a call of a function of this file with `&mut` arguments, a mutating Vec method:
                                push / clear / reserve / sort_by(|a, b| a.f.partial_cmp(&b.f).unwrap()), `(a..b).for_each(|i| block)`)
           | 'if' expr block ('else' 'if' expr block)* ['else' block]
           | 'if' 'let' 'Some' '(' name ')' '=' expr block           (the block must end in `return`)
           | 'match' expr '{' (pat '=>' (expr | block) [','])* '}'
           | 'for' lpat 'in' expr block          lpat := name | '_' | '(' lpat ',' lpat ')'
           | 'return' [expr] ';' | 'continue' ';'         (last in their block)
  expr    := or ['..' or]      or := and ('||' and)*      and := cmp ('&&' cmp)*
  cmp     := arith [('=='|'!='|'<'|'<='|'>'|'>=') arith]
  arith   := term (('+'|'-') term)*        term := cast (('*'|'/'|'%') cast)*        cast := unary ('as' type)*
  unary   := ('-' | '!' | '*' | '&' ['mut']) unary | postfix
  postfix := primary ('.' name ['::' '<' type '>'] ['(' args ')'] | '.' int | '[' expr ']')*
  primary := float | int | 'true' | 'false' | name | 'self' | '(' expr [',' expr]* ')' | path '(' args ')' | name '(' args ')'
           | Name '{' (field [':' expr] ',')* '}' | 'if' expr block 'else' block | 'match' .. | name '!' '(' .. ')' (panic only)
           | '|' lpat (',' lpat)* '|' (expr | block)        (closures: arguments of map / for_each / find / fold / unwrap_or_else / sort_by)
  pat     := path ['(' name ')'] | 'Some' '(' name ')' | 'None' | '_'
Iterator expressions are Gallina lists: `v.iter()`, `.iter_mut()` (loops only), `.copied()`, `.zip(w)` -> combine,
`.take(n)` -> firstn, `.map(f)` -> map / map_opt, `.sum()` -> fsum N / zsum, `.find(f)` -> find, `.fold(a, f)` ->
fold_left / fold_opt, `(a..b)` -> range a b.  Typing is checked; an integer literal takes the type of what it meets.
Shadowing is allowed in the outermost block of a function only.  Everything else is refused (the target is skipped)."""
import os, re, subprocess, sys, tempfile
sys.path.insert(0, os.path.dirname(os.path.abspath(__file__)))
import gen_poisson
from gen_src import Refuse, float_lit
from gen_poisson import tokens, ind
from gen_peak import scrub, split_items, vals, Structure

REPO = os.environ.get("VERIF_REPO", "/repo")
COQ = os.path.join(os.path.dirname(os.path.dirname(os.path.abspath(__file__))), "coq")
OUT = os.path.join(COQ, "gen", "BrainGen.v")
TIE = os.path.join(COQ, "proofs", "BrainTie.v")
SRC = os.path.join("src", "isotopic_pattern", "baffling.rs")

# (impl type or "" for a free function, Rust name, Gallina name without `_gen`)
TARGETS = [
    ("", "vietes", "vietes"),
    ("PolynomialParameters", "update_power_sum", "update_power_sum"),
    ("PolynomialParameters", "update_elementary_symmetric_polynomial", "update_elementary_symmetric_polynomial"),
    ("PolynomialParameters", "newton_optimization", "newton_optimization"),
    ("", "max_variants", "max_variants"),
    ("", "guess_npeaks", "guess_npeaks"),
    ("NumPeaksSpec", "num_peaks", "num_peaks"),
    ("IsotopicDistribution", "update_order", "update_order"),
    ("IsotopicConstants", "get", "constants_get"),
    ("IsotopicConstants", "nth_element_power_sum", "nth_element_power_sum"),
    ("IsotopicConstants", "nth_element_power_sum_mass", "nth_element_power_sum_mass"),
    ("IsotopicDistribution", "phi_for", "phi_for"),
    ("IsotopicDistribution", "phi_mass_for", "phi_mass_for"),
    ("IsotopicDistribution", "phi_values", "phi_values"),
    ("IsotopicDistribution", "phi_values_mass", "phi_values_mass"),
    ("IsotopicDistribution", "probability_vector", "probability_vector"),
    ("ElementPolynomialMap", "new", "polymap_new"),
    ("ElementPolynomialMap", "set", "polymap_set"),
    ("ElementPolynomialMap", "get", "polymap_get"),
    ("IsotopicDistribution", "build_polynomial_map", "build_polynomial_map"),
    ("IsotopicDistribution", "center_mass_vector", "center_mass_vector"),
    ("IsotopicDistribution", "isotopic_variants", "dist_isotopic_variants"),
    ("PolynomialParameters", "isotopic_coefficients", "isotopic_coefficients"),
    ("PolynomialParameters", "from_element", "params_from_element"),
    ("PhiConstants", "from_element", "phi_from_element"),
    ("IsotopicConstants", "update", "constants_update"),
]

RESERVED = gen_poisson.RESERVED | set("""for_each for_each_brk for_mut enumerate firstn skipn length map filter fsum orb andb
 true false Some None fold_left geb gtb id Imp ImpL ImpB String string check obind usub idx upd range zrange zsum
 for_each_opt for_range_opt map_opt fold_opt find combine begin end elem iso sym isos Brain begin Lt Eq Gt option
 sort_by_lt ins_by elem_eqb wrap_i32 seq option_map assoc_get i32_as_usize usize_as_i32 usize_as_u16 i32_sat_sub
 mkIConst mkDist mkPMap ic_constants ic_order pm_polynomials d_composition_mass d_composition d_constants d_order
 d_average_mass d_mono d_max_variants iconst idist pmap unit""".split())
RESERVED.discard("begin")


def strip(t):
    """drop redundant outer parentheses (not those of a tuple)"""
    if t.startswith("(") and t.endswith(")") and gen_poisson.balanced(t[1:-1]):
        depth = 0
        for ch in t[1:-1]:
            depth += ch in "(["
            depth -= ch in ")]"
            if ch == "," and depth == 0:
                return t
        return t[1:-1]
    return t


def atom(t):
    if re.fullmatch(r"[A-Za-z_][A-Za-z0-9_'.]*", t) or (t.startswith("(") and t.endswith(")") and gen_poisson.balanced(t[1:-1])):
        return t
    return "(%s)" % t


# ------------------------------------------------------------------ file structure
def impl_target(hv):
    """`impl<..> Name<..>` -> Name; a trait impl (`impl X for Y`) -> None"""
    i = 1
    if i < len(hv) and hv[i] == "<":
        depth = 0
        while i < len(hv):
            depth += hv[i] == "<"
            depth -= hv[i] == ">"
            i += 1
            if depth == 0:
                break
    if "for" in hv[i:]:
        return None
    return hv[i] if i < len(hv) else None


def file_structure(src):
    src = scrub(src).split("#[cfg(test)]")[0]
    try:
        toks = tokens(src)
    except Refuse as e:
        raise Structure(str(e))
    items = split_items(toks, "baffling.rs")
    structs, enums, aliases, fns, uses = {}, {}, {}, {}, []
    for head, body in items:
        hv = vals(head)
        if hv[:1] == ["pub"]:
            head, hv = head[1:], hv[1:]
        if hv[:1] == ["struct"] and body is not None:
            fields, cur, depth = [], [], 0
            for v in vals(body) + [","]:
                depth += v in ("<", "(")
                depth -= v in (">", ")")
                if v == "," and depth == 0:
                    if cur:
                        if cur[0] == "pub":
                            cur = cur[1:]
                            if cur[0] == "(":
                                cur = cur[cur.index(")") + 1:]
                        fields.append(" ".join(x for x in cur))
                    cur = []
                else:
                    cur.append(v)
            structs[hv[1]] = fields
        elif hv[:1] == ["enum"] and body is not None:
            enums[hv[1]] = re.sub(r"# \[ [^\]]* \] ", "", " ".join(vals(body)))
        elif hv[:1] == ["type"]:
            aliases[hv[1]] = " ".join(hv[2:])
        elif hv[:1] == ["use"]:
            uses.append(" ".join(hv[1:]) + ("" if body is None else " { %s }" % " ".join(vals(body))))
        elif hv[:1] == ["fn"] and body is not None:
            key = ("", hv[1])
            if key in fns:
                raise Structure("fn %s defined twice" % hv[1])
            fns[key] = (head, body)
        elif hv[:1] == ["impl"] and body is not None:
            ty = impl_target(hv)
            if ty is None:
                continue
            for h2, b2 in split_items(body, "impl " + ty):
                h2v = vals(h2)
                if h2v[:1] == ["pub"]:
                    h2, h2v = h2[1:], h2v[1:]
                    if h2v[:1] == ["("]:
                        k = h2v.index(")") + 1
                        h2, h2v = h2[k:], h2v[k:]
                if h2v[:1] == ["fn"] and b2 is not None:
                    key = (ty, h2v[1])
                    if key in fns:
                        raise Structure("method %s::%s defined twice" % key)
                    fns[key] = (h2, b2)
    lt = r"(?: ' \w+)?"
    want_structs = {
        "PolynomialParameters": [r"elementary_symmetric_polynomial : DVec", r"power_sum : DVec"],
        "PhiConstants": [r"order : i32", r"element_key : String", r"element_coefficients : PolynomialParameters",
                         r"mass_coefficients : PolynomialParameters"],
        "IsotopicConstants": [r"constants : Vec < \( &" + lt + r" PhiKey , PhiConstants \) >", r"order : i32"],
        "ElementPolynomialMap": [r"polynomials : Vec < \( &" + lt + r" str , DVec \) >"],
        "IsotopicDistribution": [r"composition : ChemicalComposition <" + lt + " >", r"constants : IsotopicConstants <" + lt + " >",
                                 r"order : i32", r"average_mass : f64", r"monoisotopic_peak : Peak", r"max_variants : i32"],
    }
    for name, pats in want_structs.items():
        got = structs.get(name)
        if got is None or len(got) != len(pats) or not all(re.fullmatch(p, g) for p, g in zip(pats, got)):
            raise Structure("struct %s has fields %r" % (name, got))
    if aliases.get("DVec") != "= Vec < f64 >":
        raise Structure("DVec is not Vec<f64>: %r" % aliases.get("DVec"))
    if aliases.get("PhiKey") != "= str":
        raise Structure("PhiKey is not str: %r" % aliases.get("PhiKey"))
    if enums.get("NumPeaksSpec") != "Guess , FixedCount ( i32 ) , PercentSignal ( f32 ) ,":
        raise Structure("enum NumPeaksSpec is %r" % enums.get("NumPeaksSpec"))
    return fns, uses


def check_externals(uses):
    """the other files of the crate the fixed translation of types and imported names relies on"""
    def read(rel):
        return scrub(open(os.path.join(REPO, "src", rel), encoding="utf-8").read())

    def struct_fields(src, name):
        m = re.search(r"pub struct %s(?:<[^>]*>)? \{(.*?)\n\}" % name, src, re.S)
        if not m:
            raise Structure("struct %s not found" % name)
        body = re.sub(r"#\[[^\]]*\]", "", m.group(1))
        return [re.sub(r"\s+", " ", f.strip().rstrip(",")) for f in body.split(",\n") if f.strip()]
    el = read("element.rs")
    if struct_fields(el, "Isotope") != ["pub mass: f64", "pub abundance: f64", "pub neutrons: u16", "pub neutron_shift: NeutronShiftType"]:
        raise Structure("struct Isotope has fields %r" % struct_fields(el, "Isotope"))
    if struct_fields(el, "Element") != ["pub symbol: String", "pub isotopes: HashMap<u16, Isotope, RandomState>",
                                        "pub most_abundant_isotope: u16", "pub most_abundant_mass: f64",
                                        "pub min_neutron_shift: NeutronShiftType", "pub max_neutron_shift: NeutronShiftType",
                                        "pub element_number: ElementNumberType"]:
        raise Structure("struct Element has fields %r" % struct_fields(el, "Element"))
    if not re.search(r"type NeutronShiftType = i8;", el) or not re.search(r"type ElementNumberType = u8;", el):
        raise Structure("NeutronShiftType / ElementNumberType are not i8 / u8")
    m = re.search(r"impl cmp::PartialEq<Element> for Element \{.*?fn eq\(&self, other: &Element\) -> bool \{(.*?)\n    \}", el, re.S)
    if not m or re.sub(r"\s+", " ", m.group(1)).strip() != \
            "if self.symbol != other.symbol || self.most_abundant_isotope != other.most_abundant_isotope { return false; } true":
        raise Structure("Element::eq is not `symbol and most_abundant_isotope`")
    es = read("element_specification.rs")
    if struct_fields(es, "ElementSpecification") != ["pub element: &'element Element", "pub isotope: u16"]:
        raise Structure("struct ElementSpecification has fields %r" % struct_fields(es, "ElementSpecification"))
    pk = read(os.path.join("isotopic_pattern", "peak.rs"))
    if struct_fields(pk, "Peak") != ["pub mz: f64", "pub intensity: f64"] or not re.search(r"pub type PeakList = Vec<Peak>;", pk):
        raise Structure("Peak / PeakList of peak.rs")
    joined = " ; ".join(uses)
    need = {"poisson_approximate_n_peaks_of": r"crate :: isotopic_pattern :: \{[^}]*\bpoisson_approximate_n_peaks_of\b",
            "Peak": r"crate :: isotopic_pattern :: \{[^}]*\bPeak\b", "PeakList": r"crate :: isotopic_pattern :: \{[^}]*\bPeakList\b",
            "mass_charge_ratio": r"crate :: \{[^}]*\bmass_charge_ratio\b", "cmp": r"std :: cmp\b",
            "Element": r"crate :: element :: Element\b"}
    imported = set(k for k, p in need.items() if re.search(p, joined))
    ip = read("isotopic_pattern.rs")
    if not re.search(r"pub use crate::isotopic_pattern::poisson::\{[^}]*\bpoisson_approximate_n_peaks_of\b", ip):
        imported.discard("poisson_approximate_n_peaks_of")
    if not re.search(r"pub use crate::mz::\{[^}]*\bmass_charge_ratio\b", read("lib.rs")):
        imported.discard("mass_charge_ratio")
    return imported


# ------------------------------------------------------------------ parsing to an AST (tuples)
CMP = ("==", "!=", "<", "<=", ">", ">=")
STRUCTS = ("PolynomialParameters", "PhiConstants", "IsotopicConstants", "IsotopicDistribution", "ElementPolynomialMap",
           "Peak", "Self")
KEYWORDS = ("loop", "while", "unsafe", "move", "let", "mut", "as", "fn", "else", "in", "impl", "struct", "break")


class Parser:
    def __init__(self, toks):
        self.t, self.i = toks, 0

    def peek(self, k=0):
        return self.t[self.i + k] if self.i + k < len(self.t) else ("eof", "<end>")

    def at(self, *vs):
        return all(self.peek(k)[1] == v and self.peek(k)[0] != "eof" for k, v in enumerate(vs))

    def context(self):
        return " ".join(v for _, v in self.t[max(0, self.i - 4):self.i + 6])

    def take(self, val=None, kind=None):
        k, v = self.peek()
        if (val is not None and (v != val or k == "eof")) or (kind is not None and k != kind):
            raise Refuse("expected %s, found %r near `%s`" % (val or kind, v, self.context()))
        self.i += 1
        return v

    def end(self):
        if self.peek()[0] != "eof":
            raise Refuse("unexpected %r near `%s`" % (self.peek()[1], self.context()))

    # ---- types: the canonical internal type (references and lifetimes erased; ("mutref", T) kept for parameters)
    def lifetime(self):
        if self.at("'"):
            self.take(); self.take(kind="id")
            return True
        return False

    def type_(self):
        if self.at("&"):
            self.take()
            self.lifetime()
            if self.at("mut"):
                self.take()
                return ("mutref", self.type_())
            return self.type_()
        if self.at("("):
            self.take()
            parts = []
            while not self.at(")"):
                parts.append(self.type_())
                if self.at(","):
                    self.take()
            self.take(")")
            if len(parts) != 2:
                raise Refuse("tuple type of %d components" % len(parts))
            return ("tuple", tuple(parts))
        if self.at("impl") or self.at("dyn"):
            raise Refuse("`%s Trait` type" % self.peek()[1])
        name = self.take(kind="id")
        args = []
        if self.at("<"):
            self.take()
            while not self.at(">"):
                if not self.lifetime():
                    args.append(self.type_())
                if self.at(","):
                    self.take()
                elif not self.at(">"):
                    raise Refuse("generic arguments near `%s`" % self.context())
            self.take(">")
        if self.at("::"):
            raise Refuse("path type `%s::` near `%s`" % (name, self.context()))
        simple = {"f64": "f64", "f32": "f32", "usize": "usize", "i32": "i32", "bool": "bool", "str": "str", "String": "str",
                  "PhiKey": "str", "DVec": ("vec", "f64"), "PeakList": ("vec", "Peak"), "Peak": "Peak",
                  "PolynomialParameters": "Params", "PhiConstants": "Phi", "IsotopicConstants": "IConst",
                  "IsotopicDistribution": "Dist", "NumPeaksSpec": "Spec", "ChemicalComposition": "Comp", "Element": "Elem",
                  "ElementSpecification": "ESpec", "ElementPolynomialMap": "PMap", "Self": "Self"}
        if name in simple and not args:
            return simple[name]
        if name == "Vec" and len(args) == 1:
            return ("vec", args[0])
        if name == "Option" and len(args) == 1:
            return ("opt", args[0])
        raise Refuse("type `%s%s`" % (name, "<..>" if args else ""))

    def signature(self):
        self.take("fn")
        name = self.take(kind="id")
        if self.at("<"):
            # lifetimes only
            j = self.i + 1
            while self.t[j][1] != ">":
                if self.t[j][1] not in ("'", ",") and not (self.t[j][0] == "id" and self.t[j - 1][1] == "'"):
                    raise Refuse("generic function (type parameter `%s`)" % self.t[j][1])
                j += 1
            self.i = j + 1
        self.take("(")
        selfkind, params = None, []
        if self.at("self") or self.at("mut", "self"):
            raise Refuse("by-value `self` receiver")
        if self.at("&", "self"):
            self.i += 2; selfkind = "ref"
        elif self.at("&", "mut", "self"):
            self.i += 3; selfkind = "mutref"
        elif self.at("&", "'"):
            raise Refuse("receiver with a lifetime")
        while not self.at(")"):
            if selfkind is not None or params:
                self.take(",")
                if self.at(")"):
                    break
            if self.at("mut"):
                raise Refuse("`mut` parameter near `%s`" % self.context())
            a = self.take(kind="id"); self.take(":")
            params.append((a, self.type_()))
        self.take(")")
        rty = None
        if self.at("->"):
            self.take()
            rty = self.type_()
        self.end()
        return name, selfkind, params, rty

    # ---- patterns of loops and closures
    def lpat(self):
        if self.at("("):
            self.take()
            a = self.lpat(); self.take(","); b = self.lpat()
            self.take(")")
            return ("ptuple", a, b)
        if self.at("&") or self.at("mut") or self.at("ref"):
            raise Refuse("pattern `%s ..` near `%s`" % (self.peek()[1], self.context()))
        x = self.take(kind="id")
        return ("pwild",) if x.startswith("_") else ("pvar", x)

    # ---- expressions.  nostruct: condition / iterable / scrutinee position
    def expr(self, nostruct=False):
        a = self.or_(nostruct)
        if self.at(".."):
            self.take()
            b = self.or_(nostruct)
            return ("range", a, b)
        if self.peek()[1] in ("..=", "?", "^", "<<", ">>"):
            raise Refuse("operator %r near `%s`" % (self.peek()[1], self.context()))
        return a

    def or_(self, nostruct):
        a = self.and_(nostruct)
        while self.at("||"):
            self.take()
            a = ("logic", "||", a, self.and_(nostruct))
        return a

    def and_(self, nostruct):
        a = self.cmp(nostruct)
        while self.at("&&"):
            self.take()
            a = ("logic", "&&", a, self.cmp(nostruct))
        return a

    def cmp(self, nostruct):
        a = self.arith(nostruct)
        if self.peek()[1] in CMP:
            op = self.take()
            b = self.arith(nostruct)
            if self.peek()[1] in CMP:
                raise Refuse("chained comparison near `%s`" % self.context())
            a = ("cmp", op, a, b)
        return a

    def arith(self, nostruct):
        a = self.term(nostruct)
        while self.peek()[1] in ("+", "-"):
            op = self.take()
            a = ("bin", op, a, self.term(nostruct))
        return a

    def term(self, nostruct):
        a = self.cast(nostruct)
        while self.peek()[1] in ("*", "/", "%"):
            op = self.take()
            a = ("bin", op, a, self.cast(nostruct))
        return a

    def cast(self, nostruct):
        a = self.unary(nostruct)
        while self.peek() == ("id", "as"):
            self.take()
            to = self.take(kind="id")
            if to not in ("f64", "usize", "i32", "u16"):
                raise Refuse("cast `as %s`" % to)
            a = ("cast", a, to)
        return a

    def unary(self, nostruct):
        if self.at("-"):
            self.take()
            return ("neg", self.unary(nostruct))
        if self.at("!"):
            self.take()
            return ("not", self.unary(nostruct))
        if self.at("*"):
            self.take()
            return ("deref", self.unary(nostruct))
        if self.at("&"):
            self.take()
            mut = False
            if self.at("mut"):
                self.take(); mut = True
            return ("addr", mut, self.unary(nostruct))
        if self.at("&&"):
            raise Refuse("`&&x` near `%s`" % self.context())
        return self.postfix(nostruct)

    def closure(self):
        params = []
        if self.at("||"):
            self.take()
        else:
            self.take("|")
            while not self.at("|"):
                params.append(self.lpat())
                if self.at(":"):
                    raise Refuse("typed closure parameter")
                if self.at(","):
                    self.take()
            self.take("|")
        if self.at("{"):
            return ("closure", params, self.block())
        return ("closure", params, ([], self.expr()))

    def args(self):
        self.take("(")
        out = []
        while not self.at(")"):
            if self.at("|") or self.at("||"):
                out.append(self.closure())
            elif self.at("..") and self.peek(1)[1] == ")":
                self.take()
                out.append(("rangefull",))
            else:
                out.append(self.expr())
            if self.at(","):
                self.take()
            elif not self.at(")"):
                raise Refuse("argument list near `%s`" % self.context())
        self.take(")")
        return out

    def postfix(self, nostruct):
        a = self.primary(nostruct)
        while True:
            if self.at("."):
                self.take()
                if self.peek()[0] == "int":
                    a = ("tfield", a, int(self.take()))
                    continue
                if self.peek()[0] == "float":          # `x.0.1` lexed as a float
                    raise Refuse("nested tuple field near `%s`" % self.context())
                f = self.take(kind="id")
                turbo = None
                if self.at("::"):
                    self.take(); self.take("<"); turbo = self.type_(); self.take(">")
                if self.at("("):
                    a = ("mcall", a, f, turbo, self.args())
                else:
                    if turbo is not None:
                        raise Refuse("turbofish without a call")
                    a = ("field", a, f)
            elif self.at("["):
                self.take()
                ix = self.expr()
                self.take("]")
                a = ("index", a, ix)
            elif self.at("?"):
                raise Refuse("operator `?` near `%s`" % self.context())
            else:
                return a

    def match_(self):
        self.take("match")
        scrut = self.expr(True)
        self.take("{")
        arms = []
        while not self.at("}"):
            if self.peek()[0] == "int":
                raise Refuse("literal pattern near `%s`" % self.context())
            path = [self.take(kind="id")]
            while self.at("::"):
                self.take()
                path.append(self.take(kind="id"))
            sub = None
            if self.at("("):
                self.take()
                if self.at("_"):
                    raise Refuse("wildcard sub-pattern")
                sub = self.take(kind="id")
                self.take(")")
            if self.at("|") or self.at("if") or self.at("@"):
                raise Refuse("or-pattern / guard / binding near `%s`" % self.context())
            self.take("=>")
            if self.at("{"):
                body = self.block()
                if self.at(","):
                    self.take()
            else:
                body = ([], self.expr())
                if self.at(","):
                    self.take()
                elif not self.at("}"):
                    raise Refuse("match arm near `%s`" % self.context())
            arms.append((tuple(path), sub, body))
        self.take("}")
        return ("match", scrut, arms)

    def if_(self):
        self.take("if")
        if self.at("let"):
            self.take()
            if not self.at("Some", "("):
                raise Refuse("`if let` with a pattern other than Some(x)")
            self.i += 2
            x = self.take(kind="id")
            self.take(")"); self.take("=")
            e = self.expr(True)
            b = self.block()
            if self.at("else"):
                raise Refuse("`if let .. else`")
            return ("iflet", x, e, b)
        c = self.expr(True)
        b1 = self.block()
        b2 = None
        if self.at("else"):
            self.take()
            if self.at("if"):
                b2 = ([], self.if_())
            else:
                b2 = self.block()
        return ("ifx", c, b1, b2)

    def primary(self, nostruct):
        k, v = self.peek()
        if k == "float":
            self.take()
            return ("float", v)
        if k == "int":
            self.take()
            if self.peek()[0] == "id" and re.fullmatch(r"[iuf]\d+|usize|isize", self.peek()[1]):
                raise Refuse("suffixed literal near `%s`" % self.context())
            return ("int", v.replace("_", ""))
        if k == "op" and v == "(":
            self.take()
            a = self.expr()
            if self.at(","):
                self.take()
                b = self.expr()
                if self.at(","):
                    raise Refuse("tuple of more than two components")
                self.take(")")
                return ("tuple", a, b)
            self.take(")")
            return ("paren", a)
        if k == "op" and v == "{":
            raise Refuse("block expression near `%s`" % self.context())
        if k == "id" and v in ("true", "false"):
            self.take()
            return ("bool", v)
        if k == "id" and v == "if":
            return self.if_()
        if k == "id" and v == "match":
            return self.match_()
        if k == "id":
            if v in KEYWORDS or v in ("for", "return", "continue"):
                raise Refuse("`%s` in expression position near `%s`" % (v, self.context()))
            self.take()
            if self.at("!"):
                if v != "panic":
                    raise Refuse("macro `%s!`" % v)
                self.take(); self.take("(")
                depth = 1
                while depth:
                    kk, vv = self.peek()
                    if kk == "eof":
                        raise Refuse("unterminated macro call")
                    depth += vv == "("
                    depth -= vv == ")"
                    self.i += 1
                return ("panic",)
            if self.at("::"):
                path = [v]
                while self.at("::"):
                    self.take()
                    if self.at("<"):
                        raise Refuse("turbofish near `%s`" % self.context())
                    path.append(self.take(kind="id"))
                if self.at("("):
                    return ("pcall", tuple(path), self.args())
                return ("path", tuple(path))
            if self.at("{") and v in STRUCTS and not nostruct:
                self.take()
                fields = []
                while not self.at("}"):
                    if self.at(".."):
                        raise Refuse("struct update syntax `..`")
                    f = self.take(kind="id")
                    if self.at(":"):
                        self.take()
                        e = self.expr()
                    else:
                        e = ("var", f)
                    fields.append((f, e))
                    if self.at(","):
                        self.take()
                    elif not self.at("}"):
                        raise Refuse("struct literal near `%s`" % self.context())
                self.take("}")
                return ("struct", v, fields)
            if self.at("("):
                return ("call", v, self.args())
            return ("var", v)
        raise Refuse("unexpected %r near `%s`" % (v, self.context()))

    # ---- statements
    def block(self):
        self.take("{")
        stmts, tail = [], None
        while not self.at("}"):
            if tail is not None:
                raise Refuse("an expression that is not last in its block, near `%s`" % self.context())
            k, v = self.peek()
            if k == "eof":
                raise Refuse("unterminated block")
            if (k, v) == ("id", "let"):
                self.take()
                mut = False
                if self.at("mut"):
                    self.take(); mut = True
                if self.peek()[0] != "id":
                    raise Refuse("pattern in `let` near `%s`" % self.context())
                x = self.take(kind="id")
                ty = None
                if self.at(":"):
                    self.take(); ty = self.type_()
                if not self.at("="):
                    raise Refuse("`let %s` without initialiser" % x)
                self.take("=")
                stmts.append(("let", mut, x, ty, self.expr()))
                self.take(";")
            elif (k, v) == ("id", "return"):
                self.take()
                e = None if self.at(";") else self.expr()
                self.take(";")
                stmts.append(("ret", e))
            elif (k, v) == ("id", "continue"):
                self.take()
                if not self.at(";"):
                    raise Refuse("`continue` with a label")
                self.take(";")
                stmts.append(("cont",))
            elif (k, v) == ("id", "for"):
                self.take()
                pat = self.lpat()
                self.take("in")
                it = self.expr(True)
                stmts.append(("for", pat, it, self.block()))
            elif k == "id" and v in KEYWORDS:
                raise Refuse("`%s`" % v)
            else:
                e = self.expr()
                if self.peek()[1] in ("=", "+=", "-=", "*=", "/="):
                    op = self.take()
                    stmts.append(("asg", e, op, self.expr()))
                    self.take(";")
                elif self.peek()[1] in ("%=", "<<=", ">>=", "&=", "|=", "^="):
                    raise Refuse("assignment operator `%s`" % self.peek()[1])
                elif self.at(";"):
                    self.take()
                    stmts.append(("expr", e))
                elif e[0] in ("ifx", "iflet", "match") and not self.at("}"):
                    stmts.append(("expr", e))
                else:
                    tail = e
        self.take("}")
        return (stmts, tail)


def describe(e):
    k = e[0]
    if k == "var":
        return e[1]
    if k == "field":
        return "%s.%s" % (describe(e[1]), e[2])
    if k == "tfield":
        return "%s.%d" % (describe(e[1]), e[2])
    if k == "mcall":
        return "%s.%s(..)" % (describe(e[1]), e[2])
    if k == "pcall":
        return "::".join(e[1]) + "(..)"
    if k == "call":
        return e[1] + "(..)"
    if k == "index":
        return "%s[..]" % describe(e[1])
    if k in ("paren", "deref"):
        return describe(e[1])
    if k == "addr":
        return "&" + describe(e[2])
    return "<%s>" % k


# ------------------------------------------------------------------ types
VF = ("vec", "f64")
INTS = ("usize", "i32", "i8", "u8", "u16")
IMPL_OF = {"Params": "PolynomialParameters", "Phi": "PhiConstants", "IConst": "IsotopicConstants",
           "Dist": "IsotopicDistribution", "PMap": "ElementPolynomialMap", "Spec": "NumPeaksSpec"}
TYPE_OF_IMPL = dict((v, k) for k, v in IMPL_OF.items())
# record type -> (constructor or None for read-only, [(Rust field, accessor format, type)])
RECORDS = {
    "Params": ("Brain.mkParams", [("elementary_symmetric_polynomial", "(Brain.p_esp %s)", VF), ("power_sum", "(Brain.p_ps %s)", VF)]),
    "Phi": ("Brain.mkPhi", [("order", "(Brain.ph_order %s)", "i32"), ("element_key", "(Brain.ph_sym %s)", "str"),
                            ("element_coefficients", "(Brain.ph_el %s)", "Params"), ("mass_coefficients", "(Brain.ph_mass %s)", "Params")]),
    "IConst": ("mkIConst", [("constants", "(ic_constants %s)", ("vec", ("tuple", ("str", "Phi")))), ("order", "(ic_order %s)", "i32")]),
    "Dist": ("mkDist", [("composition", ("(d_composition_mass %s)", "(d_composition %s)"), "Comp"), ("constants", "(d_constants %s)", "IConst"),
                        ("order", "(d_order %s)", "i32"), ("average_mass", "(d_average_mass %s)", "f64"),
                        ("monoisotopic_peak", "(d_mono %s)", "Peak"), ("max_variants", "(d_max_variants %s)", "i32")]),
    "PMap": ("mkPMap", [("polynomials", "(pm_polynomials %s)", ("vec", ("tuple", ("str", VF))))]),
    "Peak": ("Peak.mkPeak", [("mz", "(Peak.mz %s)", "f64"), ("intensity", "(Peak.inten %s)", "f64")]),
    "Elem": (None, [("symbol", "(TableModel.sym %s)", "str"), ("isotopes", "(TableModel.isos %s)", "IsoMap"),
                    ("most_abundant_isotope", "(TableModel.mai %s)", "u16"),
                    ("most_abundant_mass", "(Brain.micro N (TableModel.mam %s))", "f64"),
                    ("min_neutron_shift", "(TableModel.min_shift %s)", "i8"), ("max_neutron_shift", "(TableModel.max_shift %s)", "i8"),
                    ("element_number", "(TableModel.number %s)", "u8")]),
    "ESpec": (None, [("element", "%s", "Elem")]),
    "Iso": (None, [("mass", "(Brain.micro N (TableModel.mass %s))", "f64"), ("abundance", "(Brain.micro N (TableModel.ab %s))", "f64"),
                   ("neutrons", "(TableModel.neutrons %s)", "u16"), ("neutron_shift", "(TableModel.shift %s)", "i8")]),
}
NAMES = {"Params": "PolynomialParameters", "Phi": "PhiConstants", "IConst": "IsotopicConstants", "Dist": "IsotopicDistribution",
         "PMap": "ElementPolynomialMap", "Spec": "NumPeaksSpec", "Comp": "ChemicalComposition", "Elem": "Element",
         "ESpec": "ElementSpecification", "Iso": "Isotope", "IsoMap": "HashMap<u16, Isotope>", "str": "str"}


def show(ty):
    if isinstance(ty, tuple):
        if ty[0] == "tuple":
            return "(%s, %s)" % (show(ty[1][0]), show(ty[1][1]))
        return {"vec": "Vec<%s>", "opt": "Option<%s>", "iter": "Iterator<%s>", "mutref": "&mut %s"}[ty[0]] % show(ty[1])
    return NAMES.get(ty, ty)


def coq_ty(ty):
    if isinstance(ty, tuple):
        if ty[0] == "tuple":
            return "(%s * %s)" % (coq_ty(ty[1][0]), coq_ty(ty[1][1]))
        if ty[0] in ("vec", "iter"):
            return "list %s" % atom_ty(ty[1])
        if ty[0] == "opt":
            return "option %s" % atom_ty(ty[1])
        if ty[0] == "mutref":
            return coq_ty(ty[1])
    table = {"f64": "F", "f32": "F", "usize": "nat", "i32": "Z", "i8": "Z", "u8": "N", "u16": "N", "bool": "bool",
             "str": "String.string", "Params": "@Brain.params F", "Phi": "@Brain.phi F", "Spec": "@Brain.spec F",
             "Peak": "@Peak.peak F", "IConst": "iconst F", "Dist": "idist F", "PMap": "pmap F", "Elem": "elem", "ESpec": "elem",
             "Iso": "iso"}
    if ty not in table:
        raise Refuse("no Gallina type for %s" % show(ty))
    return table[ty]


def atom_ty(ty):
    t = coq_ty(ty)
    return t if re.fullmatch(r"\w+", t) else "(%s)" % t


def root(e):
    if e[0] == "var":
        return e[1]
    if e[0] in ("field", "tfield", "index", "paren", "deref"):
        return root(e[1])
    if e[0] == "addr":
        return root(e[2])
    return None


MUTATING = ("push", "clear", "reserve", "sort_by", "truncate", "extend", "insert", "remove", "drain", "pop")


class NeedOpt(Exception):
    """a panicking operation in a context that is being translated with the plain (non-option) combinators"""


class Ctx:
    def __init__(self, k, ret=None, cont=None, top=False, inloop=False):
        self.k, self.ret, self.cont, self.top, self.inloop = k, ret, cont, top, inloop

    def sub(self, **kw):
        c = Ctx(self.k, self.ret, self.cont, False, self.inloop)
        for a, b in kw.items():
            setattr(c, a, b)
        return c


def ends_in_exit(block):
    return bool(block[0]) and block[1] is None and (block[0][-1][0] in ("ret", "cont") or
                                                   (block[0][-1][0] == "expr" and block[0][-1][1][0] == "panic"))


def has_exit(node):
    """does the statement list / expression contain `return` or `continue` (of the enclosing loop)"""
    if isinstance(node, tuple):
        if node and node[0] in ("ret", "cont"):
            return True
        if node and node[0] == "for":
            return has_ret(node[3])
        if node and node[0] == "closure":
            return False
        return any(has_exit(c) for c in node)
    if isinstance(node, list):
        return any(has_exit(c) for c in node)
    return False


def has_ret(node):
    if isinstance(node, tuple):
        if node and node[0] == "ret":
            return True
        return any(has_ret(c) for c in node)
    if isinstance(node, list):
        return any(has_ret(c) for c in node)
    return False


# ------------------------------------------------------------------ translation of one function
class Fn:
    """env: name -> {ty, mut, idx, coq, out}"""

    def __init__(self, key, gname, selfkind, params, rty, body, world):
        self.key, self.gname, self.selfkind, self.params, self.body, self.world = key, gname, selfkind, params, body, world
        self.selfty = TYPE_OF_IMPL.get(key[0])
        self.rty = self.selfty if rty == "Self" else rty
        self.counter = 0
        self.tc = 0
        self.opt = False
        self.pending = []
        self.calls = []

    def refuse(self, msg):
        raise Refuse(msg)

    # ---- the panic monad
    def scoped(self, thunk):
        """translate with the plain combinators; if a panicking operation turns up, once more in the option monad"""
        outer_opt, outer_pending, start = self.opt, self.pending, self.tc
        try:
            self.opt, self.pending = False, []
            try:
                return thunk(), False
            except NeedOpt:
                pass
            self.tc = start
            self.opt, self.pending = True, []
            return thunk(), True
        finally:
            self.opt, self.pending = outer_opt, outer_pending

    def bind(self, text, pat=None):
        if not self.opt:
            raise NeedOpt()
        if pat is None:
            self.tc += 1
            pat = "t%d" % self.tc
        self.pending.append((pat, text))
        return pat

    def flush(self):
        out = "".join("check %s <- %s;;\n" % (p, t if t.startswith(("(if ", "(match ")) else strip(t)) for p, t in self.pending)
        del self.pending[:]
        return out

    def fin(self, text):
        return "Some %s" % atom(text) if self.opt else text

    # ---- names
    def declare(self, env, x, ty, mut, top, out=False):
        if x in env and not top and env[x]["mut"]:
            self.refuse("`%s` shadows a mutable local in a nested block" % x)
        if x in env and env[x]["out"]:
            self.refuse("`%s` shadows a `&mut` parameter" % x)
        if any(isinstance(v["coq"], tuple) and x in (v["coq"][0], v["coq"][0][:-1]) for v in env.values()):
            self.refuse("local name `%s` clashes with the mass of a ChemicalComposition parameter" % x)
        if x == "self" or not re.fullmatch(r"[a-z_][a-z0-9_]*", x) or x == "_" or x.endswith("_gen") or re.fullmatch(r"t\d+|w\d+", x):
            self.refuse("local name `%s` is reserved or not a plain lower-case identifier" % x)
        cq = x + "_" if x in RESERVED else x
        if cq != x and cq in env:
            self.refuse("local name `%s` (renamed %s) clashes" % (x, cq))
        env = dict(env)
        self.counter += 1
        if ty == "Comp":
            cq = (cq + "_mass", cq)
        env[x] = {"ty": ty, "mut": mut, "idx": self.counter, "coq": cq, "out": out}
        return env

    def bind_pat(self, pat, ty, env, mut=False):
        """declare the variables of a loop / closure pattern -> (env, binder text)"""
        if pat[0] == "pwild":
            return env, "_"
        if pat[0] == "pvar":
            env = self.declare(env, pat[1], ty, mut, False)
            if ty == "Comp":
                self.refuse("a pattern variable of type ChemicalComposition")
            return env, env[pat[1]]["coq"]
        if not (isinstance(ty, tuple) and ty[0] == "tuple"):
            self.refuse("tuple pattern for a %s" % show(ty))
        env, a = self.bind_pat(pat[1], ty[1][0], env, mut)
        env, b = self.bind_pat(pat[2], ty[1][1], env, mut)
        return env, "'(%s, %s)" % (a.lstrip("'"), b.lstrip("'"))

    # ---- literals
    def lit(self, e, want):
        neg = e[0] == "neg"
        v = e[1][1] if neg else e[1]
        if want == "usize" and not neg:
            if int(v) > 100000:
                self.refuse("usize literal %s is too large for a unary nat" % v)
            return "%s%%nat" % v, "usize"
        if want in ("i32", "i8"):
            return ("(-%s)%%Z" % v if neg else "%s%%Z" % v), want
        if want in ("u8", "u16") and not neg:
            return "%s%%N" % v, want
        self.refuse("integer literal %s%s where its type is not determined (%s)" % ("-" if neg else "", v, show(want) if want else "?"))

    @staticmethod
    def is_lit(e):
        return e[0] == "int" or (e[0] == "neg" and e[1][0] == "int")

    # ---- expressions: (text, type); a ChemicalComposition has the text (mass, items)
    def ex(self, e, env, want=None):
        k = e[0]
        if k == "paren":
            return self.ex(e[1], env, want)
        if k == "float":
            t = e[1].replace("_", "")
            if t.endswith("f64"):
                t = t[:-3]
            if re.fullmatch(r"0+\.0+", t):
                return "(zero N)", "f64"
            if re.fullmatch(r"0*1\.0+", t):
                return "(one N)", "f64"
            return float_lit(t), "f64"
        if self.is_lit(e):
            return self.lit(e, want)
        if k == "bool":
            return e[1], "bool"
        if k == "var":
            if e[1] in env:
                return env[e[1]]["coq"], env[e[1]]["ty"]
            self.refuse("unknown name `%s`" % e[1])
        if k == "neg":
            a, ta = self.ex(e[1], env, want)
            if ta == "f64":
                return "(opp N %s)" % a, "f64"
            if ta in ("i32", "i8"):
                return "(Z.opp %s)" % a, ta
            self.refuse("unary minus on %s" % show(ta))
        if k == "not":
            a, ta = self.ex(e[1], env)
            if ta != "bool":
                self.refuse("`!` on %s" % show(ta))
            return "(negb %s)" % a, "bool"
        if k == "deref":
            return self.ex(e[1], env, want)
        if k == "addr":
            return self.ex(e[2], env, want)
        if k == "bin":
            return self.binop(e, env, want)
        if k == "cmp":
            return self.compare(e, env)
        if k == "logic":
            a, ta = self.ex(e[2], env)
            saved = self.pending
            self.pending = []
            try:
                b, tb = self.ex(e[3], env)
                if self.pending:
                    self.refuse("a short-circuit operand that can panic")
            finally:
                self.pending = saved
            if ta != "bool" or tb != "bool":
                self.refuse("`%s` on %s and %s" % (e[1], show(ta), show(tb)))
            return "(%s %s %s)" % ("orb" if e[1] == "||" else "andb", a, b), "bool"
        if k == "cast":
            return self.cast(e, env)
        if k == "field":
            a, ta = self.ex(e[1], env)
            if ta in RECORDS:
                for f, acc, fty in RECORDS[ta][1]:
                    if f == e[2]:
                        if fty == "Comp":
                            return (acc[0] % a, acc[1] % a), "Comp"
                        return acc % a, fty
            self.refuse("field `.%s` of %s" % (e[2], show(ta)))
        if k == "tfield":
            a, ta = self.ex(e[1], env)
            if isinstance(ta, tuple) and ta[0] == "tuple" and e[2] in (0, 1):
                return "(%s %s)" % (("fst", "snd")[e[2]], a), ta[1][e[2]]
            self.refuse("tuple field .%d of %s" % (e[2], show(ta)))
        if k == "index":
            a, ta = self.ex(e[1], env)
            i, ti = self.ex(e[2], env, "usize")
            if not (isinstance(ta, tuple) and ta[0] == "vec") or ti != "usize":
                self.refuse("indexing %s by %s" % (show(ta), show(ti)))
            return self.bind("(idx %s %s)" % (a, i)), ta[1]
        if k == "tuple":
            a, ta = self.ex(e[1], env)
            b, tb = self.ex(e[2], env)
            if "Comp" in (ta, tb):
                self.refuse("a tuple with a ChemicalComposition")
            return "(%s, %s)" % (strip(a), strip(b)), ("tuple", (ta, tb))
        if k == "struct":
            return self.struct(e, env)
        if k == "ifx":
            return self.if_expr(e, env, want)
        if k == "match":
            return self.match_expr(e, env, want)
        if k == "panic":
            return self.bind("(@None unit)"), "never"
        if k == "range":
            a, b, ty = self.range_(e, env)
            return ("(range %s %s)" if ty == "usize" else "(zrange %s %s)") % (a, b), ("iter", ty)
        if k == "call":
            return self.call_value(self.resolve_free(e[1]), None, e[2], env, want, describe(e))
        if k == "pcall":
            return self.pcall(e, env, want)
        if k == "mcall":
            return self.mcall(e, env, want)
        if k == "closure":
            self.refuse("a closure in this position")
        if k == "rangefull":
            self.refuse("`..` in this position")
        if k == "iflet":
            self.refuse("`if let` whose value is used")
        if k == "path":
            self.refuse("path `%s` as a value" % "::".join(e[1]))
        self.refuse("expression form %r" % k)

    def same(self, ta, tb):
        return ta == tb or "never" in (ta, tb) or {ta, tb} == {"Elem", "ESpec"}

    def pair(self, l, r, env, want=None):
        if self.is_lit(l) and not self.is_lit(r):
            b = self.ex(r, env, want)
            return self.ex(l, env, b[1]), b
        a = self.ex(l, env, want)
        return a, self.ex(r, env, a[1])

    def binop(self, e, env, want):
        op = e[1]
        (a, ta), (b, tb) = self.pair(e[2], e[3], env, want if want in INTS else None)
        if ta == "f64" and tb == "f64":
            return "(%s N %s %s)" % ({"+": "add", "-": "sub", "*": "mul", "/": "div", "%": None}[op] or self.refuse("f64 `%`"), a, b), "f64"
        if ta == "usize" and tb == "usize":
            if op == "+":
                return "(Nat.add %s %s)" % (a, b), "usize"
            if op == "*":
                return "(Nat.mul %s %s)" % (a, b), "usize"
            if op == "-":
                return self.bind("(usub %s %s)" % (a, b)), "usize"
            if op in ("/", "%") and e[3][0] == "int" and int(e[3][1]) > 0:
                return "(Nat.%s %s %s)" % ("div" if op == "/" else "modulo", a, b), "usize"
            self.refuse("usize `%s` by something that is not a positive literal" % op)
        if ta == tb and ta in ("i32", "i8"):
            if op in ("+", "-", "*"):
                return "(Z.%s %s %s)" % ({"+": "add", "-": "sub", "*": "mul"}[op], a, b), ta
            self.refuse("%s `%s`" % (ta, op))
        self.refuse("`%s` on %s and %s" % (op, show(ta), show(tb)))

    def compare(self, e, env):
        op = e[1]
        if self.is_lit(e[2]) and self.is_lit(e[3]):
            self.refuse("comparison of two literals")
        (a, ta), (b, tb) = self.pair(e[2], e[3], env)
        if not self.same(ta, tb):
            self.refuse("comparison `%s` of %s and %s" % (op, show(ta), show(tb)))
        if ta in ("str", "Elem", "ESpec", "bool"):
            if op not in ("==", "!="):
                self.refuse("`%s` on %s" % (op, show(ta)))
            if ta == "ESpec":
                self.refuse("`==` on ElementSpecification (the isotope is not modelled)")
            f = {"str": "String.eqb", "Elem": "elem_eqb", "bool": "Bool.eqb"}[ta]
            t = "(%s %s %s)" % (f, a, b)
            return (t if op == "==" else "(negb %s)" % t), "bool"
        if ta == "f64":
            pre = lambda f, x, y: "(%s N %s %s)" % (f, x, y)
        elif ta in INTS:
            m = {"usize": "Nat", "i32": "Z", "i8": "Z", "u8": "N", "u16": "N"}[ta]
            pre = lambda f, x, y: "(%s.%s %s %s)" % (m, f, x, y)
        else:
            self.refuse("comparison `%s` of %s" % (op, show(ta)))
        return {"==": pre("eqb", a, b), "!=": "(negb %s)" % pre("eqb", a, b), "<": pre("ltb", a, b), "<=": pre("leb", a, b),
                ">": pre("ltb", b, a), ">=": pre("leb", b, a)}[op], "bool"

    def cast(self, e, env):
        to = e[2]
        a, ta = self.ex(e[1], env, None if not self.is_lit(e[1]) else to)
        table = {("usize", "f64"): "(of_Z N (Z.of_nat %s))", ("i32", "f64"): "(of_Z N %s)", ("i8", "f64"): "(of_Z N %s)",
                 ("f32", "f64"): "%s", ("f64", "f64"): "%s",
                 ("i32", "usize"): "(i32_as_usize %s)", ("i8", "usize"): "(i32_as_usize %s)", ("u8", "usize"): "(N.to_nat %s)",
                 ("u16", "usize"): "(N.to_nat %s)", ("usize", "usize"): "%s",
                 ("usize", "i32"): "(usize_as_i32 %s)", ("i8", "i32"): "%s", ("i32", "i32"): "%s", ("u8", "i32"): "(Z.of_N %s)",
                 ("u16", "i32"): "(Z.of_N %s)",
                 ("usize", "u16"): "(usize_as_u16 %s)", ("u8", "u16"): "%s", ("u16", "u16"): "%s"}
        if (ta, to) not in table:
            self.refuse("cast of %s as %s" % (show(ta), to))
        return table[(ta, to)] % a, to

    def struct(self, e, env):
        name = e[1]
        which = self.selfty if name == "Self" else {"Peak": "Peak"}.get(name, TYPE_OF_IMPL.get(name))
        if which not in RECORDS or RECORDS[which][0] is None:
            self.refuse("struct literal %s" % name)
        ctor, fields = RECORDS[which]
        names = [f for f, _ in e[2]]
        if sorted(names) != sorted(f for f, _, _ in fields):
            self.refuse("%s literal with fields %s" % (name, names))
        d = {}
        for f, fe in e[2]:
            fty = [t for g, _, t in fields if g == f][0]
            t, ty = self.ex(fe, env, fty)
            if not self.same(ty, fty):
                self.refuse("%s field %s of type %s" % (name, f, show(ty)))
            d[f] = t
        args = []
        for f, _, fty in fields:
            if fty == "Comp":
                args += [atom(d[f][0]), atom(d[f][1])]
            else:
                args.append(atom(d[f]))
        return "(%s %s)" % (ctor, " ".join(args)), which

    def range_(self, e, env):
        (a, ta), (b, tb) = self.pair(e[1], e[2], env)
        if ta != tb or ta not in ("usize", "i32", "i8"):
            self.refuse("range over %s..%s" % (show(ta), show(tb)))
        return a, b, ta

    # ---- blocks that yield a value (closure bodies, branches of if / match expressions)
    def value_blocks(self, items, want=None):
        """items: [(block, env, head)] -> ([texts], type, is_option); translated together: all plain or all option"""
        cell = {"ty": want}

        def one(block, env):
            changed = self.assigned(block[0], env, [])
            if changed:
                self.refuse("a closure or branch whose value is used changes the outer local `%s`" % changed[0])

            def k(env2):
                if block[1] is None:
                    self.refuse("a block whose value is used has no final expression")
                t, ty = self.ex(block[1], env2, cell["ty"])
                if cell["ty"] is None or cell["ty"] == "never":
                    cell["ty"] = ty
                elif not self.same(ty, cell["ty"]):
                    self.refuse("branches of types %s and %s" % (show(cell["ty"]), show(ty)))
                if ty == "Comp":
                    self.refuse("a ChemicalComposition as the value of a block")
                return self.flush() + self.fin(strip(t))
            return self.stmts(block[0], env, Ctx(k))
        texts, isopt = self.scoped(lambda: [one(b, env) for b, env in items])
        return texts, cell["ty"], isopt

    def if_expr(self, e, env, want):
        _, c, b1, b2 = e
        if b2 is None:
            self.refuse("an `if` without `else` whose value is used")
        ct, tc = self.ex(c, env)
        if tc != "bool":
            self.refuse("`if` on a %s" % show(tc))
        (t1, t2), ty, isopt = self.value_blocks([(b1, env), (b2, env)], want)
        multi = "\n" in t1 or "\n" in t2
        text = ("(if %s then\n%s\n else\n%s)" % (strip(ct), ind(t1, 3), ind(t2, 3))) if multi else "(if %s then %s else %s)" % (strip(ct), t1, t2)
        return (self.bind(text) if isopt else text), ty

    def match_head(self, scrut, env):
        """-> (Gallina scrutinee, kind, payload type)"""
        s = scrut
        while s[0] in ("paren", "deref", "addr"):
            s = s[1] if s[0] != "addr" else s[2]
        if s[0] == "mcall" and s[2] == "cmp" and len(s[4]) == 1:
            (a, ta), (b, tb) = self.pair(s[1], s[4][0], env)
            if ta != "usize" or tb != "usize":
                self.refuse("`.cmp` on %s and %s" % (show(ta), show(tb)))
            if "cmp" not in self.world.imported:
                self.refuse("`cmp::Ordering` without `use std::cmp`")
            return "Nat.compare %s %s" % (a, b), "ord", None
        t, ty = self.ex(s, env)
        if ty == "Spec":
            return t, "spec", None
        if isinstance(ty, tuple) and ty[0] == "opt":
            return t, "opt", ty[1]
        self.refuse("`match` on a %s" % show(ty))

    def match_arms(self, arms, kind, payload, env):
        """-> [(Gallina pattern, env of the arm, body)] in Gallina constructor order; exhaustive and without duplicates"""
        table = {"ord": [("Less", "Lt", None), ("Equal", "Eq", None), ("Greater", "Gt", None)],
                 "spec": [("Guess", "Brain.Guess", None), ("FixedCount", "Brain.FixedCount", "i32"), ("PercentSignal", "Brain.PercentSignal", "f32")],
                 "opt": [("Some", "Some", payload), ("None", "None", None)]}[kind]
        prefix = {"ord": [("cmp", "Ordering"), ("Ordering",)], "spec": [("Self",), ("NumPeaksSpec",)], "opt": [()]}[kind]
        if kind == "spec" and self.selfty != "Spec":
            prefix = [("NumPeaksSpec",)]
        out = {}
        for path, sub, body in arms:
            if path == ("_",):
                self.refuse("wildcard match arm")
            if tuple(path[:-1]) not in prefix:
                self.refuse("match pattern `%s`" % "::".join(path))
            row = [r for r in table if r[0] == path[-1]]
            if not row or path[-1] in out:
                self.refuse("match pattern `%s`" % "::".join(path))
            _, ctor, pty = row[0]
            if (sub is None) != (pty is None):
                self.refuse("match pattern `%s` %s a sub-pattern" % ("::".join(path), "needs" if sub is None else "has"))
            aenv, ptext = env, ctor
            if sub is not None:
                if sub.startswith("_"):
                    ptext = "%s _" % ctor
                else:
                    aenv = self.declare(env, sub, pty, False, False)
                    ptext = "%s %s" % (ctor, aenv[sub]["coq"])
            out[path[-1]] = (ptext, aenv, body)
        if len(out) != len(table):
            self.refuse("`match` that is not exhaustive by constructors")
        return [out[r[0]] for r in table]

    def match_expr(self, e, env, want):
        head, kind, payload = self.match_head(e[1], env)
        arms = self.match_arms(e[2], kind, payload, env)
        texts, ty, isopt = self.value_blocks([(body, aenv) for _, aenv, body in arms], want)
        text = "(match %s with\n%s\n end)" % (head, "\n".join(" | %s =>\n%s" % (p, ind(t, 5)) for (p, _, _), t in zip(arms, texts)))
        return (self.bind(text) if isopt else text), ty

    # ---- closures
    def closure_fn(self, cl, ptys, env, want=None):
        """-> (`fun ..  => body`, result type, is_option)"""
        if cl[0] != "closure":
            self.refuse("a function value that is not a closure")
        if len(cl[1]) != len(ptys):
            self.refuse("closure with %d parameters where %d are expected" % (len(cl[1]), len(ptys)))
        cenv, binders = env, []
        for p, ty in zip(cl[1], ptys):
            cenv, b = self.bind_pat(p, ty, cenv)
            binders.append(b)
        (text,), ty, isopt = self.value_blocks([(cl[2], cenv)], want)
        if "\n" in text:
            return "(fun %s =>\n%s)" % (" ".join(binders), ind(text, 4)), ty, isopt
        return "(fun %s => %s)" % (" ".join(binders), text), ty, isopt

    # ---- calls
    def drop(self, e, env, want):
        """type-check an expression whose value is dropped (a capacity)"""
        saved, so = self.pending, self.opt
        self.pending, self.opt = [], True
        try:
            _, ty = self.ex(e, env, want)
        finally:
            self.pending, self.opt = saved, so
        return ty

    def resolve_free(self, name):
        if ("", name) in self.world.fns:
            return ("", name)
        if name in ("poisson_approximate_n_peaks_of", "mass_charge_ratio") and name in self.world.imported:
            return ("<imported>", name)
        self.refuse("call of `%s`, which is neither a function of this file nor a known import" % name)

    def pcall(self, e, env, want):
        path, args = e[1], e[2]
        if len(path) == 2 and path[0] in ("DVec", "Vec", "PeakList") and path[1] in ("new", "with_capacity"):
            if path[1] == "new" and args:
                self.refuse("%s::new with arguments" % path[0])
            if path[1] == "with_capacity":
                if len(args) != 1 or self.drop(args[0], env, "usize") != "usize":
                    self.refuse("with_capacity of something that is not one usize")
            elt = {"DVec": "f64", "PeakList": "Peak"}.get(path[0])
            if elt is None:
                if not (isinstance(want, tuple) and want[0] == "vec"):
                    self.refuse("Vec::%s whose element type is not determined by a field or an annotation" % path[1])
                elt = want[1]
            return "(@nil %s)" % atom_ty(elt), ("vec", elt)
        if path in (("cmp", "min"), ("cmp", "max")) and len(args) == 2 and "cmp" in self.world.imported:
            (a, ta), (b, tb) = self.pair(args[0], args[1], env, want)
            if ta != tb or ta not in ("usize", "i32"):
                self.refuse("cmp::%s on %s and %s" % (path[1], show(ta), show(tb)))
            return "(%s.%s %s %s)" % ("Nat" if ta == "usize" else "Z", path[1], a, b), ta
        if len(path) == 2:
            ty = self.key[0] if path[0] == "Self" else path[0]
            if (ty, path[1]) in self.world.fns:
                return self.call_value((ty, path[1]), None, args, env, want, describe(e))
        self.refuse("call of `%s`" % "::".join(path))

    def call_parts(self, key, recv, args, env, what):
        if key[0] == "<imported>":
            name = key[1]
            ptys, rty = {"poisson_approximate_n_peaks_of": (["f64", "f64"], "usize"),
                         "mass_charge_ratio": (["f64", "i32", "f64"], "f64")}[name]
            if len(args) != len(ptys):
                self.refuse("call of %s with %d arguments" % (name, len(args)))
            texts = []
            for a, pt in zip(args, ptys):
                t, ty = self.ex(a, env, pt if pt in INTS else None)
                if ty != pt:
                    self.refuse("argument of %s has type %s, the parameter has %s" % (name, show(ty), show(pt)))
                texts.append(atom(t))
            return "(%s_gen N %s)" % (name, " ".join(texts)), rty, [], False
        if key == self.key:
            self.refuse("recursive call")
        sig = self.world.sig(key)
        if (sig["selfkind"] is None) != (recv is None):
            self.refuse("`%s` called %s a receiver" % (what, "without" if recv is None else "with"))
        texts, outs = [], []
        if recv is not None:
            t, ty = self.ex(recv, env)
            if ty != sig["selfty"]:
                self.refuse("receiver of %s has type %s" % (what, show(ty)))
            texts.append(atom(t))
            if sig["selfkind"] == "mutref":
                outs.append(recv)
        if len(args) != len(sig["params"]):
            self.refuse("call of %s with %d arguments" % (what, len(args)))
        for arg, (_, pt) in zip(args, sig["params"]):
            if isinstance(pt, tuple) and pt[0] == "mutref":
                if arg[0] == "addr" and arg[1]:
                    place = arg[2]
                elif arg[0] == "var" and arg[1] in env and env[arg[1]]["out"]:
                    place = arg
                else:
                    self.refuse("`&mut` argument `%s` of %s" % (describe(arg), what))
                t, ty = self.ex(place, env)
                if ty != pt[1]:
                    self.refuse("`&mut` argument of %s has type %s" % (what, show(ty)))
                texts.append(atom(t))
                outs.append(place)
                continue
            t, ty = self.ex(arg, env, pt if pt in INTS else None)
            if not self.same(ty, pt):
                self.refuse("argument of %s has type %s, the parameter has %s" % (what, show(ty), show(pt)))
            if pt == "Comp":
                texts += [atom(t[0]), atom(t[1])]
            else:
                texts.append(atom(t))
        for p in outs:
            x = root(p)
            if x is None or x not in env or not env[x]["mut"]:
                self.refuse("%s changes `%s`, which is not a mutable place" % (what, describe(p)))
        if key not in self.calls:
            self.calls.append(key)
        return "(%s_gen N %s)" % (sig["gname"], " ".join(texts)), sig["rty"], outs, sig["partial"]

    def call_value(self, key, recv, args, env, want, what):
        text, rty, outs, partial = self.call_parts(key, recv, args, env, what)
        if outs:
            self.refuse("call of %s, which changes `%s`, inside an expression" % (what, describe(outs[0])))
        if rty is None:
            self.refuse("call of %s, which has no result, as a value" % what)
        return (self.bind(text) if partial else text), rty

    def file_call(self, e, env):
        """(key, receiver, args) if e is a call of a function of this file, else None"""
        if e[0] == "call" and ("", e[1]) in self.world.fns:
            return ("", e[1]), None, e[2]
        if e[0] == "pcall" and len(e[1]) == 2:
            ty = self.key[0] if e[1][0] == "Self" else e[1][0]
            if (ty, e[1][1]) in self.world.fns and ty != "":
                return (ty, e[1][1]), None, e[2]
        if e[0] == "mcall" and root(e[1]) is not None and e[2] not in MUTATING:
            saved, tc = self.pending, self.tc
            self.pending = []
            try:
                _, ty = self.ex(e[1], env)
            except (Refuse, NeedOpt):
                return None
            finally:
                self.pending, self.tc = saved, tc
            if ty in IMPL_OF and (IMPL_OF[ty], e[2]) in self.world.fns:
                return (IMPL_OF[ty], e[2]), e[1], e[4]
        return None

    def mcall(self, e, env, want):
        _, recv, m, turbo, args = e
        if turbo is not None and m != "sum":
            self.refuse("turbofish on `.%s`" % m)
        fc = self.file_call(e, env)
        if fc is not None:
            return self.call_value(fc[0], fc[1], fc[2], env, want, describe(e))
        a, ta = self.ex(recv, env)
        n = len(args)
        if ta == "Comp":
            if m == "mass" and n == 0:
                return a[0], "f64"
            if m == "iter" and n == 0:
                return a[1], ("iter", ("tuple", ("ESpec", "i32")))
            if m == "len" and n == 0:
                return "(List.length %s)" % a[1], "usize"
        if ta == "str" and m in ("as_ref", "clone", "as_str") and n == 0:
            return a, "str"
        if ta == "f64" and m in ("abs", "is_finite", "is_infinite") and n == 0:
            return "(%s N %s)" % (m, a), ("f64" if m == "abs" else "bool")
        if ta == "f64" and m == "mul_add" and n == 2:
            # a.mul_add(b, c) = a*b + c with one rounding: Num.fma (equal to a*b + c in an ordered field: OField.of_fma)
            b, tb = self.ex(args[0], env, "f64")
            c, tc3 = self.ex(args[1], env, "f64")
            if tb != "f64" or tc3 != "f64":
                self.refuse("mul_add(%s, %s)" % (show(tb), show(tc3)))
            return "(fma N %s %s %s)" % (a, b, c), "f64"
        if ta == "usize" and m in ("saturating_sub", "min", "max") and n == 1:
            b, tb = self.ex(args[0], env, "usize")
            if tb != "usize":
                self.refuse("%s(%s)" % (m, show(tb)))
            return "(Nat.%s %s %s)" % ({"saturating_sub": "sub"}.get(m, m), a, b), "usize"
        if ta == "i32" and m in ("saturating_sub", "min", "max") and n == 1:
            b, tb = self.ex(args[0], env, "i32")
            if tb != "i32":
                self.refuse("%s(%s)" % (m, show(tb)))
            return ("(i32_sat_sub %s %s)" if m == "saturating_sub" else "(Z.%s %%s %%s)" % m) % (a, b), "i32"
        if ta == "IsoMap":
            if m == "len" and n == 0:
                return "(List.length %s)" % a, "usize"
            if m == "get" and n == 1:
                b, tb = self.ex(args[0], env, "u16")
                if tb != "u16":
                    self.refuse("isotopes.get(%s)" % show(tb))
                return "(assoc_get %s %s)" % (b, a), ("opt", "Iso")
        if isinstance(ta, tuple) and ta[0] == "vec":
            if m == "len" and n == 0:
                return "(List.length %s)" % a, "usize"
            if m in ("iter", "into_iter") and n == 0:
                return a, ("iter", ta[1])
            if m == "clone" and n == 0:
                return a, ta
            if m == "iter_mut":
                self.refuse("`iter_mut()` that is not what a `for` loop iterates")
        if isinstance(ta, tuple) and ta[0] == "iter":
            elt = ta[1]
            if m in ("copied", "cloned") and n == 0:
                return a, ta
            if m == "zip" and n == 1:
                b, tb = self.ex(args[0], env)
                if not (isinstance(tb, tuple) and tb[0] in ("vec", "iter")):
                    self.refuse("zip with a %s" % show(tb))
                return "(combine %s %s)" % (a, b), ("iter", ("tuple", (elt, tb[1])))
            if m == "take" and n == 1:
                b, tb = self.ex(args[0], env, "usize")
                if tb != "usize":
                    self.refuse("take(%s)" % show(tb))
                return "(firstn %s %s)" % (b, a), ta
            if m == "map" and n == 1:
                f, ty, isopt = self.closure_fn(args[0], [elt], env)
                if isopt:
                    return self.bind("(map_opt %s %s)" % (f, a)), ("iter", ty)
                return "(map %s %s)" % (f, a), ("iter", ty)
            if m == "sum" and n == 0:
                if elt not in ("f64", "i32") or (turbo is not None and turbo != elt) or (want is not None and want != elt):
                    self.refuse("`sum` of %s" % show(ta))
                return ("(fsum N %s)" if elt == "f64" else "(zsum %s)") % a, elt
            if m == "find" and n == 1:
                f, ty, isopt = self.closure_fn(args[0], [elt], env)
                if isopt or ty != "bool":
                    self.refuse("`find` with a predicate that can panic or is not bool")
                return "(find %s %s)" % (f, a), ("opt", elt)
            if m == "fold" and n == 2:
                i, ti = self.ex(args[0], env, want)
                f, ty, isopt = self.closure_fn(args[1], [ti, elt], env, ti)
                if ty != ti:
                    self.refuse("`fold` from %s with a step to %s" % (show(ti), show(ty)))
                if isopt:
                    return self.bind("(fold_opt %s %s %s)" % (f, a, i)), ti
                return "(fold_left %s %s %s)" % (f, a, i), ti
        if isinstance(ta, tuple) and ta[0] == "opt":
            if m == "map" and n == 1:
                f, ty, isopt = self.closure_fn(args[0], [ta[1]], env)
                if isopt:
                    self.refuse("Option::map with a closure that can panic")
                return "(option_map %s %s)" % (f, a), ("opt", ty)
            if m == "unwrap" and n == 0:
                return self.bind(a), ta[1]
            if m == "unwrap_or_else" and n == 1 and args[0][0] == "closure" and not args[0][1] and args[0][2] == ([], ("panic",)):
                return self.bind(a), ta[1]
        self.refuse("method `.%s(..)` on %s" % (m, show(ta)))

    # ---- assignable places: a local followed by fields
    def set_place(self, place, env, val, what):
        """text that makes the root local of `place` the record rebuilt around the new value"""
        while place[0] in ("paren", "deref"):
            place = place[1]
        if place[0] == "var":
            x = place[1]
            if x not in env or not env[x]["mut"]:
                self.refuse("%s of `%s`, which is not a mutable local" % (what, x))
            if env[x]["ty"] == "Comp":
                self.refuse("%s of a ChemicalComposition" % what)
            return "let %s := %s in\n" % (env[x]["coq"], strip(val))
        if place[0] == "field":
            base, f = place[1], place[2]
            saved = self.pending
            self.pending = []
            try:
                bt, bty = self.ex(base, env)
                if self.pending:
                    self.refuse("%s through an index" % what)
            finally:
                self.pending = saved
            if bty not in RECORDS or RECORDS[bty][0] is None:
                self.refuse("%s of field `.%s` of %s" % (what, f, show(bty)))
            ctor, fields = RECORDS[bty]
            if f not in [g for g, _, _ in fields]:
                self.refuse("%s of field `.%s` of %s" % (what, f, show(bty)))
            args = []
            for g, acc, fty in fields:
                if fty == "Comp":
                    if g == f:
                        self.refuse("%s of a ChemicalComposition field" % what)
                    args += [acc[0] % bt, acc[1] % bt]
                else:
                    args.append(atom(val) if g == f else acc % bt)
            return self.set_place(base, env, "%s %s" % (ctor, " ".join(args)), what)
        self.refuse("%s of `%s`, which is not a local followed by fields" % (what, describe(place)))

    # ---- which outer locals a piece of code changes
    def assigned(self, node, env, acc):
        def add(x):
            if x is not None and x in env and env[x]["mut"] and x not in acc:
                acc.append(x)

        def walk(o):
            if isinstance(o, list):
                for c in o:
                    walk(c)
                return
            if not isinstance(o, tuple) or not o:
                return
            if o[0] == "asg":
                add(root(o[1]))
            elif o[0] == "mcall":
                if o[2] in MUTATING or o[2] in self.world.mut_methods:
                    add(root(o[1]))
                if o[2] == "iter_mut":
                    add(root(o[1]))
            elif o[0] == "addr" and o[1]:
                add(root(o[2]))
            if o[0] in ("call", "pcall", "mcall"):
                for a in o[-1]:
                    if a[0] == "var" and a[1] in env and env[a[1]]["out"]:
                        add(a[1])
            for c in o:
                walk(c)
        walk(node)
        return sorted(acc, key=lambda x: env[x]["idx"])

    @staticmethod
    def tup(names):
        return names[0] if len(names) == 1 else "(" + ", ".join(names) + ")"

    @staticmethod
    def pat(names):
        return names[0] if len(names) == 1 else "'(" + ", ".join(names) + ")"

    def state(self, xs, env):
        return [env[x]["coq"] for x in xs]

    def letbind(self, pat, text, isopt):
        if isopt:
            if not self.opt:
                raise NeedOpt()
            return "check %s <- %s;;\n" % (pat, text if text.startswith(("(if ", "(match ")) else strip(text))
        return "let %s := %s in\n" % (pat, text if text.startswith(("(if ", "(match ")) else strip(text))

    # ---- statements.  ctx.k(env): the text after normal completion; ctx.ret(text or None), ctx.cont(): exits
    def stmts(self, ss, env, ctx):
        if not ss:
            return ctx.k(env)
        s, rest = ss[0], ss[1:]
        kind = s[0]
        again = lambda env2: self.stmts(rest, env2, ctx)
        if kind == "let":
            return self.let(s, env, ctx, again)
        if kind == "asg":
            return self.assign(s, env) + again(env)
        if kind == "ret":
            if ctx.ret is None:
                self.refuse("`return` inside a loop, a closure or an `if`/`match` that does not itself end in an exit")
            if rest:
                self.refuse("statements after `return`")
            return ctx.ret(s[1], env)
        if kind == "cont":
            if ctx.cont is None:
                self.refuse("`continue` outside a `for` loop of the subset")
            if rest:
                self.refuse("statements after `continue`")
            return ctx.cont(env)
        if kind == "for":
            return self.loop(s[1], s[2], s[3], env, ctx, again)
        if kind == "expr":
            e = s[1]
            if e[0] == "ifx":
                return self.if_stmt(e, env, ctx, again, bool(rest))
            if e[0] == "iflet":
                return self.iflet_stmt(e, env, ctx, again)
            if e[0] == "match":
                return self.match_stmt(e, env, ctx, again, bool(rest))
            if e[0] == "panic":
                if not self.opt:
                    raise NeedOpt()
                return "None"
            if e[0] == "mcall" and e[2] == "for_each" and len(e[4]) == 1 and e[4][0][0] == "closure":
                cl = e[4][0]
                if len(cl[1]) != 1:
                    self.refuse("for_each closure with %d parameters" % len(cl[1]))
                if has_ret(cl[2]):
                    self.refuse("`return` inside a for_each closure")
                return self.loop(cl[1][0], e[1], cl[2], env, ctx.sub(ret=None), again, closure=True)
            fc = self.file_call(e, env)
            if fc is not None:
                return self.call_stmt(fc, None, env, describe(e)) + again(env)
            if e[0] == "mcall" and e[2] in MUTATING:
                return self.vec_stmt(e, env) + again(env)
            self.refuse("expression statement `%s;`" % describe(e))
        self.refuse("statement form %r" % kind)

    def let(self, s, env, ctx, again):
        _, mut, x, ty, rhs = s
        if ty == "Self":
            ty = self.selfty
        if rhs[0] == "match" and any(ends_in_exit(b) for _, _, b in rhs[2]):
            return self.let_match(s, env, ctx, again)
        fc = self.file_call(rhs, env) if rhs[0] in ("call", "pcall", "mcall") else None
        if fc is not None and any(isinstance(pt, tuple) and pt[0] == "mutref" for _, pt in self.world.sig(fc[0])["params"]) \
                or (fc is not None and self.world.sig(fc[0])["selfkind"] == "mutref"):
            sig = self.world.sig(fc[0])
            if sig["rty"] is None:
                self.refuse("let %s = <a call without result>" % x)
            env2 = self.declare(env, x, sig["rty"], mut, ctx.top)
            if ty is not None and ty != sig["rty"]:
                self.refuse("let %s: declared %s, initialiser has %s" % (x, show(ty), show(sig["rty"])))
            return self.call_stmt(fc, env2[x]["coq"], env, describe(rhs)) + again(env2)
        t, te = self.ex(rhs, env, ty)
        pre = self.flush()
        if isinstance(te, tuple) and te[0] == "iter":
            self.refuse("let %s = <an iterator>" % x)
        if te in ("Comp", "never"):
            self.refuse("let %s of type %s" % (x, show(te)))
        if ty is not None and ty != te:
            self.refuse("let %s: declared %s, initialiser has %s" % (x, show(ty), show(te)))
        env2 = self.declare(env, x, te, mut, ctx.top)
        return pre + "let %s := %s in\n%s" % (env2[x]["coq"], strip(t), again(env2))

    def let_match(self, s, env, ctx, again):
        """let x = match opt { Some(y) => <value>, None => { ..exit } };"""
        _, mut, x, ty, rhs = s
        head, kind, payload = self.match_head(rhs[1], env)
        pre = self.flush()
        arms = self.match_arms(rhs[2], kind, payload, env)
        live = [a for a in arms if not ends_in_exit(a[2])]
        if len(live) != 1:
            self.refuse("a `let .. = match` with exits that has %d arms with a value" % len(live))
        out = []
        for ptext, aenv, body in arms:
            if ends_in_exit(body):
                t = self.stmts(body[0], aenv, ctx.sub(k=lambda _e: self.refuse("an exit arm that completes")))
            else:
                if body[0] or body[1] is None:
                    self.refuse("the value arm of a `let .. = match` with exits is not a single expression")
                v, tv = self.ex(body[1], aenv, ty)
                if ty is not None and ty != tv:
                    self.refuse("let %s: declared %s, the arm has %s" % (x, show(ty), show(tv)))
                p2 = self.flush()
                env2 = self.declare(aenv, x, tv, mut, ctx.top)
                t = p2 + "let %s := %s in\n%s" % (env2[x]["coq"], strip(v), again(env2))
            out.append("| %s =>\n%s" % (ptext, ind(t, 4)))
        return pre + "match %s with\n%s\nend" % (head, "\n".join(out))

    def call_stmt(self, fc, letname, env, what):
        key, recv, args = fc
        text, rty, outs, partial = self.call_parts(key, recv, args, env, what)
        pre = self.flush()
        names, later = [], []
        if rty is not None:
            names.append(letname if letname is not None else "_")
        elif letname is not None:
            self.refuse("let of %s, which has no result" % what)
        for p in outs:
            q = p
            while q[0] in ("paren", "deref"):
                q = q[1]
            if q[0] == "var":
                names.append(env[q[1]]["coq"])
            else:
                self.tc += 1
                w = "w%d" % self.tc
                names.append(w)
                later.append((q, w))
        if not names:
            self.refuse("call of %s, which has neither a result nor a `&mut` argument" % what)
        if names == ["_"]:
            self.refuse("call of %s whose result is dropped" % what)
        out = pre + self.letbind(self.pat(names), text, partial)
        for q, w in later:
            out += self.set_place(q, env, w, "the `&mut` argument")
        return out

    def vec_stmt(self, e, env):
        _, recv, m, _, args = e
        cur, tc = self.ex(recv, env)
        if not (isinstance(tc, tuple) and tc[0] == "vec"):
            self.refuse("`.%s(..)` on `%s` of type %s" % (m, describe(recv), show(tc)))
        if m == "push" and len(args) == 1:
            t, te = self.ex(args[0], env, tc[1] if tc[1] in INTS else None)
            if not self.same(te, tc[1]):
                self.refuse("push of a %s on a %s" % (show(te), show(tc)))
            return self.flush() + self.set_place(recv, env, "%s ++ [%s]" % (cur, strip(t)), "push")
        if m == "clear" and not args:
            return self.flush() + self.set_place(recv, env, "@nil %s" % atom_ty(tc[1]), "clear")
        if m == "reserve" and len(args) == 1:
            if self.drop(args[0], env, "usize") != "usize":
                self.refuse("reserve of something that is not a usize")
            x = root(recv)
            if x is None or x not in env or not env[x]["mut"]:
                self.refuse("reserve on `%s`, which is not a mutable place" % describe(recv))
            return ""
        if m == "sort_by" and len(args) == 1:
            cl = args[0]
            ok = cl[0] == "closure" and len(cl[1]) == 2 and all(p[0] == "pvar" for p in cl[1]) and cl[2][0] == []
            body = cl[2][1] if ok else None
            ok = ok and body[0] == "mcall" and body[2] == "unwrap" and not body[4] and body[1][0] == "mcall" \
                and body[1][2] == "partial_cmp" and len(body[1][4]) == 1
            if ok:
                a, b = cl[1][0][1], cl[1][1][1]
                lhs, rhs = body[1][1], body[1][4][0]
                ok = lhs[0] == "field" and lhs[1] == ("var", a) and rhs == ("addr", False, ("field", ("var", b), lhs[2]))
            if not ok:
                self.refuse("sort_by with a comparator other than |a, b| a.f.partial_cmp(&b.f).unwrap()")
            cenv = self.declare(self.declare(env, a, tc[1], False, False), b, tc[1], False, False)
            ka, tka = self.ex(lhs, cenv)
            kb, _ = self.ex(("field", ("var", b), lhs[2]), cenv)
            if tka != "f64":
                self.refuse("sort_by on a key of type %s" % show(tka))
            f = "(fun %s %s => ltb N %s %s)" % (cenv[a]["coq"], cenv[b]["coq"], ka, kb)
            return self.flush() + self.set_place(recv, env, "sort_by_lt %s %s" % (f, cur), "sort_by")
        self.refuse("`.%s(..)` on a Vec" % m)

    def assign(self, s, env):
        _, lv, op, e = s
        place = lv
        while place[0] in ("paren", "deref"):
            place = place[1]
        if place[0] == "index":
            vec, ix = place[1], place[2]
            v, tv = self.ex(vec, env)
            i, ti = self.ex(ix, env, "usize")
            if not (isinstance(tv, tuple) and tv[0] == "vec") or ti != "usize":
                self.refuse("assignment to `%s`" % describe(lv))
            t, te = self.ex(e, env, tv[1] if tv[1] in INTS else None)
            if not self.same(te, tv[1]):
                self.refuse("`%s %s <%s>`" % (describe(lv), op, show(te)))
            cur = self.bind("(idx %s %s)" % (v, i))
            if op == "=":
                val = t
            elif tv[1] == "f64":
                val = "(%s N %s %s)" % ({"+=": "add", "-=": "sub", "*=": "mul", "/=": "div"}[op], cur, t)
            else:
                self.refuse("`%s` on an element of type %s" % (op, show(tv[1])))
            return self.flush() + self.set_place(vec, env, "upd %s %s %s" % (v, i, atom(val)), "assignment")
        cur, tc = self.ex(place, env)
        t, te = self.ex(e, env, tc if tc in INTS else None)
        if not self.same(te, tc) or tc == "Comp":
            self.refuse("`%s %s <%s>` where the place has type %s" % (describe(lv), op, show(te), show(tc)))
        if op == "=":
            val = t
        elif tc == "f64":
            val = "%s N %s %s" % ({"+=": "add", "-=": "sub", "*=": "mul", "/=": "div"}[op], cur, t)
        elif tc in ("i32", "i8") and op in ("+=", "-=", "*="):
            val = "Z.%s %s %s" % ({"+=": "add", "-=": "sub", "*=": "mul"}[op], cur, t)
        elif tc == "usize" and op == "+=":
            val = "Nat.add %s %s" % (cur, t)
        else:
            self.refuse("`%s` on a %s" % (op, show(tc)))
        return self.flush() + self.set_place(place, env, val, "assignment")

    @staticmethod
    def unit(block):
        """the statements of a block whose value is not used"""
        if block is None:
            return []
        return block[0] + ([("expr", block[1])] if block[1] is not None else [])

    def cond(self, c, env):
        ct, tc = self.ex(c, env)
        if tc != "bool":
            self.refuse("`if` on a %s" % show(tc))
        return self.flush(), strip(ct)

    def if_stmt(self, e, env, ctx, again, has_rest):
        _, c, b1, b2 = e
        pre, ct = self.cond(c, env)
        s1, s2 = self.unit(b1), self.unit(b2)
        if has_exit(s1) or has_exit(s2):
            e1, e2 = ends_in_exit((s1, None)), b2 is not None and ends_in_exit((s2, None))
            if not (e1 or e2):
                self.refuse("an `if` containing `return`/`continue` none of whose branches ends in it")
            if e1 and e2 and has_rest:
                self.refuse("statements after an `if` both of whose branches exit")
            after = lambda _env: again(env)
            t1 = self.stmts(s1, env, ctx.sub(k=after))
            t2 = self.stmts(s2, env, ctx.sub(k=after)) if b2 is not None else again(env)
            return pre + "if %s then\n%s\nelse\n%s" % (ct, ind(t1), t2)
        xs = self.assigned([s1, s2], env, [])
        if not xs:
            self.refuse("an `if` statement that assigns no outer local")
        names = self.state(xs, env)

        def thunk():
            fin = lambda _env: self.fin(self.tup(names))
            sub = ctx.sub(k=fin, ret=None, cont=None)
            return self.stmts(s1, env, sub), (self.stmts(s2, env, sub) if b2 is not None else fin(env))
        (t1, t2), isopt = self.scoped(thunk)
        text = "(if %s then\n%s\n else\n%s)" % (ct, ind(t1, 3), ind(t2, 3))
        return pre + self.letbind(self.pat(names), text, isopt) + again(env)

    def iflet_stmt(self, e, env, ctx, again):
        _, x, oe, block = e
        t, ty = self.ex(oe, env)
        pre = self.flush()
        if not (isinstance(ty, tuple) and ty[0] == "opt"):
            self.refuse("`if let Some(..)` on a %s" % show(ty))
        ss = self.unit(block)
        if not ends_in_exit((ss, None)):
            self.refuse("an `if let` whose block does not end in an exit")
        benv, b = (env, "_") if x.startswith("_") else (self.declare(env, x, ty[1], False, False), None)
        if b is None:
            b = benv[x]["coq"]
        t1 = self.stmts(ss, benv, ctx.sub(k=lambda _e: self.refuse("an exit block that completes")))
        return pre + "match %s with\n| Some %s =>\n%s\n| None =>\n%s\nend" % (strip(t), b, ind(t1, 4), ind(again(env), 4))

    def match_stmt(self, e, env, ctx, again, has_rest):
        head, kind, payload = self.match_head(e[1], env)
        pre = self.flush()
        arms = self.match_arms(e[2], kind, payload, env)
        bodies = [self.unit(b) for _, _, b in arms]
        if any(has_exit(b) for b in bodies):
            live = [b for b in bodies if not ends_in_exit((b, None))]
            if len(live) > 1 and has_rest:
                self.refuse("a `match` with exits more than one of whose arms continues into the following statements")
            after = lambda _env: again(env)
            out = ["| %s =>\n%s" % (p, ind(self.stmts(b, aenv, ctx.sub(k=after)), 4)) for (p, aenv, _), b in zip(arms, bodies)]
            return pre + "match %s with\n%s\nend" % (head, "\n".join(out))
        xs = self.assigned(bodies, env, [])
        if not xs:
            self.refuse("a `match` statement that assigns no outer local")
        names = self.state(xs, env)

        def thunk():
            fin = lambda _env: self.fin(self.tup(names))
            return [self.stmts(b, aenv, ctx.sub(k=fin, ret=None, cont=None)) for (_, aenv, _), b in zip(arms, bodies)]
        texts, isopt = self.scoped(thunk)
        text = "(match %s with\n%s\n end)" % (head, "\n".join(" | %s =>\n%s" % (p, ind(t, 5)) for (p, _, _), t in zip(arms, texts)))
        return pre + self.letbind(self.pat(names), text, isopt) + again(env)

    def named_pat(self, pat, ty, env):
        """like bind_pat, every component named (an iter_mut element is rebuilt): -> (env, binder, value)"""
        if pat[0] == "pwild":
            self.tc += 1
            return env, "w%d" % self.tc, "w%d" % self.tc
        if pat[0] == "pvar":
            env = self.declare(env, pat[1], ty, True, False)
            return env, env[pat[1]]["coq"], env[pat[1]]["coq"]
        if not (isinstance(ty, tuple) and ty[0] == "tuple"):
            self.refuse("tuple pattern for a %s" % show(ty))
        env, a, va = self.named_pat(pat[1], ty[1][0], env)
        env, b, vb = self.named_pat(pat[2], ty[1][1], env)
        return env, "'(%s, %s)" % (a.lstrip("'"), b.lstrip("'")), "(%s, %s)" % (va, vb)

    def loop(self, pat, it, body, env, ctx, again, closure=False):
        if body[1] is not None and not closure:
            body = (body[0] + [("expr", body[1])], None)
        ss = self.unit(body)
        if has_ret(ss):
            self.refuse("`return` inside a loop")
        it0 = it
        while it0[0] == "paren":
            it0 = it0[1]
        if it0[0] == "mcall" and it0[2] == "iter_mut" and not it0[4]:
            recv = it0[1]
            lt, tl = self.ex(recv, env)
            pre = self.flush()
            if not (isinstance(tl, tuple) and tl[0] == "vec"):
                self.refuse("iter_mut() on a %s" % show(tl))
            x = root(recv)
            if x is None or x not in env or not env[x]["mut"]:
                self.refuse("iter_mut() on `%s`, which is not a mutable place" % describe(recv))
            if self.assigned(ss, env, []):
                self.refuse("an iter_mut loop that also assigns the outer local `%s`" % self.assigned(ss, env, [])[0])
            start = self.tc
            cell = {}

            def thunk():
                self.tc = start
                benv, binder, value = self.named_pat(pat, tl[1], env)
                cell["b"] = binder
                fin = lambda _e: self.fin(value)
                return self.stmts(ss, benv, Ctx(fin, None, fin, False, True))
            bt, isopt = self.scoped(thunk)
            text = "(%s (fun %s =>\n%s\n  ) %s)" % ("map_opt" if isopt else "for_mut", cell["b"], ind(bt, 4), lt)
            if isopt:
                text = self.bind(text)
            return pre + self.flush() + self.set_place(recv, env, text, "iter_mut") + again(env)
        if it0[0] == "range":
            a, b, ty = self.range_(it0, env)
            if ty == "usize":
                head, elt = ("for_range", "%s %s" % (a, b)), "usize"
            else:
                head, elt = ("for_each", "(zrange %s %s)" % (a, b)), ty
        else:
            lt, tl = self.ex(it0, env)
            if not (isinstance(tl, tuple) and tl[0] in ("iter", "vec")):
                self.refuse("iteration over a %s" % show(tl))
            head, elt = ("for_each", lt), tl[1]
        pre = self.flush()
        xs = self.assigned(ss, env, [])
        if not xs:
            self.refuse("a loop that assigns no outer local")
        names = self.state(xs, env)
        benv, binder = self.bind_pat(pat, elt, env)

        def thunk():
            fin = lambda _e: self.fin(self.tup(names))
            return self.stmts(ss, benv, Ctx(fin, None, fin, False, True))
        bt, isopt = self.scoped(thunk)
        text = "%s%s %s (fun %s %s =>\n%s\n  ) %s" % (head[0], "_opt" if isopt else "", head[1], binder, self.pat(names), ind(bt, 4), self.tup(names))
        return pre + self.letbind(self.pat(names), text, isopt) + again(env)

    # ---- the function
    def translate(self):
        env, binders, outs = {}, [], []
        if self.selfkind is not None:
            if self.selfty is None:
                self.refuse("a method of a type without a Gallina counterpart")
            self.counter += 1
            m = self.selfkind == "mutref"
            env["self"] = {"ty": self.selfty, "mut": m, "idx": self.counter, "coq": "self", "out": m}
            binders.append("(self : %s)" % coq_ty(self.selfty))
            if m:
                outs.append("self")
        for a, ty in self.params:
            if isinstance(ty, tuple) and ty[0] == "mutref":
                env = self.declare(env, a, ty[1], True, True, out=True)
                outs.append(a)
                binders.append("(%s : %s)" % (env[a]["coq"], coq_ty(ty[1])))
            elif ty == "Comp":
                env = self.declare(env, a, ty, False, True)
                binders.append("(%s : F) (%s : list (elem * Z))" % env[a]["coq"])
            else:
                env = self.declare(env, a, ty, False, True)
                binders.append("(%s : %s)" % (env[a]["coq"], coq_ty(ty)))
        body = self.body
        if self.rty is None:
            if not outs:
                self.refuse("a function without result and without `&mut` parameters")
            ss, tail = self.unit(body), None
        else:
            ss, tail = body

        def result(val, env2):
            return self.tup(([val] if val is not None else []) + [env2[o]["coq"] for o in outs])

        def value(e, env2):
            t, te = self.ex(e, env2, self.rty)
            if not self.same(te, self.rty):
                self.refuse("returns a %s, declared %s" % (show(te), show(self.rty)))
            return self.flush() + self.fin(result(strip(t) if not outs else atom(t), env2))

        def k(env2):
            if self.rty is None:
                return self.fin(result(None, env2))
            if tail is None:
                self.refuse("the body can end without a value")
            return value(tail, env2)

        def ret(e, env2):
            if (e is None) != (self.rty is None):
                self.refuse("`return` with%s a value" % ("out" if e is None else ""))
            return self.fin(result(None, env2)) if e is None else value(e, env2)
        text, isopt = self.scoped(lambda: self.stmts(ss, env, Ctx(k, ret, None, True, False)))
        comps = ([coq_ty(self.rty)] if self.rty is not None else []) + [coq_ty(env[o]["ty"]) for o in outs]
        rt = " * ".join(atom_ty_text(c) if len(comps) > 1 else c for c in comps)
        if isopt:
            rt = "option (%s)" % rt
        self.partial = isopt
        return "Definition %s_gen {F : Type} (N : Num F) %s : %s :=\n%s." % (self.gname, " ".join(binders), rt, ind(text))


def atom_ty_text(t):
    return t if re.fullmatch(r"\w+", t) else "(%s)" % t


# ------------------------------------------------------------------ the functions of the file, translated on demand
class World:
    def __init__(self, fns, imported):
        self.fns, self.imported = fns, imported
        self.done, self.skipped, self.emitted, self.active = {}, {}, [], []
        self.mut_methods = set()
        for key, (head, _) in fns.items():
            hv = vals(head)
            if "self" in hv and hv[hv.index("self") - 1] == "mut":
                self.mut_methods.add(key[1])
        self.gnames = dict(((ty, n), g) for ty, n, g in TARGETS)

    def gname(self, key):
        if key in self.gnames:
            return self.gnames[key]
        same = [k for k in self.fns if k[1] == key[1]]
        taken = set(self.gnames.values())
        g = key[1] if len(same) == 1 and key[1] not in taken else "%s_%s" % (key[0].lower(), key[1])
        return g

    def attempt(self, key):
        if key in self.done or key in self.skipped:
            return
        if key not in self.fns:
            self.skipped[key] = "no such function in the file"
            return
        if key in self.active:
            raise Refuse("recursive call cycle through `%s`" % key[1])
        self.active.append(key)
        try:
            head, body = self.fns[key]
            _, selfkind, params, rty = Parser(head).signature()
            ast = Parser([("op", "{")] + body + [("op", "}")]).block()
            fn = Fn(key, self.gname(key), selfkind, params, rty, ast, self)
            text = fn.translate()
            self.done[key] = {"gname": fn.gname, "selfkind": selfkind, "selfty": fn.selfty, "params": params, "rty": fn.rty,
                              "partial": fn.partial, "text": text, "calls": fn.calls}
            self.emitted.append(key)
        except Refuse as e:
            self.skipped[key] = str(e)
        finally:
            self.active.pop()

    def sig(self, key):
        self.attempt(key)
        if key in self.skipped:
            raise Refuse("calls `%s`, which is skipped (%s)" % (key[1] if not key[0] else "%s::%s" % key, self.skipped[key]))
        return self.done[key]


def translate():
    src = open(os.path.join(REPO, SRC), encoding="utf-8").read()
    fns, uses = file_structure(src)
    world = World(fns, check_externals(uses))
    for ty, name, _ in TARGETS:
        world.attempt((ty, name))
    out = ["(* GENERATED by tools/gen_brain.py from src/isotopic_pattern/baffling.rs -- do not edit *)",
           "From Coq Require Import ZArith NArith Arith List Bool.", "From Coq Require String.",
           "From CE Require Import Num Mz Peak TableModel Brain Imp ImpL ImpB SrcGen PoissonGen.",
           "Import ListNotations.", "Local Open Scope list_scope.", ""]
    for key in world.emitted:
        out.append(world.done[key]["text"])
        out.append("")
    q = lambda names: "[" + "; ".join('"%s"' % n for n in names) + "]%string"
    out.append("(* what the translator did with the functions it was asked for (helpers are translated on demand) *)")
    out.append("Import String.")
    out.append("Definition brain_gen_translated : list string := %s." % q([g for t, n, g in TARGETS if (t, n) in world.done]))
    out.append("Definition brain_gen_skipped : list string := %s." % q([g for t, n, g in TARGETS if (t, n) in world.skipped]))
    return "\n".join(out) + "\n", world


# ------------------------------------------------------------------ which ties of BrainTie.v still hold
FIELD_CONTEXT = "Context (OF : OField N). Add Field TieField : (of_field N OF)."
FIELD_LEAF = "Ltac leaf := leaf_field."


def field_mode(text):
    """BrainTie.v as it is compiled by --ties --field: the ties are then proved for every ORDERED FIELD (an extra section
    hypothesis OF : OField N) instead of every Num, and the leaves of the proofs may use the field laws.  Two marker
    lines of the strict text are replaced; nothing else changes and the result is never written to the repository."""
    lines = text.split("\n")
    ctx = [i for i, l in enumerate(lines) if l.strip() == "(* FIELD-MODE-CONTEXT *)"]
    leaf = [i for i, l in enumerate(lines) if l.strip() == "Ltac leaf := leaf_strict. (* FIELD-MODE-LEAF *)"]
    if len(ctx) != 1 or len(leaf) != 1:
        raise Structure("BrainTie.v: expected exactly one FIELD-MODE-CONTEXT line and one FIELD-MODE-LEAF line (found %d, %d)"
                        % (len(ctx), len(leaf)))
    ind_of = lambda l: l[:len(l) - len(l.lstrip())]
    lines[ctx[0]] = ind_of(lines[ctx[0]]) + FIELD_CONTEXT
    lines[leaf[0]] = ind_of(lines[leaf[0]]) + FIELD_LEAF
    return "\n".join(lines)


def check_ties(world):
    """compile BrainTie.v block by block: common text + the block of one function + the blocks it needs.
    --field: in field mode; --both: in both modes (lines `tie <name> [strict|field]: ..`)"""
    strict_text = re.sub(r"(?m)^Print Assumptions \w+\.\n", "", open(TIE, encoding="utf-8").read())
    both = "--both" in sys.argv[1:]
    modes = ["strict", "field"] if both else (["field"] if "--field" in sys.argv[1:] else ["strict"])
    texts = {}
    for mode in modes:
        try:
            texts[mode] = field_mode(strict_text) if mode == "field" else strict_text
        except Structure as e:
            print("tie check: %s" % e)
            return 1

    def split(text):
        blocks, common, pos = {}, [], 0
        for m in re.finditer(r"\(\* BEGIN TIE (\w+)(?: \(needs: ([\w ]*)\))? \*\)\n(.*?)\(\* END TIE \1 \*\)\n", text, re.S):
            common.append(text[pos:m.start()])
            common.append("@@%s@@" % m.group(1))
            blocks[m.group(1)] = ((m.group(2) or "").split(), m.group(3))
            pos = m.end()
        common.append(text[pos:])
        return blocks, common
    parts = {mode: split(texts[mode]) for mode in modes}

    def closure(blocks, n, acc):
        for d in blocks[n][0]:
            if d in blocks and d not in acc:
                closure(blocks, d, acc)
        if n not in acc:
            acc.append(n)
        return acc
    run = lambda args, cwd: subprocess.run(args, cwd=cwd, stdout=subprocess.PIPE, stderr=subprocess.STDOUT, universal_newlines=True)
    for f in ("model/ImpB.v", "gen/BrainGen.v"):
        r = run(["coqc", "-Q", ".", "CE", "-w", "-notation-overridden", f], COQ)
        if r.returncode != 0:
            print("tie check: %s does not compile\n%s" % (f, r.stdout))
            return 1
    only = [a[7:].split(",") for a in sys.argv[1:] if a.startswith("--only=")]
    from concurrent.futures import ThreadPoolExecutor
    with tempfile.TemporaryDirectory() as tmp:
        def one(job):
            mode, (ty, name, g) = job
            blocks, common = parts[mode]
            tag = "tie %s%s" % (g, " [%s]" % mode if both else "")
            if (ty, name) in world.skipped:
                return "%s: SKIPPED (%s)" % (tag, world.skipped[(ty, name)])
            if g not in blocks:
                return "%s: no block in BrainTie.v" % tag
            keep = closure(blocks, g, [])
            body = "".join(c if not c.startswith("@@") else (blocks[c[2:-2]][1] if c[2:-2] in keep else "") for c in common)
            stem = "BrainTie_%s%s" % (g, "_field" if mode == "field" else "")
            path = os.path.join(tmp, stem + ".v")
            open(path, "w").write(body)
            r = run(["coqc", "-Q", COQ, "CE", "-w", "-notation-overridden", path], tmp)
            if r.returncode == 0:
                return "%s: OK" % tag
            msg = [l for l in r.stdout.splitlines() if l.strip() and not l.startswith("Closed under")]
            if "--keep" in sys.argv[1:]:
                open("/tmp/%s.v" % stem, "w").write(body)
                open("/tmp/%s.log" % stem, "w").write(r.stdout)
            return "%s: FAILED (%s)" % (tag, " | ".join(msg[-3:])[:300])
        todo = [(mode, t) for mode in modes for t in TARGETS if not only or t[2] in only[0]]
        with ThreadPoolExecutor(max_workers=min(14, os.cpu_count() or 1)) as pool:
            results = list(pool.map(one, todo))
    for line in results:
        print(line)
    bad = sum(1 for line in results if not line.endswith(": OK"))
    return 1 if bad else 0


def main():
    try:
        text, world = translate()
    except (Structure, OSError) as e:
        print("gen_brain: refused: %s" % e)
        return 3
    old = open(OUT).read() if os.path.exists(OUT) else None
    if old != text:
        open(OUT, "w").write(text)
    nskip = 0
    for ty, name, g in TARGETS:
        if (ty, name) in world.skipped:
            nskip += 1
            print("skipped %s: %s" % (g, world.skipped[(ty, name)]))
    print("gen_brain: %d functions translated (%s), %d skipped%s" % (
        len(world.emitted), ", ".join(world.done[k]["gname"] for k in world.emitted), nskip, "" if old == text else " [rewritten]"))
    if "--ties" in sys.argv[1:]:
        return check_ties(world)
    return 0


if __name__ == "__main__":
    sys.exit(main())
