#!/usr/bin/env python3
"""Translate the functions of src/element.rs (`Isotope`, `Element`, `PeriodicTable`), of src/helper.rs
(`ChemicalElements`) and the three entry points of src/abstract_composition.rs the helper calls, into a SHALLOW embedding
in Gallina -> coq/gen/ElementGen.v.  coq/proofs/ElementTie.v then proves that the hand-written model of the code that
consumes the table (coq/model/TableModel.v: calc_max / calc_min, the index step inside build_elem, tbl_insert, tbl_get,
build_table; Comp.v: tbl_find; ESpec.v / Formula.v: the two parsers over a GIVEN table) computes exactly what this
translation computes.  (src/table.rs itself, the data, is translated by tools/gen_table.py.)

The vocabulary is that of coq/model/ImpT.v.  HashMaps are the model's OWN association lists (TableModel.assoc_insert /
assoc_get for HashMap<u16, Isotope>, ImpT.sm_insert / sm_get for HashMap<String, Element>); their ITERATION order is an
oracle (`iter_order`, of which the ties assume nothing but that it permutes the entries); integer casts and checked
arithmetic are explicit (wrap_u / wrap_s / chk_s / chk_u).  Functions of src/element_specification.rs and src/formula.rs
are called as the definitions of gen/ESpecGen.v and gen/FormulaGen.v: what is tied there is WHICH TABLE they are given.

Every function is translated INDEPENDENTLY: a function whose body is outside the subset is skipped (`skipped <name>:
<construct>` on stdout, its name in `element_gen_skipped` in ElementGen.v), and so is a function that calls a skipped
one.  Only a broken FILE STRUCTURE (unbalanced brackets, no struct Isotope / Element / PeriodicTable with the expected
fields, no inherent impl of Element) makes the translator exit with status 3.

  python3 tools/gen_element.py            regenerate coq/gen/ElementGen.v (rewritten only when its content changes)
  python3 tools/gen_element.py --ties     additionally compile coq/proofs/ElementTie.v block by block (a block = the
                                          lemmas of one function, between `(* BEGIN TIE f (needs: ...) *)` and
                                          `(* END TIE f *)`) and print `tie <f>: OK | FAILED | SKIPPED` per function
  VERIF_REPO=<dir>                        the crate root (default /repo)

FUNCTIONS (generated name <- source)
  mass calc_min_neutron_shift calc_max_neutron_shift isotope_by_shift index_isotopes   <- impl Element
  pt_new pt_add pt_get / pt_index          <- impl PeriodicTable (new, add, get) / impl Index<&str> for PeriodicTable
  isotope_eq / isotope_partial_cmp         <- impl PartialEq / PartialOrd for Isotope
  ce_make_periodic_table ce_new ce_parse_formula ce_parse_element       <- src/helper.rs: impl ChemicalElements
  cc_parse_with cc_parse / cc_from_str     <- src/abstract_composition.rs: impl ChemicalComposition / impl FromStr
NOT translated here: Element::eq and Element::hash (they are element_eq_gen / element_hash_gen of gen/ESpecGen.v, tied in
ESpecTie.v), Isotope::hash, the Display impls, Default.
Every generated definition takes {F} (NF : Num F) (iter_order : list (N * iso) -> list (N * iso)) (uni : oracles)
(fuel : nat) (PERIODIC_TABLE : ptable) (populate_periodic_table : ptable -> ptable) first: the f64 interface, the
iteration order of HashMap<u16, Isotope>, the Unicode oracles and the recursion fuel of the formula parser, the global
table of crate::table, and table.rs's populate function (a state transformer on the table it is given).

TRANSLATION (state-passing; effects are sequenced in evaluation order; Gallina shadowing = the new value)
  i8 / i16 / i32 / i64 -> Z, u8 / u16 / u32 / usize -> N, f64 -> F over `Num`, bool, &str -> str, String -> string,
  Isotope -> iso, Element -> elem, PeriodicTable -> ptable (its one field `elements` is the table), HashMap<u16, Isotope, _>
  -> list (N * iso), Option<T> -> option T, an iterator -> list, cmp::Ordering -> comparison, ElementSpecification ->
  espec, ChemicalComposition -> ents, Result<ElementSpecification, _> -> eres espec, Result<ChemicalComposition, _> ->
  fres ents, ChemicalElements -> chem_elements, FormulaParser -> cfg.  Shared references are erased.
  * a function without a panicking construct has its plain type T; with one, `pres T` (POk / PPanic), or EPanic /
    FPanic when it returns one of the two Result types.  A `&mut self` function returning () yields the new self.
  * `let x = e;` -> let x := e in;   `self.f = e;` (Element fields) -> let self := set_f self e in;   `x = e;` likewise
  * `if c { ..; return e; } rest` -> if c then .. e else rest;  `if c {..} else {..}`, `match o { Some(x) => .., None
    => .. }` as a value -> if / match with the continuation in every branch;  `return e;` -> e
  * m[&k] / m[s] -> match assoc_get k m / sm_get s m with None => <panic> | Some t => .. end;  o.unwrap() /
    r.unwrap() likewise;  `a + b` / `a - b` / `a * b` at an integer type -> match chk_s / chk_u bits (a + b) with None =>
    <panic> | Some t => .. end (the debug-build overflow check);  `x as T` -> x (value-preserving) | wrap_s bits x |
    wrap_u bits x
  * m.values() / keys() -> hm_values / hm_keys iter_order m;  it.map(|x| e) -> map (fun x => e) it;  it.min() / max()
    -> iter_min / iter_max;  o.unwrap_or(d) -> unwrap_or o d;  m.get(&k) -> assoc_get k m / sm_get k m;
    `m.insert(k, v);` on self.isotopes / self.elements -> let self := set_isos self (assoc_insert k v (isos self)) /
    sm_insert k v self in;  `S { ..Default::default() }` (PeriodicTable, derives Default) -> the empty table;
    Element::default() (derives Default) -> mkE "" [] 0 0 0 0 0
  * e.symbol -> sym e, e.isotopes -> isos e, e.most_abundant_isotope -> mai e, e.most_abundant_mass -> of_dec NF (mam e)
    6, e.min_neutron_shift / max_neutron_shift -> min_shift / max_shift e, e.element_number -> number e, i.mass /
    i.abundance -> of_dec NF (mass i / ab i) 6 (the model's reading of the f64 fields), i.neutrons, i.neutron_shift ->
    neutrons i, shift i;  1e-3 -> of_dec NF 1 3;  a.abs() -> abs NF a;  a - b -> sub NF a b;  a > b -> ltb NF b a;
    a.partial_cmp(&b) -> f_partial_cmp NF a b;  == != < <= > >= on integers -> Z. / N.eqb ltb leb;  || && ! -> orb andb
    negb (the right operand must not panic)
  * ElementSpecification::parse_with(s, T) -> ESpecGen.parse_with_gen PERIODIC_TABLE _ s T;  ::parse(s) -> parse_gen;
    FormulaParser::default() -> FormulaParser_default_gen;  p.parse_formula_with_table_generic(s, T) (p a `let mut`
    local, not used afterwards) -> fres_map fst (parse_formula_with_table_generic_gen (with_table uni T)
    (parse_with_table_gen (with_table uni T) fuel) p s);  s.parse() where a Result<ChemicalComposition, _> is expected ->
    cc_from_str_gen;  populate_periodic_table(&mut t); -> let t := populate_periodic_table t in;  &PERIODIC_TABLE ->
    PERIODIC_TABLE;  ChemicalElements { .. } -> mkCE (fields evaluated in the order written)
The grammar is that of tools/gen_comp.py (its parser is imported), plus float literals with an exponent.  Typing is
checked.  Loops, closures with effects, tuple patterns, struct literals of Isotope / Element, assignments under a
conditional, a `&mut self` function that can panic, and every other construct are refused (the function is skipped)."""
import os, re, subprocess, sys, tempfile
sys.path.insert(0, os.path.dirname(os.path.abspath(__file__)))
from gen_src import Refuse, float_lit
from gen_poisson import ind, strip, atom
from gen_espec import Structure, is_op, split_items, drop_vis, impl_header, fields_of
from gen_comp import Parser, unparen, diverges

REPO = os.environ.get("VERIF_REPO", "/repo")
COQ = os.path.join(os.path.dirname(os.path.dirname(os.path.abspath(__file__))), "coq")
OUT = os.path.join(COQ, "gen", "ElementGen.v")
TIE = os.path.join(COQ, "proofs", "ElementTie.v")

# generated name -> (file, impl type, trait or None, source fn name)
UNITS = [
    ("mass", "element.rs", "Element", None, "mass"),
    ("calc_min_neutron_shift", "element.rs", "Element", None, "calc_min_neutron_shift"),
    ("calc_max_neutron_shift", "element.rs", "Element", None, "calc_max_neutron_shift"),
    ("isotope_by_shift", "element.rs", "Element", None, "isotope_by_shift"),
    ("index_isotopes", "element.rs", "Element", None, "index_isotopes"),
    ("pt_new", "element.rs", "PeriodicTable", None, "new"),
    ("pt_add", "element.rs", "PeriodicTable", None, "add"),
    ("pt_get", "element.rs", "PeriodicTable", None, "get"),
    ("pt_index", "element.rs", "PeriodicTable", "Index", "index"),
    ("isotope_eq", "element.rs", "Isotope", "PartialEq", "eq"),
    ("isotope_partial_cmp", "element.rs", "Isotope", "PartialOrd", "partial_cmp"),
    ("cc_parse_with", "abstract_composition.rs", "ChemicalComposition", None, "parse_with"),
    ("cc_from_str", "abstract_composition.rs", "ChemicalComposition", "FromStr", "from_str"),
    ("cc_parse", "abstract_composition.rs", "ChemicalComposition", None, "parse"),
    ("ce_make_periodic_table", "helper.rs", "ChemicalElements", None, "make_periodic_table"),
    ("ce_new", "helper.rs", "ChemicalElements", None, "new"),
    ("ce_parse_formula", "helper.rs", "ChemicalElements", None, "parse_formula"),
    ("ce_parse_element", "helper.rs", "ChemicalElements", None, "parse_element"),
]
WANTED = [u[0] for u in UNITS]
PARAMS = ("{F : Type} (NF : Num F) (iter_order : list (N * iso) -> list (N * iso)) (uni : oracles) (fuel : nat) "
          "(PERIODIC_TABLE : ptable) (populate_periodic_table : ptable -> ptable)")
PRE = "NF iter_order uni fuel PERIODIC_TABLE populate_periodic_table"

RESERVED = set("""N F Z NF nat bool list option str char string String ptable elem iso espec key eres fres pres ents cfg
 oracles nil cons app fst snd pair negb andb orb true false Some None EOk EErr EPanic FOk FErr FPanic POk PPanic tt unit
 Lt Eq Gt comparison fun let in if then else match with end forall exists fix cofix as at return Type Prop Set where
 struct using Definition Section Context End tbl_find assoc_get assoc_insert assoc_mem isos sym mai mam mass ab neutrons
 shift number min_shift max_shift mkE mkI mkCE mkSpec sp_element sp_isotope unwrap_or option_map map rev length abs add
 sub mul div opp ltb leb eqb of_Z of_dec zero one fma iter_order uni fuel PERIODIC_TABLE populate_periodic_table
 hm_values hm_keys hm_iter iter_min iter_max sm_insert sm_get wrap_u wrap_s chk_s chk_u with_table codes str_eqb
 f_partial_cmp fres_map bind""".split())

SIGNED = {"i8": 8, "i16": 16, "i32": 32, "i64": 64, "isize": 64}
UNSIGNED = {"u8": 8, "u16": 16, "u32": 32, "u64": 64, "usize": 64}
INTS = dict(SIGNED, **UNSIGNED)
ELEM_PROJ = {"symbol": "sym", "isotopes": "isos", "most_abundant_isotope": "mai", "most_abundant_mass": "mam",
             "min_neutron_shift": "min_shift", "max_neutron_shift": "max_shift", "element_number": "number"}
ISO_PROJ = {"mass": "mass", "abundance": "ab", "neutrons": "neutrons", "neutron_shift": "shift"}
CE_FIELDS = ["periodic_table", "C", "H", "O", "N", "S", "H2O", "OH", "NH2"]
HM_ISO = ("HashMap", "u16", "Isotope")
HM_ELT = ("HashMap", "String", "Element")


class NeedPanic(Exception):
    """a panicking construct in a function being translated as pure: translate it again with a panic value"""


# ------------------------------------------------------------------ tokens (gen_comp's, plus `1e-3`)
TOK = re.compile(r"""\s*(?:(//[^\n]*|/\*.*?\*/)
 |(\d[\d_]*\.\d[\d_]*(?:[eE][+-]?\d+)?(?:_?f64)?|\d[\d_]*[eE][+-]?\d+(?:_?f64)?)
 |(\d[\d_]*(?:[iu](?:8|16|32|64|128|size))?)
 |"((?:[^"\\]|\\.)*)"
 |'((?:\\x[0-9a-fA-F]{2}|\\u\{[0-9a-fA-F]+\}|\\.|[^'\\]))'
 |'([A-Za-z_][A-Za-z0-9_]*)
 |([A-Za-z_][A-Za-z0-9_]*)
 |(->|=>|\.\.=|\.\.|::|==|!=|<=|>=|&&|\|\||\+=|-=|\*=|/=|%=|[-+*/%()=;:,.{}<>&!\[\]\#|?^@$~]))""", re.S | re.X)


def tokens(src):
    pos, out = 0, []
    while pos < len(src):
        if src[pos:].strip() == "":
            break
        m = TOK.match(src, pos)
        if not m:
            raise Structure("cannot tokenize at: %r" % src[pos:pos + 30])
        pos = m.end()
        if m.group(1) is not None:
            continue
        for kind, g in (("float", 2), ("int", 3), ("str", 4), ("char", 5), ("life", 6), ("id", 7), ("op", 8)):
            if m.group(g) is not None:
                out.append((kind, m.group(g)))
                break
    return out


# ------------------------------------------------------------------ file structure
class SrcFile:
    """items of one source file: fns[(impl type, trait, fn name)] = (head, body, assoc types), structs, aliases, uses"""

    def __init__(self, rel, required):
        self.rel, self.fns, self.structs, self.aliases, self.uses, self.derives = rel, {}, {}, {}, set(), {}
        self.dupes = set()
        path = os.path.join(REPO, "src", rel)
        if not os.path.exists(path):
            if required:
                raise Structure("%s: no such file" % rel)
            self.missing = True
            return
        self.missing = False
        src = open(path, encoding="utf-8").read().split("#[cfg(test)]")[0]
        self.text = src
        for head, body in split_items(tokens(src), rel):
            head = drop_vis(head)
            hv = [v for _, v in head]
            if hv[:1] == ["use"]:
                self.uses.update(hv + [v for _, v in (body or [])])
            elif hv[:1] == ["type"] and body is None and len(hv) >= 4 and hv[2] == "=":
                self.aliases[hv[1]] = [t for t in head[3:] if not is_op(t, ";")]
            elif hv[:1] == ["struct"] and body is not None:
                self.structs[hv[1]] = fields_of(body)
                self.derives[hv[1]] = self.derives_default(src, hv[1])
            elif hv[:1] == ["impl"] and body is not None:
                tr, targs, ty = impl_header(head)
                assoc, found = {}, []
                for h2, b2 in split_items(body, "%s: impl %s" % (rel, ty)):
                    h2 = drop_vis(h2)
                    h2v = [v for _, v in h2]
                    if h2v[:1] == ["fn"] and b2 is not None:
                        key = (ty, tr, h2v[1])
                        if key in self.fns:          # e.g. Index<&str> and Index<&ElementSpecification>: ambiguous for us
                            self.dupes.add(key)
                        self.fns[key] = (h2, b2, assoc)
                    elif h2v[:1] == ["type"] and len(h2v) > 3 and h2v[2] == "=":
                        assoc[h2v[1]] = [t for t in h2[3:] if not is_op(t, ";")]

    @staticmethod
    def derives_default(src, struct):
        m = re.search(r"pub\s+struct\s+%s\b" % struct, src)
        if not m:
            return False
        before = src[:m.start()]
        cut = max(before.rfind("}"), before.rfind(";"))
        return re.search(r"#\[derive\([^)]*\bDefault\b[^)]*\)\]", before[cut + 1:]) is not None


def show(ty):
    if isinstance(ty, tuple):
        return "%s<%s>" % (ty[0], ", ".join(show(t) for t in ty[1:]))
    return str(ty)


COQ_TY = {"f64": "F", "bool": "bool", "str": "str", "String": "string", "Isotope": "iso", "Element": "elem",
          "PeriodicTable": "ptable", "Ordering": "comparison", "ChemicalElements": "chem_elements",
          "ChemicalComposition": "ents", "ElementSpecification": "espec", "FormulaParser": "cfg", "unit": "unit"}


def coq_ty(ty):
    if ty in SIGNED:
        return "Z"
    if ty in UNSIGNED:
        return "N"
    if ty in COQ_TY:
        return COQ_TY[ty]
    if isinstance(ty, tuple):
        if ty[0] == "Option":
            return "option %s" % atom(coq_ty(ty[1]))
        if ty[0] == "Iter":
            return "list %s" % atom(coq_ty(ty[1]))
        if ty == HM_ISO:
            return "list (N * iso)"
        if ty == HM_ELT:
            return "ptable"
        if ty == ("Result", "espec"):
            return "eres espec"
        if ty == ("Result", "comp"):
            return "fres ents"
    raise Refuse("type %s" % show(ty))


# ------------------------------------------------------------------ one function
class Fn:
    def __init__(self, gname, world, unit):
        self.g, self.w = gname, world
        _, rel, self.self_ty, self.trait, self.src_name = unit
        self.file = world.files[rel]
        head, body, self.assoc = self.file.fns[(self.self_ty, self.trait, self.src_name)]
        name, self.selfkind, params, rty = Parser(head).signature()
        self.params = [(a, self.resolve(t)) for a, t in params]
        self.rty = self.resolve(rty) if rty is not None else "unit"
        self.body = Parser([("op", "{")] + body + [("op", "}")]).block()
        self.calls = []
        if self.selfkind == "own":
            raise Refuse("`self` by value")

    # ---- types
    def resolve(self, t):
        if t[0] == "mutref":
            return ("mutref", self.resolve(t[1]))
        if t[0] == "tuple":
            raise Refuse("tuple type")
        segs, args = t[1], t[2]
        name = segs[-1]
        if segs[0] == "Self" and len(segs) == 2:
            if name not in self.assoc:
                raise Refuse("associated type Self::%s" % name)
            return self.resolve(Parser(self.assoc[name]).type_())
        if name == "Self":
            name = self.self_ty
        if name in self.file.aliases and not args:
            return self.resolve(Parser(self.file.aliases[name]).type_())
        if name in INTS or name in ("f64", "bool", "str", "String"):
            return name
        if name in ("Isotope", "Element", "PeriodicTable", "Ordering", "ChemicalElements", "ChemicalComposition",
                    "ElementSpecification", "FormulaParser"):
            return name
        if name == "Option" and len(args) == 1:
            return ("Option", self.resolve(args[0]))
        if name == "HashMap" and len(args) >= 2:
            return ("HashMap", self.resolve(args[0]), self.resolve(args[1]))
        if name == "Result" and len(args) == 2:
            ok = self.resolve(args[0])
            if ok == "ElementSpecification":
                return ("Result", "espec")
            if ok == "ChemicalComposition":
                return ("Result", "comp")
        raise Refuse("type `%s`" % "::".join(segs))

    # ---- names
    def fresh(self, prefix="t"):
        self.n += 1
        return "%s_%d" % (prefix, self.n)

    @staticmethod
    def coq_name(x):
        clash = x in RESERVED or x.endswith("_gen") or re.match(r"(set|ce|hm|sm|iter)_", x) or re.fullmatch(r"(t|f_\w+)_\d+", x)
        return x + "_" if clash else x

    def bind(self, env, x, ty, mut=False):
        env = dict(env)
        env[x] = (self.coq_name(x), ty, mut)
        return env

    # ---- panics and results
    def panic(self):
        if self.nopanic:
            raise Refuse("a panicking construct in a closure or in the right operand of `&&` / `||`")
        if self.mode == "pure":
            raise NeedPanic()
        if self.selfkind == "mut":
            raise Refuse("a panicking construct in a `&mut self` function")
        return {("Result", "espec"): "EPanic", ("Result", "comp"): "FPanic"}.get(self.rty, "PPanic")

    def ret(self, t, ty):
        self.expect(ty, self.rty, "the result")
        if self.selfkind == "mut":
            return "self" if self.rty == "unit" else "(self, %s)" % strip(t)
        if self.mode == "pres" and not (isinstance(self.rty, tuple) and self.rty[0] == "Result"):
            return "POk %s" % atom(t)
        return strip(t)

    def result_ty(self):
        base = coq_ty(self.rty)
        if self.selfkind == "mut":
            st = coq_ty(self.self_ty)
            return st if self.rty == "unit" else "%s * %s" % (st, atom(base))
        if self.mode == "pres" and not (isinstance(self.rty, tuple) and self.rty[0] == "Result"):
            return "pres %s" % atom(base)
        return base

    @staticmethod
    def expect(got, want, what):
        if want is not None and got != want:
            raise Refuse("%s has type %s where %s is expected" % (what, show(got), show(want)))

    # ---- sub-expressions that must be pure (closure bodies, right operands)
    def pure_sub(self, e, env, want):
        box = []
        self.nopanic += 1
        try:
            t = self.ex(e, env, want, lambda t, ty: (box.append(ty), t)[1])
        finally:
            self.nopanic -= 1
        if not box:
            raise Refuse("a `return` inside a closure or an operand")
        return t, box[0]

    def probe(self, e, env):
        """the type of e (its text is discarded)"""
        n = self.n
        try:
            return self.pure_sub(e, env, None)[1]
        finally:
            self.n = n

    # ---- calls of functions of the translated files
    def call_own(self, g, recv, args, env, k):
        """recv: text of the receiver or None; args: expressions"""
        sig = self.w.sig(g)
        if g not in self.calls:
            self.calls.append(g)
        if sig["selfkind"] == "mut":
            raise Refuse("a `&mut self` call inside an expression")
        if len(args) != len(sig["params"]):
            raise Refuse("`%s` called with %d arguments" % (g, len(args)))
        texts = [] if recv is None else [atom(recv)]

        def go(i):
            if i == len(args):
                call = "%s_gen %s %s" % (g, PRE, " ".join(texts))
                if sig["mode"] == "pres" and not (isinstance(sig["rty"], tuple) and sig["rty"][0] == "Result"):
                    pan = self.panic()
                    x = self.fresh()
                    return "match %s with\n| PPanic => %s\n| POk %s =>\n%s\nend" % (call.strip(), pan, x, ind(k(x, sig["rty"])))
                return k("(%s)" % call.strip(), sig["rty"])
            return self.ex(args[i], env, sig["params"][i][1], lambda t, ty: (
                self.expect(ty, sig["params"][i][1], "argument %d of `%s`" % (i + 1, g)), texts.append(atom(t)), go(i + 1))[2])
        return go(0)

    # ---- integers
    @staticmethod
    def as_z(t, ty):
        return t if ty in SIGNED else "(Z.of_N %s)" % atom(t)

    def int_lit(self, d, ty):
        return "(%s%%Z)" % d if ty in SIGNED else "(%s%%N)" % d

    def compare(self, op, ta, tb, ty):
        a, b = atom(ta), atom(tb)
        if ty in INTS:
            m = "Z" if ty in SIGNED else "N"
            eq, lt, le = "%s.eqb" % m, "%s.ltb" % m, "%s.leb" % m
        elif ty == "f64":
            eq, lt, le = "eqb NF", "ltb NF", "leb NF"
        elif ty == "bool" and op in ("==", "!="):
            eq, lt, le = "Bool.eqb", None, None
        elif ty == "str" and op in ("==", "!="):
            eq, lt, le = "str_eqb", None, None
        elif ty == "String" and op in ("==", "!="):
            eq, lt, le = "String.eqb", None, None
        else:
            raise Refuse("`%s` at type %s" % (op, show(ty)))
        return {"==": "(%s %s %s)" % (eq, a, b), "!=": "(negb (%s %s %s))" % (eq, a, b),
                "<": "(%s %s %s)" % (lt, a, b), "<=": "(%s %s %s)" % (le, a, b),
                ">": "(%s %s %s)" % (lt, b, a), ">=": "(%s %s %s)" % (le, b, a)}[op]

    # ---- expressions (continuation-passing: k(text, type) is the rest of the computation)
    def ex(self, e, env, want, k):
        kind = e[0]
        if kind in ("paren", "ref", "deref"):
            return self.ex(e[1], env, want, k)
        if kind == "refmut":
            raise Refuse("`&mut` outside a call of populate_periodic_table")
        if kind == "int":
            ty = e[2] or (want if want in INTS else None)
            if ty is None and want == "f64":
                raise Refuse("integer literal where an f64 is expected")
            if ty is None:
                raise Refuse("integer literal %s of unknown type" % e[1])
            return k(self.int_lit(e[1], ty), ty)
        if kind == "float":
            return k(float_lit(e[1]).replace("of_dec N ", "of_dec NF ").replace("of_Z N ", "of_Z NF "), "f64")
        if kind == "bool":
            return k(e[1], "bool")
        if kind == "strlit":
            if not re.fullmatch(r"[A-Za-z0-9 _()\[\]]*", e[1]):
                raise Refuse("string literal %r" % e[1])
            return k('(codes "%s"%%string)' % e[1], "str")
        if kind == "none":
            if not (isinstance(want, tuple) and want[0] == "Option"):
                raise Refuse("`None` of unknown type")
            return k("None", want)
        if kind == "ctor" and e[1] == "Some":
            inner = want[1] if isinstance(want, tuple) and want[0] == "Option" else None
            return self.ex(e[2], env, inner, lambda t, ty: k("(Some %s)" % atom(t), ("Option", ty)))
        if kind == "var":
            if e[1] in env:
                return k(env[e[1]][0], env[e[1]][1])
            if e[1] == "PERIODIC_TABLE" and "PERIODIC_TABLE" in self.file.uses:
                return k("PERIODIC_TABLE", "PeriodicTable")
            raise Refuse("unknown variable `%s`" % e[1])
        if kind == "path":
            if e[1][-2:] in (["Ordering", "Less"], ["Ordering", "Equal"], ["Ordering", "Greater"]):
                return k({"Less": "Lt", "Equal": "Eq", "Greater": "Gt"}[e[1][-1]], "Ordering")
            raise Refuse("path `%s`" % "::".join(e[1]))
        if kind == "field":
            return self.ex(e[1], env, None, lambda t, ty: self.field(t, ty, e[2], k))
        if kind == "index":
            def with_map(tm, tym):
                if tym == HM_ISO:
                    return self.ex(e[2], env, "u16", lambda tk, tyk: (
                        self.expect(tyk, "u16", "the index"), self.opt_panic("assoc_get %s %s" % (atom(tk), atom(tm)), "Isotope", k))[1])
                if tym == HM_ELT:
                    return self.ex(e[2], env, "str", lambda tk, tyk: self.opt_panic(
                        "sm_get %s %s" % (self.as_str(tk, tyk), atom(tm)), "Element", k))
                raise Refuse("indexing a %s" % show(tym))
            return self.ex(e[1], env, None, with_map)
        if kind == "not":
            return self.ex(e[1], env, "bool", lambda t, ty: (self.expect(ty, "bool", "operand of `!`"), k("(negb %s)" % atom(t), "bool"))[1])
        if kind == "neg":
            inner = unparen(e[1])
            if inner[0] == "int":
                ty = inner[2] or (want if want in SIGNED else None)
                if ty not in SIGNED:
                    raise Refuse("negative literal of type %s" % show(ty))
                return k("(-%s%%Z)" % inner[1], ty)
            return self.ex(e[1], env, want, lambda t, ty: (
                self.expect(ty, "f64", "operand of unary `-` (only f64 and literals)"), k("(opp NF %s)" % atom(t), "f64"))[1])
        if kind == "logic":
            def right(ta, tya):
                self.expect(tya, "bool", "operand of `%s`" % e[1])
                tb, tyb = self.pure_sub(e[3], env, "bool")
                self.expect(tyb, "bool", "operand of `%s`" % e[1])
                return k("(%s %s %s)" % ("orb" if e[1] == "||" else "andb", atom(ta), atom(tb)), "bool")
            return self.ex(e[2], env, "bool", right)
        if kind == "cmp":
            a, b = e[2], e[3]
            wa = self.probe(b, env) if unparen(a)[0] in ("int", "neg") and unparen(b)[0] not in ("int", "neg") else None
            return self.ex(a, env, wa, lambda ta, tya: self.ex(b, env, tya, lambda tb, tyb: (
                self.expect(tyb, tya, "right operand of `%s`" % e[1]), k(self.compare(e[1], ta, tb, tya), "bool"))[1]))
        if kind == "bin":
            a, b, op = e[2], e[3], e[1]
            wa = want
            if unparen(a)[0] == "int" and unparen(b)[0] != "int":
                wa = self.probe(b, env)

            def both(ta, tya, tb, tyb):
                self.expect(tyb, tya, "right operand of `%s`" % op)
                if tya == "f64":
                    return k("(%s NF %s %s)" % ({"+": "add", "-": "sub", "*": "mul", "/": "div"}[op], atom(ta), atom(tb)), "f64")
                if tya in INTS and op in ("+", "-", "*"):
                    z = "%s %s %s" % (atom(self.as_z(ta, tya)), op, atom(self.as_z(tb, tya)))
                    chk = "chk_s %d (%s)" % (SIGNED[tya], z) if tya in SIGNED else "chk_u %d (%s)" % (UNSIGNED[tya], z)
                    return self.opt_panic(chk, tya, k)
                raise Refuse("`%s` at type %s" % (op, show(tya)))
            return self.ex(a, env, wa, lambda ta, tya: self.ex(b, env, tya, lambda tb, tyb: both(ta, tya, tb, tyb)))
        if kind == "cast":
            dst = self.resolve(e[2])

            def cast(t, src):
                if src not in INTS:
                    raise Refuse("`as` from %s" % show(src))
                z = self.as_z(t, src)
                if dst == "f64":
                    return k("(of_Z NF %s)" % atom(z), "f64")
                if dst not in INTS:
                    raise Refuse("`as %s`" % show(dst))
                if dst in SIGNED:
                    fits = (src in SIGNED and SIGNED[src] <= SIGNED[dst]) or (src in UNSIGNED and UNSIGNED[src] < SIGNED[dst])
                    return k(z if fits else "(wrap_s %d %s)" % (SIGNED[dst], atom(z)), dst)
                fits = src in UNSIGNED and UNSIGNED[src] <= UNSIGNED[dst]
                return k(t if fits else "(wrap_u %d %s)" % (UNSIGNED[dst], atom(z)), dst)
            return self.ex(e[1], env, None, cast)
        if kind == "mcall":
            return self.mcall(e, env, want, k)
        if kind == "call":
            return self.call(e, env, want, k)
        if kind == "struct":
            return self.struct(e, env, k)
        if kind == "return":
            if e[1] is None:
                return self.ret("tt", "unit")
            return self.ex(e[1], env, self.rty, self.ret)
        if kind == "blockexpr":
            return self.seq(e[1][0], e[1][1], env, want, k)
        if kind == "if":
            c, b1, b2 = e[1], e[2], e[3]
            if b2 is None:
                raise Refuse("`if` without `else` as a value")
            return self.ex(c, env, "bool", lambda tc, tyc: (self.expect(tyc, "bool", "the condition"), "if %s then\n%s\nelse\n%s" % (
                strip(tc), ind(self.seq(b1[0], b1[1], env, want, k)), ind(self.seq(b2[0], b2[1], env, want, k))))[1])
        if kind == "match":
            return self.ex(e[1], env, None, lambda ts, tys: self.match_on(ts, tys, e[2], env, want, k))
        if kind == "macro" and e[1] in ("panic", "unreachable"):
            return self.panic()
        raise Refuse({"closure": "a closure outside map", "try": "`?`", "tuple": "a tuple", "iflet": "`if let`",
                      "assign": "an assignment as a value", "macro": "a macro call"}.get(kind, kind))

    def as_str(self, t, ty):
        if ty == "str":
            return atom(t)
        if ty == "String":
            return "(codes %s)" % atom(t)
        raise Refuse("a %s as a text key" % show(ty))

    def opt_panic(self, scrut, ty, k):
        pan = self.panic()
        x = self.fresh()
        return "match %s with\n| None => %s\n| Some %s =>\n%s\nend" % (scrut, pan, x, ind(k(x, ty)))

    def field(self, t, ty, f, k):
        a = atom(t)
        if ty == "Element" and f in self.w.elem_fields:
            fty = self.w.elem_fields[f]
            if fty == "f64":
                return k("(of_dec NF (%s %s) 6)" % (ELEM_PROJ[f], a), "f64")
            return k("(%s %s)" % (ELEM_PROJ[f], a), fty)
        if ty == "Isotope" and f in self.w.iso_fields:
            fty = self.w.iso_fields[f]
            if fty == "f64":
                return k("(of_dec NF (%s %s) 6)" % (ISO_PROJ[f], a), "f64")
            return k("(%s %s)" % (ISO_PROJ[f], a), fty)
        if ty == "PeriodicTable" and f == "elements":
            return k(t, HM_ELT)
        if ty == "ChemicalElements" and f in CE_FIELDS and self.w.ce_struct_ok:
            fty = "PeriodicTable" if f == "periodic_table" else "ElementSpecification" if len(f) == 1 else "ChemicalComposition"
            return k("(ce_%s %s)" % (f, a), fty)
        raise Refuse("field `%s` of a %s" % (f, show(ty)))

    def match_on(self, ts, tys, arms, env, want, k):
        if not (isinstance(tys, tuple) and tys[0] == "Option"):
            raise Refuse("`match` on a %s" % show(tys))
        some = none = None
        for pat, body in arms:
            if pat[0] == "pctor" and pat[1] == "Some" and pat[2][0] in ("pvar", "pwild") and some is None:
                some = (pat[2], body)
            elif pat[0] == "pnone" and none is None:
                none = body
            elif pat[0] == "pwild":
                if some is None:
                    some = (("pwild",), body)
                if none is None:
                    none = body
            else:
                raise Refuse("match arm pattern")
        if some is None or none is None:
            raise Refuse("non-exhaustive match")
        p, sbody = some
        env2, x = env, "_"
        if p[0] == "pvar":
            env2 = self.bind(env, p[2], tys[1], p[1])
            x = env2[p[2]][0]
        return "match %s with\n| Some %s =>\n%s\n| None =>\n%s\nend" % (
            strip(ts), x, ind(self.ex(sbody, env2, want, k)), ind(self.ex(none, env, want, k)))

    def closure_fn(self, clos, pty, env):
        if unparen(clos)[0] != "closure":
            raise Refuse("a function value that is not a closure")
        _, pat, body = unparen(clos)
        if pat[0] == "pwild":
            env2, x = env, "_"
        elif pat[0] == "pvar":
            env2 = self.bind(env, pat[2], pty)
            x = env2[pat[2]][0]
        else:
            raise Refuse("a pattern as closure parameter")
        t, ty = self.pure_sub(body, env2, None)
        return "(fun %s => %s)" % (x, strip(t)), ty

    def struct(self, e, env, k):
        _, name, fields, base = e
        if name == "Self":
            name = self.self_ty
        if name == "PeriodicTable":
            if not self.w.pt_default:
                raise Refuse("PeriodicTable does not derive Default")
            if fields:
                raise Refuse("PeriodicTable literal with explicit fields")
            if unparen(base or ("unit",)) not in (("call", ["Default", "default"], []), ("call", ["PeriodicTable", "default"], [])):
                raise Refuse("struct base that is not Default::default()")
            return k("(@nil (string * elem))", "PeriodicTable")
        if name == "ChemicalElements":
            if base is not None or not self.w.ce_struct_ok or sorted(f for f, _ in fields) != sorted(CE_FIELDS):
                raise Refuse("ChemicalElements literal that does not give exactly the fields of the struct")
            got = {}

            def go(i):
                if i == len(fields):
                    return k("(mkCE %s)" % " ".join(atom(got[f]) for f in CE_FIELDS), "ChemicalElements")
                f, fe = fields[i]
                fty = "PeriodicTable" if f == "periodic_table" else "ElementSpecification" if len(f) == 1 else "ChemicalComposition"

                def after(t, ty):
                    self.expect(ty, fty, "field `%s`" % f)
                    if re.fullmatch(r"\w+", t):
                        got[f] = t
                        return go(i + 1)
                    x = self.fresh("f_" + f)
                    got[f] = x
                    return "let %s := %s in\n%s" % (x, strip(t), go(i + 1))
                return self.ex(fe, env, fty, after)
            return go(0)
        raise Refuse("struct literal `%s { .. }`" % name)

    # ---- free function / associated function calls
    def call(self, e, env, want, k):
        _, path, args = e
        if len(path) == 2:
            ty = self.self_ty if path[0] == "Self" else path[0]
            g = self.w.method(ty, path[1], static=True)
            if g is not None:
                return self.call_own(g, None, args, env, k)
            if path == ["ElementSpecification", "parse_with"] and len(args) == 2:
                self.w.need_espec("parse_with")
                return self.ex(args[0], env, "str", lambda ts, tys: self.ex(args[1], env, "PeriodicTable", lambda tt, tyt: (
                    self.expect(tys, "str", "argument 1 of parse_with"), self.expect(tyt, "PeriodicTable", "argument 2 of parse_with"),
                    k("(ESpecGen.parse_with_gen PERIODIC_TABLE (ImpS.uni_alphabetic uni) %s %s)" % (atom(ts), atom(tt)), ("Result", "espec")))[2]))
            if path == ["ElementSpecification", "parse"] and len(args) == 1:
                self.w.need_espec("parse")
                return self.ex(args[0], env, "str", lambda ts, tys: (
                    self.expect(tys, "str", "argument of parse"),
                    k("(ESpecGen.parse_gen PERIODIC_TABLE (ImpS.uni_alphabetic uni) %s)" % atom(ts), ("Result", "espec")))[1])
            if path == ["FormulaParser", "default"] and not args:
                self.w.need_formula("default")
                return k("FormulaParser_default_gen", "FormulaParser")
            if path in (["Element", "default"], ["PeriodicTable", "default"]) and not args:
                if not self.w.files["element.rs"].derives.get(path[0], False):
                    raise Refuse("%s does not derive Default" % path[0])
                if path[0] == "PeriodicTable":
                    return k("(@nil (string * elem))", "PeriodicTable")
                return k("(mkE EmptyString (@nil (N * iso)) 0%N 0%Z 0%N 0%Z 0%Z)", "Element")
            if path == ["String", "new"] and not args:
                return k("EmptyString", "String")
            if path == ["String", "from"] and len(args) == 1 and unparen(args[0])[0] == "strlit":
                return self.string_lit(unparen(args[0])[1], k)
        raise Refuse("call of `%s`" % "::".join(path))

    def string_lit(self, v, k):
        if not re.fullmatch(r"[A-Za-z0-9 _]*", v):
            raise Refuse("string literal %r" % v)
        return k('"%s"%%string' % v if v else "EmptyString", "String")

    # ---- method calls
    def mcall(self, e, env, want, k):
        _, recv, m, turbo, args = e
        if turbo is not None:
            raise Refuse("turbofish")
        r0 = unparen(recv)
        if r0[0] == "strlit" and m in ("to_string", "to_owned", "into") and not args:
            return self.string_lit(r0[1], k)
        return self.ex(recv, env, None, lambda tr, tyr: self.method(tr, tyr, m, args, env, want, k, r0))

    def method(self, tr, tyr, m, args, env, want, k, r0):
        a, n = atom(tr), len(args)
        own = self.w.method(tyr, m, static=False) if isinstance(tyr, str) else None
        if own is not None:
            return self.call_own(own, tr, args, env, k)
        if m in ("clone", "to_owned") and n == 0 and (tyr in INTS or tyr in ("f64", "bool", "String", "Isotope", "Element", "PeriodicTable")):
            return k(tr, tyr)
        if tyr == "String" and m == "as_str" and n == 0:
            return k("(codes %s)" % a, "str")
        if isinstance(tyr, tuple) and tyr[0] == "HashMap":
            if m in ("values", "keys") and n == 0:
                if tyr != HM_ISO:
                    raise Refuse("iteration over the table's map")
                return k("(hm_%s iter_order %s)" % (m, a), ("Iter", tyr[2] if m == "values" else tyr[1]))
            if m in ("get", "contains_key") and n == 1:
                def got(tk, tyk):
                    if tyr == HM_ISO:
                        self.expect(tyk, "u16", "the key")
                        get = "assoc_get %s %s" % (atom(tk), a)
                    else:
                        get = "sm_get %s %s" % (self.as_str(tk, tyk), a)
                    if m == "get":
                        return k("(%s)" % get, ("Option", tyr[2]))
                    return k("match %s with Some _ => true | None => false end" % get, "bool")
                return self.ex(args[0], env, tyr[1] if tyr == HM_ISO else "str", got)
            if m == "insert":
                raise Refuse("`insert` other than as a statement on self.isotopes / self.elements")
        if isinstance(tyr, tuple) and tyr[0] == "Iter":
            if m == "map" and n == 1:
                f, out = self.closure_fn(args[0], tyr[1], env)
                return k("(map %s %s)" % (f, a), ("Iter", out))
            if m in ("min", "max") and n == 0:
                if tyr[1] not in SIGNED:
                    raise Refuse("`%s` over %s" % (m, show(tyr[1])))
                return k("(iter_%s %s)" % (m, a), ("Option", tyr[1]))
            if m in ("copied", "cloned") and n == 0:
                return k(tr, tyr)
            if m == "rev" and n == 0:
                return k("(rev %s)" % a, tyr)
        if isinstance(tyr, tuple) and tyr[0] == "Option":
            if m == "unwrap_or" and n == 1:
                return self.ex(args[0], env, tyr[1], lambda td, tyd: (
                    self.expect(tyd, tyr[1], "the default of unwrap_or"), k("(unwrap_or %s %s)" % (a, atom(td)), tyr[1]))[1])
            if m in ("unwrap", "expect"):
                return self.opt_panic(strip(tr), tyr[1], k)
            if m in ("is_some", "is_none") and n == 0:
                return k("match %s with Some _ => %s | None => %s end" % (strip(tr), *(("true", "false") if m == "is_some" else ("false", "true"))), "bool")
            if m in ("copied", "cloned") and n == 0:
                return k(tr, tyr)
            if m == "map" and n == 1:
                f, out = self.closure_fn(args[0], tyr[1], env)
                return k("(option_map %s %s)" % (f, a), ("Option", out))
        if isinstance(tyr, tuple) and tyr[0] == "Result" and m in ("unwrap", "expect"):
            pan = self.panic()
            x = self.fresh()
            ok = "EOk" if tyr[1] == "espec" else "FOk"
            inner = "ElementSpecification" if tyr[1] == "espec" else "ChemicalComposition"
            return "match %s with\n| %s %s =>\n%s\n| _ => %s\nend" % (strip(tr), ok, x, ind(k(x, inner)), pan)
        if tyr == "f64":
            if m == "abs" and n == 0:
                return k("(abs NF %s)" % a, "f64")
            if m == "partial_cmp" and n == 1:
                return self.ex(args[0], env, "f64", lambda tb, tyb: (
                    self.expect(tyb, "f64", "the argument of partial_cmp"), k("(f_partial_cmp NF %s %s)" % (a, atom(tb)), ("Option", "Ordering")))[1])
        if tyr in INTS and m in ("min", "max") and n == 1:
            mod = "Z" if tyr in SIGNED else "N"
            return self.ex(args[0], env, tyr, lambda tb, tyb: (
                self.expect(tyb, tyr, "the argument of `%s`" % m), k("(%s.%s %s %s)" % (mod, m, a, atom(tb)), tyr))[1])
        if tyr in INTS and m in ("wrapping_add", "wrapping_sub") and n == 1:
            op = "+" if m == "wrapping_add" else "-"
            def wrapped(tb, tyb):
                self.expect(tyb, tyr, "the argument of `%s`" % m)
                z = "(%s %s %s)" % (atom(self.as_z(tr, tyr)), op, atom(self.as_z(tb, tyr)))
                return k("(wrap_s %d %s)" % (SIGNED[tyr], z) if tyr in SIGNED else "(wrap_u %d %s)" % (UNSIGNED[tyr], z), tyr)
            return self.ex(args[0], env, tyr, wrapped)
        if tyr == "str" and m == "parse" and n == 0 and (want == ("Result", "comp") or (want is None and self.rty == ("Result", "comp"))):
            g = self.w.method("ChemicalComposition", "from_str", static=True, trait="FromStr")
            if g is None:
                raise Refuse("`parse()`: no FromStr for ChemicalComposition")
            sig = self.w.sig(g)
            if g not in self.calls:
                self.calls.append(g)
            return k("(%s_gen %s %s)" % (g, PRE, a), ("Result", "comp"))
        if tyr == "FormulaParser" and m == "parse_formula_with_table_generic" and n == 2:
            if r0[0] != "var" or not env.get(r0[1], (0, 0, False))[2]:
                raise Refuse("parse_formula_with_table_generic on something that is not a `let mut` local")
            self.w.need_formula("parse_formula_with_table_generic")
            self.w.need_formula("parse_with_table")
            self.consumed.add(r0[1])
            return self.ex(args[0], env, "str", lambda ts, tys: self.ex(args[1], env, "PeriodicTable", lambda tt, tyt: (
                self.expect(tys, "str", "argument 1"), self.expect(tyt, "PeriodicTable", "argument 2"),
                k("(fres_map fst (parse_formula_with_table_generic_gen (with_table uni %s) (FormulaGen.parse_with_table_gen (with_table uni %s) fuel) %s %s))"
                  % (atom(tt), atom(tt), a, atom(ts)), ("Result", "comp")))[2]))
        raise Refuse("method `%s` on a %s" % (m, show(tyr)))

    # ---- statements
    def mutable_var(self, e, env):
        e = unparen(e) if e[0] != "refmut" else unparen(e[1])
        if e[0] != "var" or e[1] not in env:
            return None
        if e[1] == "self":
            return "self" if self.selfkind == "mut" else None
        return e[1] if env[e[1]][2] else None

    def seq(self, ss, tail, env, want, k):
        for x in self.consumed:
            env = {a: b for a, b in env.items() if a != x}
        if not ss:
            if tail is None:
                return k("tt", "unit")
            return self.ex(tail, env, want, k)
        s, rest = ss[0], ss[1:]
        cont = lambda env2: self.seq(rest, tail, env2, want, k)
        if s[0] == "let":
            _, pat, ty, e = s
            if pat[0] not in ("pvar", "pwild"):
                raise Refuse("a pattern in `let`")
            dty = self.resolve(ty) if ty is not None else None

            def bound(t, tyv):
                self.expect(tyv, dty, "the initialiser")
                if pat[0] == "pwild":
                    return cont(env)
                env2 = self.bind(env, pat[2], tyv, pat[1])
                return "let %s := %s in\n%s" % (env2[pat[2]][0], strip(t), cont(env2))
            return self.ex(e, env, dty, bound)
        if s[0] == "assign":
            _, op, place, rhs = s
            if op != "=":
                rhs, op = ("bin", op[0], place, rhs), "="
            p = unparen(place)
            if p[0] == "field" and self.mutable_var(p[1], env) and env[unparen(p[1])[1]][1] == "Element":
                v, f = unparen(p[1])[1], p[2]
                fty = self.w.elem_fields.get(f)
                if fty is None or fty == "f64" or f == "symbol" and False:
                    raise Refuse("assignment to field `%s`" % f)
                cv = env[v][0]
                return self.ex(rhs, env, fty, lambda t, tyv: (
                    self.expect(tyv, fty, "the value assigned to `%s`" % f),
                    "let %s := set_%s %s %s in\n%s" % (cv, ELEM_PROJ[f], cv, atom(t), cont(env)))[1])
            if p[0] == "var" and self.mutable_var(p, env) and p[1] != "self":
                cv, vty = env[p[1]][0], env[p[1]][1]
                return self.ex(rhs, env, vty, lambda t, tyv: (
                    self.expect(tyv, vty, "the value assigned to `%s`" % p[1]), "let %s := %s in\n%s" % (cv, strip(t), cont(env)))[1])
            raise Refuse("assignment to this place")
        if s[0] == "ret":
            if rest or tail is not None:
                raise Refuse("code after `return`")
            if s[1] is None:
                return self.ret("tt", "unit")
            return self.ex(s[1], env, self.rty, self.ret)
        if s[0] == "expr":
            e = unparen(s[1])
            if e[0] == "if":
                c, b1, b2 = e[1], e[2], e[3]
                d1 = diverges(("blockexpr", b1))
                d2 = b2 is not None and diverges(("blockexpr", b2))
                dead = lambda t, ty: (_ for _ in ()).throw(Refuse("a conditional statement that falls through"))
                if b2 is None and d1:
                    return self.ex(c, env, "bool", lambda tc, tyc: (self.expect(tyc, "bool", "the condition"), "if %s then\n%s\nelse\n%s" % (
                        strip(tc), ind(self.seq(b1[0], b1[1], env, None, dead)), cont(env)))[1])
                if b2 is not None and d1 and d2 and not rest and tail is None:
                    return self.ex(c, env, "bool", lambda tc, tyc: (self.expect(tyc, "bool", "the condition"), "if %s then\n%s\nelse\n%s" % (
                        strip(tc), ind(self.seq(b1[0], b1[1], env, None, dead)), ind(self.seq(b2[0], b2[1], env, None, dead))))[1])
                if b2 is not None and d1 and not d2 and b2[1] is None:
                    return self.ex(c, env, "bool", lambda tc, tyc: (self.expect(tyc, "bool", "the condition"), "if %s then\n%s\nelse\n%s" % (
                        strip(tc), ind(self.seq(b1[0], b1[1], env, None, dead)), ind(self.seq(list(b2[0]) + list(rest), tail, env, want, k))))[1])
                if b2 is not None and not rest and tail is None and self.rty != "unit":
                    return self.ex(e, env, want, k)
                raise Refuse("a conditional statement that falls through")
            if e[0] == "return":
                return self.seq([("ret", e[1])] + list(rest), tail, env, want, k)
            if e[0] == "mcall":
                _, recv, m, turbo, args = e
                r = unparen(recv)
                if m == "insert" and len(args) == 2 and r[0] == "field" and self.mutable_var(r[1], env):
                    v = unparen(r[1])[1]
                    cv, vty = env[v][0], env[v][1]
                    if vty == "PeriodicTable" and r[2] == "elements":
                        return self.ex(args[0], env, "String", lambda tk, tyk: self.ex(args[1], env, "Element", lambda tv, tyv: (
                            self.expect(tyk, "String", "the key of insert"), self.expect(tyv, "Element", "the value of insert"),
                            "let %s := sm_insert %s %s %s in\n%s" % (cv, atom(tk), atom(tv), cv, cont(env)))[2]))
                    if vty == "Element" and r[2] == "isotopes":
                        return self.ex(args[0], env, "u16", lambda tk, tyk: self.ex(args[1], env, "Isotope", lambda tv, tyv: (
                            self.expect(tyk, "u16", "the key of insert"), self.expect(tyv, "Isotope", "the value of insert"),
                            "let %s := set_isos %s (assoc_insert %s %s (isos %s)) in\n%s" % (cv, cv, atom(tk), atom(tv), cv, cont(env)))[2]))
                v = self.mutable_var(recv, env)
                if v is not None:
                    g = self.w.method(env[v][1], m, static=False) if isinstance(env[v][1], str) else None
                    if g is not None and self.w.sig(g)["selfkind"] == "mut":
                        sig = self.w.sig(g)
                        if g not in self.calls:
                            self.calls.append(g)
                        if sig["rty"] != "unit" or len(args) != len(sig["params"]):
                            raise Refuse("call of `%s`" % m)
                        cv, texts = env[v][0], []

                        def go(i):
                            if i == len(args):
                                return "let %s := %s_gen %s %s%s in\n%s" % (cv, g, PRE, cv, "".join(" " + t for t in texts), cont(env))
                            return self.ex(args[i], env, sig["params"][i][1], lambda t, ty: (
                                self.expect(ty, sig["params"][i][1], "argument %d of `%s`" % (i + 1, m)), texts.append(atom(t)), go(i + 1))[2])
                        return go(0)
            if e[0] == "call" and e[1] == ["populate_periodic_table"] and len(e[2]) == 1 and e[2][0][0] == "refmut":
                v = self.mutable_var(e[2][0], env)
                if v is None or v == "self" or env[v][1] != "PeriodicTable" or "populate_periodic_table" not in self.file.uses:
                    raise Refuse("populate_periodic_table on something that is not a `let mut` PeriodicTable")
                cv = env[v][0]
                return "let %s := populate_periodic_table %s in\n%s" % (cv, cv, cont(env))
            raise Refuse("an expression statement without a translatable effect")
        raise Refuse({"for": "a `for` loop"}.get(s[0], s[0]))

    # ---- the definition
    def translate(self):
        for mode in ("pure", "pres"):
            self.mode, self.n, self.nopanic, self.consumed, self.calls = mode, 0, 0, set(), []
            env = {}
            binders = []
            if self.selfkind is not None:
                env = self.bind(env, "self", self.self_ty, self.selfkind == "mut")
                binders.append("(self : %s)" % coq_ty(self.self_ty))
            for a, ty in self.params:
                if isinstance(ty, tuple) and ty[0] == "mutref":
                    raise Refuse("`&mut` parameter")
                env = self.bind(env, a, ty)
                binders.append("(%s : %s)" % (env[a][0], coq_ty(ty)))
            try:
                body = self.seq(self.body[0], self.body[1], env, self.rty, self.ret)
            except NeedPanic:
                continue
            return "Definition %s_gen %s %s: %s :=\n%s." % (
                self.g, PARAMS, "".join(b + " " for b in binders), self.result_ty(), ind(body))
        raise Refuse("internal: no mode")


# ------------------------------------------------------------------ all functions
class World:
    def __init__(self):
        self.files = {"element.rs": SrcFile("element.rs", True), "helper.rs": SrcFile("helper.rs", False),
                      "abstract_composition.rs": SrcFile("abstract_composition.rs", False)}
        self.units = {u[0]: u for u in UNITS}
        self.done, self.skipped, self.emitted, self.active = {}, {}, [], []
        el = self.files["element.rs"]
        probe = object.__new__(Fn)
        probe.file, probe.assoc, probe.self_ty = el, {}, "Element"

        def fields(struct, expected):
            f = el.structs.get(struct)
            if f is None:
                raise Structure("element.rs: no struct %s" % struct)
            out = {}
            for name, txt in f.items():
                try:
                    out[name] = probe.resolve(Parser(tokens(txt)).type_())
                except Refuse as e:
                    raise Structure("element.rs: struct %s, field %s: %s" % (struct, name, e))
            if sorted(out) != sorted(expected):
                raise Structure("element.rs: struct %s has fields %s" % (struct, sorted(out)))
            for name, ok in expected.items():
                if not ok(out[name]):
                    raise Structure("element.rs: struct %s: field %s has type %s" % (struct, name, show(out[name])))
            return out
        self.iso_fields = fields("Isotope", {"mass": lambda t: t == "f64", "abundance": lambda t: t == "f64",
                                             "neutrons": lambda t: t == "u16", "neutron_shift": lambda t: t in SIGNED})
        self.elem_fields = fields("Element", {
            "symbol": lambda t: t == "String", "isotopes": lambda t: t == HM_ISO, "most_abundant_isotope": lambda t: t == "u16",
            "most_abundant_mass": lambda t: t == "f64", "min_neutron_shift": lambda t: t in SIGNED,
            "max_neutron_shift": lambda t: t in SIGNED, "element_number": lambda t: t in UNSIGNED})
        fields("PeriodicTable", {"elements": lambda t: t == HM_ELT})
        if not any(k[0] == "Element" and k[1] is None for k in el.fns):
            raise Structure("element.rs: no inherent impl of Element")
        self.pt_default = el.derives.get("PeriodicTable", False)
        ce = self.files["helper.rs"].structs.get("ChemicalElements") if not self.files["helper.rs"].missing else None
        want = {"periodic_table": "PeriodicTable", "C": "ElementSpecification", "H": "ElementSpecification", "O": "ElementSpecification",
                "N": "ElementSpecification", "S": "ElementSpecification", "H2O": "ChemicalComposition", "OH": "ChemicalComposition",
                "NH2": "ChemicalComposition"}
        self.ce_struct_ok = ce is not None and {f: t.replace(" < >", "").split(" <")[0].strip() for f, t in ce.items()} == want
        # what the other translators produced
        self.espec_ok, self.formula_ok = self.other("ESpecGen.v", "espec_gen_translated"), self.other("FormulaGen.v", "formula_gen_translated")

    @staticmethod
    def other(fname, listname):
        try:
            txt = open(os.path.join(COQ, "gen", fname), encoding="utf-8").read()
        except OSError:
            return set()
        m = re.search(r"Definition %s : list string := \[(.*?)\]" % listname, txt, re.S)
        return set(re.findall(r'"(\w+)"', m.group(1))) if m else set()

    def need_espec(self, name):
        if name not in self.espec_ok:
            raise Refuse("uses `%s` of element_specification.rs, which gen/ESpecGen.v does not define" % name)

    def need_formula(self, name):
        if name not in self.formula_ok:
            raise Refuse("uses `%s` of formula.rs, which gen/FormulaGen.v does not define" % name)

    def method(self, ty, name, static, trait=None):
        """the generated name of `ty::name`, if it is one of the units"""
        for g, rel, t, tr, src in UNITS:
            if t == ty and src == name and (tr == trait if trait is not None else tr in (None, "Index")):
                f = self.files[rel]
                if f.missing or (t, tr, src) not in f.fns:
                    return None
                return g
        return None

    def attempt(self, g):
        if g in self.done or g in self.skipped:
            return
        _, rel, ty, tr, src = self.units[g]
        f = self.files[rel]
        if f.missing or (ty, tr, src) not in f.fns:
            self.skipped[g] = "no such function in the source"
            return
        if (ty, tr, src) in f.dupes:
            self.skipped[g] = "`%s::%s` is defined more than once" % (ty, src)
            return
        if g in self.active:
            self.skipped[g] = "recursive call cycle"
            return
        self.active.append(g)
        try:
            fn = Fn(g, self, self.units[g])
            text = fn.translate()
            self.done[g] = {"selfkind": fn.selfkind, "params": fn.params, "rty": fn.rty, "mode": fn.mode, "text": text, "calls": fn.calls}
            self.emitted.append(g)
        except Refuse as e:
            self.skipped[g] = str(e)
        finally:
            self.active.pop()

    def sig(self, g):
        self.attempt(g)
        if g in self.skipped:
            raise Refuse("uses `%s`, which is skipped (%s)" % (g, self.skipped[g]))
        return self.done[g]


def translate():
    w = World()
    for g in WANTED:
        w.attempt(g)
    out = ["(* GENERATED by tools/gen_element.py from src/element.rs, src/helper.rs (ce_..) and src/abstract_composition.rs (cc_..) -- do not edit *)",
           "From Coq Require Import List ZArith NArith Bool Arith String.",
           "From CE Require Import Num Str TableTypes TableModel Comp ESpec Formula ImpS ImpE ImpC ImpT ESpecGen FormulaGen.",
           "Import ListNotations.", "Local Open Scope list_scope.", ""]
    for g in w.emitted:
        out.append(w.done[g]["text"])
        out.append("")
    q = lambda names: "[" + "; ".join('"%s"' % n for n in names) + "]%string"
    out.append("(* what the translator did with the functions it was asked for *)")
    out.append("Definition element_gen_translated : list string := %s." % q([g for g in WANTED if g in w.done]))
    out.append("Definition element_gen_skipped : list string := %s." % q([g for g in WANTED if g in w.skipped]))
    return "\n".join(out) + "\n", w


# ------------------------------------------------------------------ which ties of ElementTie.v still hold
def check_ties(w):
    """compile ElementTie.v block by block: common text + the block of one function + the blocks it needs"""
    text = open(TIE, encoding="utf-8").read()
    blocks, common, pos = {}, [], 0
    for m in re.finditer(r"\(\* BEGIN TIE (\w+)(?: \(needs: ([\w ]*)\))? \*\)\n(.*?)\(\* END TIE \1 \*\)\n", text, re.S):
        common.append(text[pos:m.start()])
        common.append("@@%s@@" % m.group(1))
        blocks[m.group(1)] = ((m.group(2) or "").split(), m.group(3))
        pos = m.end()
    common.append(text[pos:])

    def closure(n, acc):
        for d in blocks[n][0]:
            if d in blocks and d not in acc:
                closure(d, acc)
        if n not in acc:
            acc.append(n)
        return acc
    run = lambda args, cwd: subprocess.run(args, cwd=cwd, stdout=subprocess.PIPE, stderr=subprocess.STDOUT, universal_newlines=True)
    for f in ("model/ImpT.v", "gen/ElementGen.v"):
        r = run(["coqc", "-Q", ".", "CE", "-w", "-notation-overridden", f], COQ)
        if r.returncode != 0:
            print("tie check: %s does not compile\n%s" % (f, r.stdout))
            return 1
    bad = 0
    with tempfile.TemporaryDirectory() as tmp:
        for n in WANTED:
            if n in w.skipped:
                print("tie %s: SKIPPED (%s)" % (n, w.skipped[n]))
                bad += 1
                continue
            if n not in blocks:
                print("tie %s: no block in ElementTie.v" % n)
                bad += 1
                continue
            keep = closure(n, [])
            missing = [d for d in keep if d in w.skipped]
            if missing:
                print("tie %s: SKIPPED (needs %s, which is skipped)" % (n, ", ".join(missing)))
                bad += 1
                continue
            body = "".join(c if not c.startswith("@@") else (blocks[c[2:-2]][1] if c[2:-2] in keep else "") for c in common)
            path = os.path.join(tmp, "ElementTie_%s.v" % n)
            open(path, "w").write(body)
            r = run(["coqc", "-Q", COQ, "CE", "-w", "-notation-overridden", path], tmp)
            if r.returncode == 0:
                print("tie %s: OK" % n)
            else:
                bad += 1
                msg = [l for l in r.stdout.splitlines() if l.strip()]
                print("tie %s: FAILED (%s)" % (n, " | ".join(msg[-3:])[:300]))
    return 1 if bad else 0


def main():
    try:
        text, w = translate()
    except (Structure, OSError) as e:
        print("gen_element: refused: %s" % e)
        return 3
    old = open(OUT).read() if os.path.exists(OUT) else None
    if old != text:
        open(OUT, "w").write(text)
    for g in WANTED:
        if g in w.skipped:
            print("skipped %s: %s" % (g, w.skipped[g]))
    print("gen_element: %d functions translated (%s)%s%s" % (
        len(w.emitted), ", ".join(w.emitted), ", %d skipped" % len(w.skipped) if w.skipped else "",
        "" if old == text else " [rewritten]"))
    if "--ties" in sys.argv[1:]:
        return check_ties(w)
    return 0


if __name__ == "__main__":
    sys.exit(main())
