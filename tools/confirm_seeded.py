#!/usr/bin/env python3
"""Confirm a seeded change produced by a sub-agent in its scratch worktree and import it into /verif/seeded.
   usage: tools/confirm_seeded.py C13 [C16 ...]  (reads /tmp/mut/<ID>.out/{A,B}, uses worktree /tmp/mut/<ID>)"""
import json, os, shutil, subprocess, sys
VERIF = os.path.dirname(os.path.dirname(os.path.abspath(__file__)))
ENV = dict(os.environ, CARGO_NET_OFFLINE="true")

def sh(cmd, cwd, timeout=1800):
    p = subprocess.run(cmd, cwd=cwd, stdout=subprocess.PIPE, stderr=subprocess.STDOUT, timeout=timeout, shell=True, env=ENV)
    return p.returncode, p.stdout.decode("utf-8", "replace")

def suite_ok(wt):
    rc, out = sh("cargo test --offline 2>&1 | grep 'test result'", wt)
    return "41 passed; 0 failed" in out and out.count("0 failed") >= 3, out.strip().replace("\n", " | ")

def demo(wt, d):
    """returns (passes, how)"""
    t = os.path.join(d, "demo_test.rs")
    if os.path.exists(t):
        os.makedirs(os.path.join(wt, "tests"), exist_ok=True)
        shutil.copy(t, os.path.join(wt, "tests", "demo_test.rs"))
        rc, out = sh("cargo test --offline --test demo_test 2>&1 | tail -5", wt)
        os.remove(os.path.join(wt, "tests", "demo_test.rs"))
        try: os.rmdir(os.path.join(wt, "tests"))
        except OSError: pass
        return ("test result: ok" in out), "cargo test --test demo_test: " + out.strip().splitlines()[-1][:160]
    r = os.path.join(d, "run_demo.sh")
    if os.path.exists(r):
        rc, out = sh("sh %s %s 2>&1 | tail -5" % (r, wt), d)
        return rc == 0, "run_demo.sh: exit %d %s" % (rc, out.strip()[-160:])
    c = os.path.join(d, "demo", "Cargo.toml")
    if os.path.exists(c):
        rc, out = sh("cargo run --offline -q 2>&1 | tail -4", os.path.join(d, "demo"))
        rc2, _ = sh("cargo run --offline -q >/dev/null 2>&1", os.path.join(d, "demo"))
        return rc2 == 0, "cargo run in demo/: exit %d %s" % (rc2, out.strip()[-160:].replace("\n", " "))
    return None, "no demonstration found"

ROOT = os.environ.get("MUT_ROOT", "/tmp/mut")
SUFFIX = dict(zip("AB", os.environ.get("MUT_SUFFIX", "AB")))
for pid in sys.argv[1:]:
    wt = "%s/%s" % (ROOT, pid)
    for ab in "AB":
        d = "%s/%s.out/%s" % (ROOT, pid, ab)
        if not os.path.exists(os.path.join(d, "patch.diff")):
            print(pid, ab, "missing"); continue
        sh("git checkout -- . && git clean -fdq", wt)
        clean_pass, how0 = demo(wt, d)
        rc, out = sh("git apply %s/patch.diff" % d, wt)
        if rc != 0:
            print(pid, ab, "patch does not apply:", out[-200:]); continue
        ok, suite = suite_ok(wt)
        mut_pass, how1 = demo(wt, d)
        sh("git checkout -- . && git clean -fdq", wt)
        confirmed = bool(ok and clean_pass is True and mut_pass is False)
        print(pid, ab, "suite_ok=%s demo_clean=%s demo_mutated=%s -> %s" % (ok, clean_pass, mut_pass, "CONFIRMED" if confirmed else "REJECTED"))
        if not confirmed:
            print("   ", suite, "|", how0, "|", how1); continue
        dst = os.path.join(VERIF, "seeded", "%s%s" % (pid, SUFFIX[ab]))
        os.makedirs(dst, exist_ok=True)
        for f in os.listdir(d):
            if os.path.isfile(os.path.join(d, f)): shutil.copy(os.path.join(d, f), dst)
        if os.path.isdir(os.path.join(d, "demo")):
            shutil.copytree(os.path.join(d, "demo"), os.path.join(dst, "demo"), dirs_exist_ok=True, ignore=shutil.ignore_patterns("target"))
        meta = json.load(open(os.path.join(d, "meta.json")))
        meta["confirmed_by_verif"] = {"suite_with_change": suite, "demo_without_change": how0, "demo_with_change": how1}
        json.dump(meta, open(os.path.join(dst, "meta.json"), "w"), indent=1)
