#!/usr/bin/env python3
"""Apply each behaviour-preserving rewrite of seeded/harmless/ to the repository, run every quick check whose anchored
files it touches, and undo it.  Every check must stay quiet (exit 0, no VIOLATION line).  Writes
seeded/harmless/result.json.  Usage: run_harmless.py [H1 H12 ...]   (default: all)
REPO below is rewritten by tools/parallel_universe.sh for runs on a private copy."""
import glob, json, os, re, subprocess, sys, time

VERIF = os.path.dirname(os.path.dirname(os.path.abspath(__file__)))
REPO = "/repo"

# which checks read which source files
TOUCH = {
    "src/formula.rs": ["C01", "C05", "C07"],
    "src/composition_list.rs": ["C02", "C04", "C06"],
    "src/composition_map.rs": ["C02", "C04", "C06"],
    "src/abstract_composition.rs": ["C02", "C04", "C06"],
    "src/props.rs": ["C02", "C04", "C06"],
    "src/element_specification.rs": ["C16", "C06"],
    "src/element.rs": ["C16", "C12", "C01", "C05"],
    "src/helper.rs": ["C01", "C05", "C16", "C12"],
    "src/table.rs": ["C12", "C03"],
    "src/isotopic_pattern/baffling.rs": ["C03", "C08", "C09", "C10"],
    "src/isotopic_pattern/convolution.rs": ["C11", "C10"],
    "src/isotopic_pattern/poisson.rs": ["C15", "C10", "C09"],
    "src/isotopic_pattern/peak.rs": ["C13", "C14", "C11", "C10"],
    "src/mz.rs": ["C10", "C11", "C15", "C09"],
    "bindings/c/src/lib.rs": ["C17"],
}


def sh(cmd, **kw):
    p = subprocess.run(cmd, stdout=subprocess.PIPE, stderr=subprocess.STDOUT, text=True, **kw)
    return p.returncode, p.stdout


def main():
    want = sys.argv[1:]
    hd = os.path.join(VERIF, "seeded", "harmless")
    diffs = sorted(glob.glob(os.path.join(hd, "H*.diff")), key=lambda p: int(re.match(r"H(\d+)", os.path.basename(p)).group(1)))
    env = dict(os.environ, VERIF_REPO=REPO)
    res = {}
    for d in diffs:
        name = os.path.basename(d)[:-5]
        hid = name.split("_")[0]
        if want and hid not in want:
            continue
        rc, out = sh(["git", "-C", REPO, "status", "--porcelain"])
        if out.strip():
            print("refusing: repository has uncommitted changes"); sys.exit(2)
        files = re.findall(r"^\+\+\+ b/(\S+)", open(d).read(), re.M)
        checks = []
        for f in files:
            for c in TOUCH.get(f, []):
                if c not in checks:
                    checks.append(c)
        rc, out = sh(["git", "-C", REPO, "apply", d])
        if rc:
            res[name] = {"applied": False, "detail": out[-300:]}
            print(name, "APPLY FAILED"); continue
        r = {"applied": True, "files": files, "checks": {}}
        try:
            for c in checks:
                t0 = time.time()
                rc, out = sh(["./check", c], cwd=VERIF, env=env)
                last = [l for l in out.splitlines() if l.startswith("VIOLATION") or (" ok:" in l) or "extended" in l or "Traceback" in l]
                quiet = rc == 0 and not any(l.startswith("VIOLATION") for l in out.splitlines())
                ties = re.findall(r"source-level tie[^\n]{0,160}", out)
                r["checks"][c] = {"exit": rc, "quiet": quiet, "lines": last[-3:], "seconds": round(time.time() - t0, 1)}
                print(name, c, "quiet" if quiet else "ALARM", " | ".join(last[-2:])[:220]); sys.stdout.flush()
                ev = os.path.join(VERIF, "evidence", c + ".json")
                try:
                    st = json.load(open(ev)).get("coverage", {}).get("source_level_tie", {})
                    r["checks"][c]["source_ties"] = {k: v.get("status") for k, v in st.items()}
                except Exception:
                    pass
        finally:
            sh(["git", "-C", REPO, "checkout", "--", "."])
        res[name] = r
    out = os.path.join(hd, "result.json")
    old = {}
    if want and os.path.exists(out):
        old = json.load(open(out))
    old.update(res)
    json.dump(old, open(out, "w"), indent=1, sort_keys=True)
    alarms = [(n, c) for n, r in res.items() for c, v in r.get("checks", {}).items() if not v["quiet"]]
    print("harmless rewrites run: %d, alarms: %s" % (len(res), alarms))


if __name__ == "__main__":
    main()
