#!/usr/bin/env python3
"""Translate the formula PRINTER of the crate into a SHALLOW embedding in Gallina -> coq/gen/RenderGen.v:

  to_formula                       <- src/formula.rs: `pub fn to_formula<C>(composition: &C) -> String where &C: Into<ChemicalCompositionRef>`
  from_comp / from_vec / from_map  <- src/abstract_composition.rs: `impl From<&ChemicalComposition | &ChemicalCompositionVec |
                                      &ChemicalCompositionMap> for ChemicalCompositionRef` (fn from): the `Into` instances through
                                      which the three Display impls reach to_formula
  display_comp / display_vec / display_map
                                   <- `impl Display for ChemicalComposition` (abstract_composition.rs), `... for ChemicalCompositionVec`
                                      (composition_list.rs), `... for ChemicalCompositionMap` (composition_map.rs): fn fmt

coq/proofs/RenderTie.v then proves that the hand-written model coq/model/Render.v computes exactly what this translation
computes.  Strings, integer printing and the string-keyed reads are the MODEL'S OWN primitives (Str.v: show_Z, show_N,
str_eqb; ESpec.v: v_index_str / m_index_str through ImpR.cref_index_str) and the std operations of coq/model/ImpR.v
(sort_by: a stable insertion sort parameterised by the TRANSLATED comparison closure, str_cmp, ord_then, for_each): the
translation ties the CONTROL STRUCTURE (what is printed first, the sort key, which entries are skipped, when a bracket
and when a count is printed), not the primitives.

Every function is translated INDEPENDENTLY: a function whose body is outside the subset is skipped (`skipped <name>:
<construct>` on stdout, its name in `render_gen_skipped` in RenderGen.v), and so is a function that calls a skipped one.
Only a broken FILE STRUCTURE (unbalanced brackets, struct ElementSpecification / Element or the enums ChemicalComposition /
ChemicalCompositionRef not of the expected shape) makes the translator exit with status 3.

  python3 tools/gen_render.py            regenerate coq/gen/RenderGen.v (rewritten only when its content changes)
  python3 tools/gen_render.py --ties     additionally compile coq/proofs/RenderTie.v block by block (a block = the lemmas
                                         of one function, between `(* BEGIN TIE f (needs: ...) *)` and `(* END TIE f *)`)
                                         and print `tie <f>: OK | FAILED | SKIPPED` for every function

Every generated definition takes (PERIODIC_TABLE : ptable) (uni_alphabetic : char -> bool) first (the table and the
oracle for char::is_alphabetic that the string-keyed reads `composition["C"]` go through).

TRANSLATION (state-passing: a `let mut` local that is pushed to / sorted / assigned is rebound, Gallina shadowing = the
new value; statements in evaluation order)
  String / &str -> str (code points), char -> char (= N), i32 -> Z, u16 -> N, usize -> nat, bool -> bool,
  &ElementSpecification -> key = (symbol text, isotope), &i32 -> Z, (A, B) -> A * B, Vec<T> / an iterator of T -> list T,
  std::cmp::Ordering -> comparison, ChemicalComposition -> ccomp, ChemicalCompositionVec / ..Map -> ents,
  ChemicalCompositionRef -> cref, &mut Formatter -> the text written so far (fmt returns the new text).
  The generic `C` of to_formula with `where &C: Into<ChemicalCompositionRef>` -> an implicit type C and the parameter
  (into_ref : C -> cref); `composition.into()` -> into_ref composition; a caller passes the `From` impl for ITS type
  (to_formula(self) in `impl Display for ChemicalCompositionMap` -> to_formula_gen .. (from_map_gen ..) self).
  * `let [mut] x [: T] = e;`, `x = e;`          -> let x := e in ...
  * `s.push(c);` `s.push_str(e);` `s += e;`     -> let s := s ++ [c] in / let s := s ++ e in
  * `v.sort_by(|a, b| e);`                      -> let v := sort_by (fun a b => e) v in
    `v.sort_by_key(|a| e);`                     -> let v := sort_by_key <cmp of e's type> (fun a => e) v in
    with x.cmp(&y) -> str_cmp / N.compare / Z.compare / Nat.compare / pair_cmp .. by the type, o.then(p) -> ord_then o p,
    o.reverse() -> ord_reverse o
  * `if c { A } [else if ..] [else { B }]` as a statement
      no branch jumps                           -> let '(xs) := if c then A; (xs) else B; (xs) in ...   (xs: the outer locals A, B assign)
      a branch ends in `continue` / `return`    -> if c then A' else B'   with the rest of the block appended to the
                                                   branches that fall through
  * `for pat in v { body }` (v a Vec, `&v`, `v.iter()`, `v.into_iter()`)
                                                -> let '(xs) := for_each v (fun '(xs) pat => body; (xs)) (xs) in ...
    `continue;` -> (xs) as they are at that point; `break` / `return` inside a loop are refused
  * `return e;` / the last expression           -> e
  * `format!("lit{}..", a, ..)`                 -> lit ++ <Display of a> ++ ..     ({} only; Display of String / &str: the text,
    `x.to_string()`                                of i32 / &i32: show_Z, of u16: show_N, of usize: show_N (N.of_nat _), char: [c])
  * `write!(f, "..", ..)` / `f.write_str(e)` as the value of fmt -> f ++ ..
  * `c["lit"]` / `c[s]` on a ChemicalCompositionRef -> cref_index_str PERIODIC_TABLE uni_alphabetic c s   (checked: the
    source's `Index<&str> for ChemicalCompositionRef` dispatches to the Vec / Map `index`, which are the model's
    v_index_str / m_index_str), `c.iter()` -> cref_iter c, `c.len()` -> cref_len c, `it.collect()` into a Vec -> it,
    `k.element.symbol` -> spec_symbol k, `k.isotope` -> spec_isotope k, `t.0` `t.1` -> fst t / snd t,
    `String::with_capacity(n)` -> string_with_capacity n (= []), `String::new()` -> [], `s.len()` -> blen s,
    `v.len()` -> List.length v, `s.is_empty()`, `x.clone()` / `.as_str()` / `.to_owned()` on text -> x,
    == != on text -> str_eqb, on char / u16 -> N.eqb, on i32 -> Z.eqb, on usize -> Nat.eqb, < <= > >= -> ltb / leb,
    && || ! -> andb orb negb, `<a length> * <literal <= 8>` and `<a length> + <literal>` on usize -> Nat.mul / Nat.add
    (a capacity hint computed from a Vec / HashMap length cannot overflow), `Self::Vec(v)` /
    `ChemicalCompositionRef::Map(m)` -> RVec v / RMap m, `match value { ChemicalComposition::Vec(v) => .., ..Map(m) => .. }`
    -> match value with CVec v => .. | CMap m => .. end.

GRAMMAR of a function (comments are skipped; lifetimes and their bounds are dropped)
  fn      := vis? 'fn' name ['<' (life [':' life ('+' life)*] | name) ,* '>'] '(' params ')' ['->' type]
             ['where' (type ':' bound ('+' bound)*) ,*] block
  params  := ['&' life? ['mut']] 'self' | name ':' type, separated by ','
  type    := '&' life? 'mut'? type | '(' type ,* ')' | path ['<' (type|life) ,* '>']
  block   := '{' stmt* [expr] '}'
  stmt    := 'let' pat [':' type] '=' expr ';' | place ('=' | '+=') expr ';' | expr ';' | 'return' expr ';' | 'continue' ';'
           | 'if' expr block ['else' (block|if)] | 'for' pat 'in' expr block
  pat     := 'mut'? name | '_' | '(' pat ,* ')' | path '(' pat ,* ')' | '&' pat
  expr    := or        or := and ('||' and)*      and := cmp ('&&' cmp)*     cmp := add [cmpop add]
  add     := mul (('+'|'-') mul)*    mul := unary (('*'|'/') unary)*
  unary   := ('!'|'-'|'*'|'&' 'mut'?) unary | postfix
  postfix := primary ( '.' name ['::' '<' type '>'] ['(' args ')'] | '.' int | '[' expr ']' )*
  primary := int | char | string | 'true' | 'false' | name | path | path '(' args ')' | '(' expr [',' expr]* ')'
           | '|' name [',' name] '|' expr | 'match' expr '{' arm* '}' | 'if' expr block 'else' (block|if)
           | ('format' | 'write') '!' '(' .. ')'
  arm     := pat '=>' (expr ',' | block ','?)
Typing is checked.  `while` / `loop` / `break`, `?`, `as`, `unsafe`, closures elsewhere, other macros, integer arithmetic
other than the two forms above, and every other construct are refused (the function is skipped)."""
import os, re, subprocess, sys, tempfile
sys.path.insert(0, os.path.dirname(os.path.abspath(__file__)))
from gen_src import Refuse
from gen_poisson import ind, balanced
from gen_espec import tokens, unescape, is_op, skip_angle, impl_header, drop_vis, fields_of, Structure

REPO = os.environ.get("VERIF_REPO", "/repo")
COQ = os.path.join(os.path.dirname(os.path.dirname(os.path.abspath(__file__))), "coq")
OUT = os.path.join(COQ, "gen", "RenderGen.v")
TIE = os.path.join(COQ, "proofs", "RenderTie.v")
PRE = "PERIODIC_TABLE uni_alphabetic"
WANTED = ["from_comp", "from_vec", "from_map", "to_formula", "display_comp", "display_vec", "display_map"]
COMP, CVEC, CMAP, CREF, SPEC = ("ChemicalComposition", "ChemicalCompositionVec", "ChemicalCompositionMap",
                                "ChemicalCompositionRef", "ElementSpecification")

RESERVED = set("""N F Z nat bool list option str char string String ptable elem key ents cref ccomp comparison nil cons app
 fst snd pair negb andb orb true false Some None Eq Lt Gt CVec CMap RVec RMap fun let in if then else match with end forall
 exists fix cofix as at return Type Prop Set where struct using Definition Section Context End blen str_eqb show_N show_Z
 cref_ents cref_is_map cref_index_str cref_iter cref_len spec_symbol spec_isotope string_with_capacity ord_then ord_reverse
 str_cmp pair_cmp ins_by sort_by sort_by_key for_each Nat PERIODIC_TABLE uni_alphabetic into_ref C length rev map concat
 v_index_str m_index_str codes sym""".split())


def strip(t):
    """drop redundant outer parentheses (not those of a tuple)"""
    if t.startswith("(") and t.endswith(")") and balanced(t[1:-1]):
        depth = 0
        for ch in t[1:-1]:
            depth += ch in "(["
            depth -= ch in ")]"
            if ch == "," and depth == 0:
                return t
        return t[1:-1]
    return t


def atom(t):
    if re.fullmatch(r"[A-Za-z_][A-Za-z0-9_']*", t) or (t.startswith("(") and t.endswith(")") and balanced(t[1:-1])) \
            or (t.startswith("[") and t.endswith("]") and "[" not in t[1:]):
        return t
    return "(%s)" % t


# ------------------------------------------------------------------ items (with their attributes)
def split_items(toks, what):
    """top-level items of a token list: (attribute token-value lists, header tokens, body tokens or None)"""
    items, i, n, attrs = [], 0, len(toks), []
    while i < n:
        if is_op(toks[i], "#"):
            j = i + 1
            if j < n and is_op(toks[j], "!"):
                j += 1
            if j >= n or not is_op(toks[j], "["):
                raise Structure("%s: stray `#`" % what)
            depth, k = 0, j
            while k < n:
                depth += is_op(toks[k], "[")
                depth -= is_op(toks[k], "]")
                k += 1
                if depth == 0:
                    break
            if depth:
                raise Structure("%s: unterminated attribute" % what)
            attrs.append([v for _, v in toks[j + 1:k - 1]])
            i = k
            continue
        head, depth, j, body = [], 0, i, None
        while True:
            if j >= n:
                raise Structure("%s: item `%s ...` does not end" % (what, " ".join(v for _, v in toks[i:i + 4])))
            t = toks[j]
            if t[0] == "op" and t[1] in ("(", "["):
                depth += 1
            elif t[0] == "op" and t[1] in (")", "]"):
                depth -= 1
                if depth < 0:
                    raise Structure("%s: unbalanced `%s`" % (what, t[1]))
            elif is_op(t, "}"):
                raise Structure("%s: unbalanced `}`" % what)
            elif is_op(t, ";") and depth == 0:
                j += 1
                break
            elif is_op(t, "{") and depth == 0:
                d, k = 0, j
                while k < n:
                    d += is_op(toks[k], "{")
                    d -= is_op(toks[k], "}")
                    k += 1
                    if d == 0:
                        break
                if d:
                    raise Structure("%s: unbalanced `{`" % what)
                body = toks[j + 1:k - 1]
                j = k
                break
            head.append(t)
            j += 1
        items.append((attrs, head, body))
        attrs = []
        i = j
    return items


def enum_variants(body):
    """`Name(payload..) ,` / `Name ,` -> [(name, payload token values without lifetimes)] in source order"""
    out, cur, d = [], [], 0
    for t in list(body) + [("op", ",")]:
        d += t[0] == "op" and t[1] in ("<", "(", "[", "{")
        d -= t[0] == "op" and t[1] in (">", ")", "]", "}")
        if is_op(t, ",") and d == 0:
            while cur and is_op(cur[0], "#"):                 # attributes of the variant
                k, dd = 1, 0
                while k < len(cur):
                    dd += is_op(cur[k], "["); dd -= is_op(cur[k], "]"); k += 1
                    if dd == 0:
                        break
                cur = cur[k:]
            if cur:
                out.append((cur[0][1], [v for kind, v in cur[1:] if kind != "life"]))
            cur = []
        else:
            cur.append(t)
    return out


def load_items(rel):
    src = open(os.path.join(REPO, rel), encoding="utf-8").read()
    src = src.split("#[cfg(test)]")[0]
    return split_items(tokens(src), rel)


# ------------------------------------------------------------------ parsing a function to an AST (tuples)
CMP = ("==", "!=", "<", "<=", ">", ">=")
KEYWORDS = ("loop", "while", "move", "break", "let", "mut", "fn", "else", "in", "impl", "struct", "enum", "use", "mod",
            "dyn", "ref", "static", "const", "where", "type", "trait", "async", "await")


class Parser:
    """the statement / expression grammar shared by gen_render.py and gen_cbind.py (the latter adds `unsafe` blocks,
    `as`, `*p = e` and `match` on Ok / Err, switched on by `ext`)"""
    def __init__(self, toks, ext=False):
        self.t, self.i, self.ext = toks, 0, ext

    def peek(self, k=0):
        return self.t[self.i + k] if self.i + k < len(self.t) else ("eof", "<end>")

    def at(self, *vs):
        return all(self.peek(k)[0] in ("op", "id") and self.peek(k)[1] == v for k, v in enumerate(vs))

    def context(self):
        return " ".join(v for _, v in self.t[max(0, self.i - 4):self.i + 6])

    def take(self, val=None, kind=None):
        k, v = self.peek()
        if (val is not None and (v != val or k not in ("op", "id"))) or (kind is not None and k != kind):
            raise Refuse("expected %s, found %r near `%s`" % (val or kind, v, self.context()))
        self.i += 1
        return v

    def end(self):
        if self.peek()[0] != "eof":
            raise Refuse("unexpected %r near `%s`" % (self.peek()[1], self.context()))

    # ---- types: references are erased except `&mut`, kept as ("mutref", T); raw pointers are ("ptr", T)
    def type_(self):
        if self.at("&"):
            self.take()
            if self.peek()[0] == "life":
                self.take()
            if self.at("mut"):
                self.take()
                return ("mutref", self.type_())
            return self.type_()
        if self.at("*") and self.peek(1)[1] in ("mut", "const"):
            self.take(); self.take()
            return ("ptr", self.type_())
        if self.at("("):
            self.take()
            if self.at(")"):
                self.take()
                return ("path", ["()"], [])
            parts = [self.type_()]
            while self.at(","):
                self.take()
                if self.at(")"):
                    break
                parts.append(self.type_())
            self.take(")")
            return ("tuple", parts) if len(parts) > 1 else parts[0]
        if self.at("dyn") or self.at("impl") or self.at("["):
            raise Refuse("type near `%s`" % self.context())
        segs = [self.take(kind="id")]
        while self.at("::") and self.peek(1)[0] == "id":
            self.take(); segs.append(self.take(kind="id"))
        args = []
        if self.at("<"):
            self.take()
            while not self.at(">"):
                if self.peek()[0] == "life":
                    self.take()
                else:
                    args.append(self.type_())
                if self.at(","):
                    self.take()
                elif not self.at(">"):
                    raise Refuse("generic arguments near `%s`" % self.context())
            self.take(">")
        return ("path", segs, args)

    def bounds(self):
        """`B1 + 'a + B2` -> the trait bounds as types"""
        out = []
        while True:
            if self.peek()[0] == "life":
                self.take()
            else:
                out.append(self.type_())
            if self.at("+"):
                self.take()
            else:
                return out

    def signature(self):
        """-> dict(name, generics {name: [bounds]}, where [(type, [bounds])], selfkind None|'ref'|'mut'|'val', params, rty, abi)"""
        abi = None
        if self.at("extern"):
            self.take(); abi = self.take(kind="str")
        if self.at("unsafe"):
            raise Refuse("`unsafe fn`")
        self.take("fn")
        name = self.take(kind="id")
        generics = {}
        if self.at("<"):
            self.take()
            while not self.at(">"):
                if self.peek()[0] == "life":
                    self.take()
                    if self.at(":"):
                        self.take()
                        while self.peek()[0] == "life":
                            self.take()
                            if self.at("+"):
                                self.take()
                else:
                    g = self.take(kind="id")
                    generics[g] = []
                    if self.at(":"):
                        self.take(); generics[g] = self.bounds()
                if self.at(","):
                    self.take()
                elif not self.at(">"):
                    raise Refuse("generic parameters near `%s`" % self.context())
            self.take(">")
        self.take("(")
        selfkind, params, first = None, [], True
        while not self.at(")"):
            if not first:
                self.take(",")
                if self.at(")"):
                    break
            j = 0
            if first and self.at("&"):
                j = 1
                if self.peek(j)[0] == "life":
                    j += 1
                if self.peek(j) == ("id", "mut"):
                    j += 1
            if first and self.peek(j) == ("id", "self"):
                kinds = [self.peek(x)[1] for x in range(j)]
                for _ in range(j + 1):
                    self.take()
                selfkind = "val" if not kinds else ("mut" if "mut" in kinds else "ref")
            elif self.at("mut"):
                raise Refuse("`mut` parameter near `%s`" % self.context())
            else:
                a = self.take(kind="id"); self.take(":")
                params.append((a, self.type_()))
            first = False
        self.take(")")
        rty = None
        if self.at("->"):
            self.take(); rty = self.type_()
        where = []
        if self.at("where"):
            self.take()
            while self.peek()[0] != "eof":
                if self.peek()[0] == "life":
                    self.take(); self.take(":")
                    while self.peek()[0] == "life":
                        self.take()
                        if self.at("+"):
                            self.take()
                else:
                    t = self.type_(); self.take(":")
                    where.append((t, self.bounds()))
                if self.at(","):
                    self.take()
                else:
                    break
        self.end()
        return {"name": name, "generics": generics, "where": where, "selfkind": selfkind, "params": params, "rty": rty, "abi": abi}

    # ---- patterns
    def pattern(self):
        if self.at("("):
            self.take()
            ps = [self.pattern()]
            while self.at(","):
                self.take()
                if self.at(")"):
                    break
                ps.append(self.pattern())
            self.take(")")
            return ("ptuple", ps) if len(ps) > 1 else ps[0]
        if self.at("_"):
            self.take()
            return ("pwild",)
        if self.at("&"):
            self.take()
            if self.at("mut"):
                raise Refuse("`&mut` pattern")
            return self.pattern()
        if self.at("mut"):
            self.take()
            return ("pvar", True, self.take(kind="id"))
        if self.at("ref"):
            raise Refuse("`ref` pattern near `%s`" % self.context())
        k, v = self.peek()
        if k != "id":
            raise Refuse("literal or unsupported pattern near `%s`" % self.context())
        self.take()
        segs = [v]
        while self.at("::"):
            self.take(); segs.append(self.take(kind="id"))
        if self.at("{") or self.at("@"):
            raise Refuse("struct / binding pattern `%s ..` near `%s`" % (v, self.context()))
        if self.at("|"):
            raise Refuse("or-pattern near `%s`" % self.context())
        if self.at("("):
            self.take()
            subs = []
            while not self.at(")"):
                subs.append(self.pattern())
                if self.at(","):
                    self.take()
                elif not self.at(")"):
                    raise Refuse("pattern near `%s`" % self.context())
            self.take(")")
            return ("ppath", segs, subs)
        if len(segs) > 1 or v[:1].isupper():
            return ("ppath", segs, None)
        return ("pvar", False, v)

    # ---- expressions.  nostruct: condition / scrutinee position
    def expr(self, nostruct=False):
        a = self.and_(nostruct)
        while self.at("||"):
            self.take()
            a = ("logic", "||", a, self.and_(nostruct))
        if self.peek()[0] == "op" and self.peek()[1] in ("..", "..=", "^", "%", "/=", "%=", "|"):
            raise Refuse("operator %r near `%s`" % (self.peek()[1], self.context()))
        return a

    def and_(self, nostruct):
        a = self.cmp(nostruct)
        while self.at("&&"):
            self.take()
            a = ("logic", "&&", a, self.cmp(nostruct))
        return a

    def cmp(self, nostruct):
        a = self.arith(nostruct)
        if self.peek()[0] == "op" and self.peek()[1] in CMP:
            op = self.take()
            b = self.arith(nostruct)
            if self.peek()[0] == "op" and self.peek()[1] in CMP:
                raise Refuse("chained comparison near `%s`" % self.context())
            a = ("cmp", op, a, b)
        return a

    def arith(self, nostruct):
        a = self.term(nostruct)
        while self.peek()[0] == "op" and self.peek()[1] in ("+", "-"):
            op = self.take()
            a = ("bin", op, a, self.term(nostruct))
        return a

    def term(self, nostruct):
        a = self.cast(nostruct)
        while self.peek()[0] == "op" and self.peek()[1] in ("*", "/"):
            op = self.take()
            a = ("bin", op, a, self.cast(nostruct))
        return a

    def cast(self, nostruct):
        a = self.unary(nostruct)
        while self.at("as"):
            if not self.ext:
                raise Refuse("`as` near `%s`" % self.context())
            self.take()
            a = ("cast", a, self.type_())
        return a

    def unary(self, nostruct):
        if self.at("!"):
            self.take()
            return ("not", self.unary(nostruct))
        if self.at("-"):
            self.take()
            return ("neg", self.unary(nostruct))
        if self.at("*"):
            self.take()
            return ("deref", self.unary(nostruct))
        if self.at("&&"):
            raise Refuse("`&&` as a double reference near `%s`" % self.context())
        if self.at("&"):
            self.take()
            if self.at("mut"):
                self.take()
            return ("ref", self.unary(nostruct))
        return self.postfix(nostruct)

    def args(self):
        self.take("(")
        out = []
        while not self.at(")"):
            out.append(self.expr())
            if self.at(","):
                self.take()
            elif not self.at(")"):
                raise Refuse("argument list near `%s`" % self.context())
        self.take(")")
        return out

    def postfix(self, nostruct):
        a = self.primary(nostruct)
        while True:
            if self.at("."):
                self.take()
                if self.peek()[0] == "int":
                    v = self.take()
                    if not re.fullmatch(r"\d", v):
                        raise Refuse("tuple field `.%s`" % v)
                    a = ("tfield", a, int(v))
                    continue
                f = self.take(kind="id")
                if f == "await":
                    raise Refuse("`.await`")
                turbo = None
                if self.at("::"):
                    self.take(); self.take("<"); turbo = self.type_(); self.take(">")
                if self.at("("):
                    a = ("mcall", a, f, turbo, self.args())
                elif turbo is not None:
                    raise Refuse("turbofish without a call near `%s`" % self.context())
                else:
                    a = ("field", a, f)
            elif self.at("["):
                self.take()
                ix = self.expr()
                self.take("]")
                a = ("index", a, ix)
            elif self.at("?"):
                raise Refuse("`?` near `%s`" % self.context())
            else:
                return a

    def closure(self):
        self.take("|")
        xs = []
        while not self.at("|"):
            if self.at("_"):
                self.take(); xs.append(None)
            elif self.at("&") or self.at("(") or self.at("mut"):
                raise Refuse("pattern in a closure parameter near `%s`" % self.context())
            else:
                xs.append(self.take(kind="id"))
            if self.at(":"):
                raise Refuse("typed closure parameter")
            if self.at(","):
                self.take()
        self.take("|")
        if self.at("{"):
            b = self.block()
            if b[0] or b[1] is None:
                raise Refuse("closure with statements in its body near `%s`" % self.context())
            return ("closure", xs, b[1])
        return ("closure", xs, self.expr())

    def macro_args(self):
        """`( [target ,] "fmt" (, expr)* )`"""
        self.take("(")
        first = None
        if self.peek()[0] != "str":
            first = self.expr(); self.take(",")
        fmt = self.take(kind="str")
        args = []
        while self.at(","):
            self.take()
            if self.at(")"):
                break
            if self.peek()[0] == "id" and self.peek(1) == ("op", "=") and self.peek(2) != ("op", "="):
                raise Refuse("named format argument")
            args.append(self.expr())
        self.take(")")
        return first, fmt, args

    def primary(self, nostruct):
        k, v = self.peek()
        if k == "int":
            self.take()
            m = re.fullmatch(r"([\d_]+)([iu]\w+)?", v)
            return ("int", m.group(1).replace("_", ""), m.group(2))
        if k == "char":
            self.take()
            return ("char", unescape(v)[0])
        if k == "str":
            self.take()
            return ("strlit", v)
        if k == "op" and v == "(":
            self.take()
            if self.at(")"):
                raise Refuse("unit value `()`")
            a = self.expr()
            if self.at(","):
                parts = [a]
                while self.at(","):
                    self.take()
                    if self.at(")"):
                        break
                    parts.append(self.expr())
                self.take(")")
                return ("tuple", parts)
            self.take(")")
            return ("paren", a)
        if k == "op" and v == "|":
            return self.closure()
        if k == "op" and v == "||":
            raise Refuse("closure without parameters")
        if k == "op" and v == "{":
            return ("blockexpr", self.block())
        if k != "id":
            raise Refuse("unexpected %r near `%s`" % (v, self.context()))
        if v in ("true", "false"):
            self.take()
            return ("bool", v)
        if v == "match":
            return self.match_()
        if v == "if":
            return self.if_()
        if v == "unsafe":
            if not self.ext:
                raise Refuse("`unsafe`")
            self.take()
            return ("unsafe", self.block())
        if v == "return":
            self.take()
            if self.at(";") or self.at(",") or self.at("}"):
                raise Refuse("`return` without a value")
            return ("return", self.expr())
        if v == "continue":
            self.take()
            if self.peek()[0] == "life":
                raise Refuse("labelled `continue`")
            return ("continue",)
        if v == "for":
            return self.for_()
        if v in KEYWORDS:
            raise Refuse("`%s` near `%s`" % (v, self.context()))
        self.take()
        if self.at("!") and not (self.peek(1) == ("op", "=")):
            if v not in ("write", "format"):
                raise Refuse("macro `%s!`" % v)
            self.take()
            first, fmt, args = self.macro_args()
            if (v == "write") != (first is not None):
                raise Refuse("arguments of `%s!`" % v)
            return ("write", first, fmt, args) if v == "write" else ("format", fmt, args)
        path = [v]
        while self.at("::"):
            self.take()
            if self.at("<"):
                raise Refuse("turbofish in a path near `%s`" % self.context())
            path.append(self.take(kind="id"))
        if self.at("("):
            return ("call", path, self.args())
        if self.at("{") and not nostruct and path[-1][:1].isupper():
            raise Refuse("struct literal `%s { .. }`" % path[-1])
        if len(path) > 1:
            return ("path", path)
        return ("var", v)

    def match_(self):
        self.take("match")
        scrut = self.expr(True)
        self.take("{")
        arms = []
        while not self.at("}"):
            pat = self.pattern()
            if self.at("if"):
                raise Refuse("match guard")
            self.take("=>")
            if self.at("{"):
                body = ("blockexpr", self.block())
                if self.at(","):
                    self.take()
            else:
                body = self.expr()
                if self.at(","):
                    self.take()
                elif not self.at("}"):
                    raise Refuse("match arm near `%s`" % self.context())
            arms.append((pat, body))
        self.take("}")
        return ("match", scrut, arms)

    def if_(self):
        self.take("if")
        if self.at("let"):
            raise Refuse("`if let`")
        c = self.expr(True)
        b1 = self.block()
        b2 = None
        if self.at("else"):
            self.take()
            b2 = ([], self.if_()) if self.at("if") else self.block()
        return ("if", c, b1, b2)

    def for_(self):
        self.take("for")
        pat = self.pattern()
        self.take("in")
        e = self.expr(True)
        return ("for", pat, e, self.block())

    # ---- statements
    def block(self):
        self.take("{")
        stmts, tail = [], None
        while not self.at("}"):
            if tail is not None:
                if tail[0] in ("if", "match", "blockexpr", "for", "unsafe"):      # a block-like expression used as a statement
                    stmts.append(("expr", tail)); tail = None
                else:
                    raise Refuse("an expression that is not last in its block, near `%s`" % self.context())
            if self.peek()[0] == "eof":
                raise Refuse("unterminated block")
            if self.at(";"):
                self.take()
                continue
            if self.at("let"):
                self.take()
                pat = self.pattern()
                if pat[0] == "ppath":
                    raise Refuse("refutable pattern in `let`")
                ty = None
                if self.at(":"):
                    self.take(); ty = self.type_()
                if not self.at("="):
                    raise Refuse("`let` without initialiser (or let-else) near `%s`" % self.context())
                self.take("=")
                e = self.expr()
                if self.at("else"):
                    raise Refuse("let-else")
                self.take(";")
                stmts.append(("let", pat, ty, e))
                continue
            e = self.expr()
            if self.peek()[0] == "op" and self.peek()[1] in ("=", "+=", "-=", "*="):
                op = self.take()
                r = self.expr()
                if not self.at("}"):
                    self.take(";")
                stmts.append(("assign", op, e, r))
                continue
            if self.at(";"):
                self.take()
                if e[0] == "return":
                    stmts.append(("ret", e[1]))
                elif e[0] == "continue":
                    stmts.append(("continue",))
                else:
                    stmts.append(("expr", e))
            else:
                tail = e
        self.take("}")
        if tail is not None and tail[0] == "return":
            stmts.append(("ret", tail[1])); tail = None
        if tail is not None and tail[0] == "continue":
            stmts.append(("continue",)); tail = None
        if tail is not None and tail[0] == "for":
            stmts.append(("expr", tail)); tail = None
        return (stmts, tail)


def unparen(e):
    while e[0] in ("paren", "ref", "deref"):
        e = e[1]
    return e


def parse_fn(head, body, ext=False):
    sig = Parser(head, ext).signature()
    ast = Parser([("op", "{")] + body + [("op", "}")], ext).block()
    return sig, ast


# ------------------------------------------------------------------ types of the printer
TEXT = ("str", "String")
INTS = {"i32": ("Z", "%Z"), "u16": ("N", "%N"), "usize": ("nat", "%nat")}


def show(ty):
    if ty is None:
        return "_"
    if isinstance(ty, tuple):
        if ty[0] == "tuple":
            return "(%s)" % ", ".join(show(t) for t in ty[1])
        return "%s<%s>" % (ty[0], show(ty[1]))
    return ty


def coq_ty(ty):
    if isinstance(ty, tuple):
        if ty[0] == "tuple":
            return "(%s)" % " * ".join(atom(coq_ty(t)) for t in ty[1])
        if ty[0] in ("vec", "iter"):
            return "list %s" % atom(coq_ty(ty[1]))
        if ty[0] == "generic":
            return ty[1]
    return {"str": "str", "String": "str", "char": "char", "i32": "Z", "u16": "N", "usize": "nat", "bool": "bool",
            "Spec": "key", "CRef": "cref", "CComp": "ccomp", "CVecT": "ents", "CMapT": "ents", "Ordering": "comparison",
            "Fmt": "str", "FmtResult": "str"}[ty]


def same(a, b):
    if a in TEXT and b in TEXT:
        return True
    if isinstance(a, tuple) and isinstance(b, tuple) and a[0] == b[0]:
        if a[0] == "tuple":
            return len(a[1]) == len(b[1]) and all(same(x, y) for x, y in zip(a[1], b[1]))
        return same(a[1], b[1])
    return a == b


def jumps(x):
    """does a statement list / block / expression contain `continue` or `return` (outside nested loops for continue)"""
    if isinstance(x, tuple):
        if x and x[0] in ("continue", "ret", "return"):
            return True
        if x and x[0] == "closure":
            return False
        return any(jumps(c) for c in x)
    if isinstance(x, list):
        return any(jumps(c) for c in x)
    return False


def ends_in_jump(block):
    ss, tail = block
    if tail is not None:
        t = unparen(tail)
        if t[0] == "if":
            return t[3] is not None and ends_in_jump(t[2]) and ends_in_jump(t[3])
        return t[0] in ("return", "continue")
    if not ss:
        return False
    s = ss[-1]
    if s[0] in ("ret", "continue"):
        return True
    if s[0] == "expr" and unparen(s[1])[0] == "if":
        t = unparen(s[1])
        return t[3] is not None and ends_in_jump(t[2]) and ends_in_jump(t[3])
    return False


class Fn:
    def __init__(self, gname, selfty, sig, body, world):
        self.gname, self.selfty, self.sig, self.body, self.world = gname, selfty, sig, body, world
        self.calls = []
        self.generic = None            # the type parameter C with `&C: Into<ChemicalCompositionRef>`
        for g, bs in sig["generics"].items():
            if bs:
                raise Refuse("bounded generic parameter `%s`" % g)
            ok = [1 for t, bounds in sig["where"]
                  if t == ("path", [g], []) and len(bounds) == 1 and bounds[0][0] == "path" and bounds[0][1][-1] == "Into"
                  and len(bounds[0][2]) == 1 and bounds[0][2][0][0] == "path" and bounds[0][2][0][1][-1] == CREF]
            if len(ok) != 1 or len(sig["where"]) != 1 or self.generic is not None:
                raise Refuse("generic parameter `%s` without exactly `where &%s: Into<%s>`" % (g, g, CREF))
            self.generic = g
        if sig["where"] and self.generic is None:
            raise Refuse("`where` clause")
        if sig["abi"] is not None:
            raise Refuse("extern function")
        if sig["selfkind"] not in (None, "ref"):
            raise Refuse("`%s self` receiver" % sig["selfkind"])
        self.params = [(a, self.resolve(t)) for a, t in sig["params"]]
        if sig["rty"] is None:
            raise Refuse("a function without result type")
        self.rty = self.resolve(sig["rty"])

    # ---- types
    def resolve(self, t):
        if t[0] == "mutref":
            r = self.resolve(t[1])
            if r != "Fmt":
                raise Refuse("`&mut %s`" % show(r))
            return r
        if t[0] == "ptr":
            raise Refuse("raw pointer type")
        if t[0] == "tuple":
            return ("tuple", [self.resolve(x) for x in t[1]])
        segs, args = t[1], t[2]
        last = segs[-1]
        if segs == ["Self"]:
            return {COMP: "CComp", CVEC: "CVecT", CMAP: "CMapT", CREF: "CRef"}[self.selfty]
        if len(segs) == 1 and last == self.generic and not args:
            return ("generic", "C")
        if last == "Vec" and len(args) == 1:
            return ("vec", self.resolve(args[0]))
        if last == "Result" and segs[:-1] in (["fmt"], ["std", "fmt"]) and not args:
            return "FmtResult"
        if last == "Formatter" and segs[:-1] in ([], ["fmt"], ["std", "fmt"]):
            return "Fmt"
        if last == "Ordering" and not args:
            return "Ordering"
        base = {"str": "str", "String": "String", "char": "char", "i32": "i32", "u16": "u16", "usize": "usize", "bool": "bool",
                SPEC: "Spec", CREF: "CRef", COMP: "CComp", CVEC: "CVecT", CMAP: "CMapT"}
        if len(segs) == 1 and last in base and (not args or last in (SPEC, CREF, COMP, CVEC, CMAP)):
            return base[last]
        raise Refuse("type `%s`" % "::".join(segs))

    # ---- names
    def declare(self, env, x, ty, mut=False):
        if not re.fullmatch(r"[a-z_][a-z0-9_]*", x) or x == "_" or x.endswith("_gen"):
            raise Refuse("local name `%s` is not a plain lower-case identifier (or looks like a generated one)" % x)
        if ty is None:
            raise Refuse("the type of `%s` is not determined" % x)
        env = dict(env)
        c = x + "_" if x in RESERVED else x
        if any(v["coq"] == c and n != x for n, v in env.items()):
            raise Refuse("local names `%s` and `%s` collide after renaming" % (x, c))
        env[x] = {"ty": ty, "coq": c, "mut": mut}
        return env

    def bind_pattern(self, pat, ty, env, mut_ok=True):
        """-> (Gallina pattern text, new env)"""
        if pat[0] == "pvar":
            env = self.declare(env, pat[2], ty, pat[1])
            return env[pat[2]]["coq"], env
        if pat[0] == "pwild":
            return "_", env
        if pat[0] == "ptuple":
            if not (isinstance(ty, tuple) and ty[0] == "tuple" and len(ty[1]) == len(pat[1])):
                raise Refuse("tuple pattern for a value of type %s" % show(ty))
            parts = []
            for p, t in zip(pat[1], ty[1]):
                txt, env = self.bind_pattern(p, t, env)
                parts.append(txt.lstrip("'"))
            return "'(" + ", ".join(parts) + ")", env
        raise Refuse("pattern form %r here" % pat[0])

    # ---- statements.  done(env) -> the text of what follows the statement list; loop: done of the enclosing loop body
    def assigned(self, x, env, acc):
        """outer locals (in env) that a block assigns / mutates, in first-assignment order"""
        def place_var(e):
            e = unparen(e)
            return e[1] if e[0] == "var" else None
        if isinstance(x, list):
            for c in x:
                self.assigned(c, env, acc)
            return acc
        if not isinstance(x, tuple) or not x:
            return acc
        if x[0] == "assign":
            v = place_var(x[2])
            if v in env and v not in acc:
                acc.append(v)
            self.assigned(x[3], env, acc)
            return acc
        if x[0] == "mcall" and x[2] in ("push", "push_str", "sort_by", "sort_by_key"):
            v = place_var(x[1])
            if v in env and v not in acc:
                acc.append(v)
        if x[0] == "let":
            self.assigned(x[3], env, acc)
            # a `let` that shadows an outer name hides it for the rest of ITS block: handled by the caller (block scope)
            return acc
        if x[0] == "closure":
            return acc
        for c in x:
            if isinstance(c, (tuple, list)):
                self.assigned(c, env, acc)
        return acc

    def block_assigned(self, block, env):
        """outer locals assigned by a block, not counting names the block itself declares by `let` before assigning"""
        ss, tail = block
        acc, local = [], set()
        for s in ss:
            got = self.assigned(s, env, [])
            for v in got:
                if v not in local and v not in acc:
                    acc.append(v)
            if s[0] == "let":
                for n in self.pat_names(s[1]):
                    local.add(n)
        if tail is not None:
            for v in self.assigned(tail, env, []):
                if v not in local and v not in acc:
                    acc.append(v)
        return acc

    def pat_names(self, pat):
        if pat[0] == "pvar":
            return [pat[2]]
        if pat[0] == "ptuple":
            return [n for p in pat[1] for n in self.pat_names(p)]
        if pat[0] == "ppath" and pat[2]:
            return [n for p in pat[2] for n in self.pat_names(p)]
        return []

    def tuple_of(self, xs, env):
        names = [env[x]["coq"] for x in xs]
        return names[0] if len(names) == 1 else "(%s)" % ", ".join(names)

    def tuple_pat(self, xs, env):
        names = [env[x]["coq"] for x in xs]
        return names[0] if len(names) == 1 else "'(%s)" % ", ".join(names)

    def seq(self, ss, tail, env, done, loop, value_k=None):
        """the statements ss, then the tail expression (handed to value_k when the block is a value) or done(env)"""
        if not ss:
            if tail is not None:
                t = unparen(tail)
                if t[0] == "if" and (value_k is None):
                    return self.if_stmt(t, [], None, env, done, loop, value_k)
                if value_k is None:
                    raise Refuse("a block that ends in a value where none is used")
                return value_k(tail, env)
            if value_k is not None:
                raise Refuse("a block that ends without a value")
            return done(env)
        s, more = ss[0], ss[1:]
        again = lambda env2: self.seq(more, tail, env2, done, loop, value_k)
        if s[0] == "let":
            _, pat, ty, e = s
            wty = self.resolve(ty) if ty is not None else None
            t, tyv = self.ex(e, env, wty)
            if wty is not None and not same(wty, tyv):
                raise Refuse("let: declared %s, initialiser has %s" % (show(wty), show(tyv)))
            ptxt, env2 = self.bind_pattern(pat, wty if wty is not None else tyv, env)
            return "let %s := %s in\n%s" % (ptxt, strip(t), again(env2))
        if s[0] == "assign":
            _, op, lhs, rhs = s
            l = unparen(lhs)
            if l[0] != "var" or l[1] not in env:
                raise Refuse("assignment to something that is not a local")
            v = env[l[1]]
            if not v["mut"]:
                raise Refuse("assignment to `%s`, which is not `let mut`" % l[1])
            r, tr = self.ex(rhs, env, v["ty"])
            if op == "=" and same(tr, v["ty"]):
                return "let %s := %s in\n%s" % (v["coq"], strip(r), again(env))
            if op == "+=" and v["ty"] == "String" and tr in TEXT:
                return "let %s := %s ++ %s in\n%s" % (v["coq"], v["coq"], atom(r), again(env))
            raise Refuse("`%s %s <%s>`" % (show(v["ty"]), op, show(tr)))
        if s[0] == "ret":
            if more or tail is not None:
                raise Refuse("statements after `return`")
            if loop is not None:
                raise Refuse("`return` inside a loop")
            t, ty = self.ex(s[1], env, self.rty)
            if not same(ty, self.rty):
                raise Refuse("returns a %s, declared %s" % (show(ty), show(self.rty)))
            return strip(t)
        if s[0] == "continue":
            if more or tail is not None:
                raise Refuse("statements after `continue`")
            if loop is None:
                raise Refuse("`continue` outside a loop")
            return loop(env)
        if s[0] == "expr":
            e = unparen(s[1])
            if e[0] == "if":
                return self.if_stmt(e, more, tail, env, done, loop, value_k)
            if e[0] == "for":
                return self.for_stmt(e, env, again)
            if e[0] == "mcall":
                recv = unparen(e[1])
                if recv[0] == "var" and recv[1] in env and e[2] in ("push", "push_str", "sort_by", "sort_by_key"):
                    v = env[recv[1]]
                    if not v["mut"]:
                        raise Refuse("`%s.%s(..)` on a local that is not `let mut`" % (recv[1], e[2]))
                    return "let %s := %s in\n%s" % (v["coq"], strip(self.mutation(v, e, env)), again(env))
            raise Refuse("expression statement `%s ..;`" % (e[2] if e[0] == "mcall" else e[0]))
        raise Refuse("statement form %r" % s[0])

    def mutation(self, v, e, env):
        _, _, m, turbo, args = e
        x, ty = v["coq"], v["ty"]
        if m == "push" and ty == "String" and len(args) == 1:
            c, tc = self.ex(args[0], env, "char")
            if tc != "char":
                raise Refuse("String::push(<%s>)" % show(tc))
            return "%s ++ [%s]" % (x, strip(c))
        if m == "push_str" and ty == "String" and len(args) == 1:
            c, tc = self.ex(args[0], env, "str")
            if tc not in TEXT:
                raise Refuse("String::push_str(<%s>)" % show(tc))
            return "%s ++ %s" % (x, atom(c))
        if m in ("sort_by", "sort_by_key") and isinstance(ty, tuple) and ty[0] == "vec" and len(args) == 1 and args[0][0] == "closure":
            _, xs, body = args[0]
            n = 2 if m == "sort_by" else 1
            if len(xs) != n or any(a is None for a in xs) or len(set(xs)) != n:
                raise Refuse("`%s` with a closure of %d parameters" % (m, len(xs)))
            cenv = env
            for a in xs:
                cenv = self.declare(cenv, a, ty[1])
            b, tb = self.ex(body, cenv)
            names = " ".join(cenv[a]["coq"] for a in xs)
            if m == "sort_by":
                if tb != "Ordering":
                    raise Refuse("`sort_by` with a closure to %s" % show(tb))
                return "sort_by (fun %s => %s) %s" % (names, strip(b), x)
            return "sort_by_key %s (fun %s => %s) %s" % (atom(self.cmp_of(tb)), names, strip(b), x)
        raise Refuse("`.%s(..)` on a %s" % (m, show(ty)))

    def cmp_of(self, ty):
        """the `Ord::cmp` of a type"""
        if ty in TEXT:
            return "str_cmp"
        if ty in ("u16", "char"):
            return "N.compare"
        if ty == "i32":
            return "Z.compare"
        if ty == "usize":
            return "Nat.compare"
        if isinstance(ty, tuple) and ty[0] == "tuple" and len(ty[1]) == 2:
            return "pair_cmp %s %s" % (atom(self.cmp_of(ty[1][0])), atom(self.cmp_of(ty[1][1])))
        raise Refuse("ordering of a %s" % show(ty))

    def if_stmt(self, e, more, tail, env, done, loop, value_k):
        _, c, b1, b2 = e
        ct, cty = self.ex(c, env)
        if cty != "bool":
            raise Refuse("`if` on a %s" % show(cty))
        b2 = b2 if b2 is not None else ([], None)
        nested = lambda b: b[0] == [] and b[1] is not None and unparen(b[1])[0] == "if"
        if jumps(b1) or jumps(b2):
            # the rest of the block goes into the branches that fall through
            def branch(b):
                if ends_in_jump(b):
                    return self.seq(b[0], b[1], env, lambda env2: (_ for _ in ()).throw(Refuse("a branch that should jump falls through")), loop)
                return self.seq(b[0], b[1], env, lambda env2: self.seq(more, tail, self.leave(env, env2), done, loop, value_k), loop)
            t1, t2 = branch(b1), branch(b2)
            chain = nested(b2) and t2.startswith("if ")
            return "if %s then\n%s\nelse%s%s" % (strip(ct), ind(t1), " " if chain else "\n", t2 if chain else ind(t2))
        xs = []
        for b in (b1, b2):
            for v in self.block_assigned(b, env):
                if v not in xs:
                    xs.append(v)
        if not xs:
            raise Refuse("an `if` statement without effect")
        fin = lambda env2: self.tuple_of(xs, self.leave(env, env2))
        t1 = self.seq(b1[0], b1[1], env, fin, loop)
        t2 = self.seq(b2[0], b2[1], env, fin, loop)
        chain = nested(b2) and t2.startswith("if ")
        text = "if %s then\n%s\nelse%s%s" % (strip(ct), ind(t1), " " if chain else "\n", t2 if chain else ind(t2))
        return "let %s :=\n%s in\n%s" % (self.tuple_pat(xs, env), ind(text), self.seq(more, tail, env, done, loop, value_k))

    def leave(self, outer, inner):
        """the environment after a nested block: the outer names (a `let` inside the block does not escape).  A block
        that shadows an outer local it also assigns would make the Gallina text read the wrong binding: refused"""
        for n, v in inner.items():
            if n in outer and v is not outer[n]:
                raise Refuse("a nested block declares `%s`, which shadows an outer local" % n)
        return outer

    def for_stmt(self, e, env, again):
        _, pat, it, body = e
        itx = unparen(it)
        if itx[0] == "mcall" and itx[2] in ("iter", "into_iter") and not itx[4]:
            lt, lty = self.ex(itx[1], env)
            if lty == "CRef":
                lt, lty = self.ex(itx, env)
        else:
            lt, lty = self.ex(itx, env)
        if not (isinstance(lty, tuple) and lty[0] in ("vec", "iter")):
            raise Refuse("`for` over a %s" % show(lty))
        xs = self.block_assigned(body, env)
        if not xs:
            raise Refuse("a `for` loop without effect")
        ptxt, benv = self.bind_pattern(pat, lty[1], env)
        for n in self.pat_names(pat):
            if n in env:
                raise Refuse("the loop pattern binds `%s`, which shadows an outer local" % n)
        fin = lambda env2: self.tuple_of(xs, self.leave(benv, env2))
        if body[1] is not None and unparen(body[1])[0] != "if":
            raise Refuse("a loop body that ends in a value")
        bt = self.seq(body[0], body[1], benv, fin, fin)
        return "let %s :=\n  for_each %s (fun %s %s =>\n%s) %s in\n%s" % (
            self.tuple_pat(xs, env), atom(lt), self.tuple_pat(xs, env), ptxt, ind(bt, 4), self.tuple_of(xs, env), again(env))

    # ---- pure expressions: (text, type)
    def lit_int(self, e, want):
        ty = e[2] or (want if want in INTS else None)
        if ty not in INTS:
            raise Refuse("integer literal %s where no i32 / u16 / usize is expected" % e[1])
        if e[2] and want in INTS and e[2] != want:
            raise Refuse("literal %s%s where a %s is expected" % (e[1], e[2], want))
        n = int(e[1])
        if n >= {"i32": 2 ** 31, "u16": 2 ** 16, "usize": 100001}[ty]:
            raise Refuse("literal %s out of range for %s" % (e[1], ty))
        return "%d%s" % (n, INTS[ty][1]), ty

    def pair(self, l, r, env):
        if unparen(l)[0] == "int":
            b = self.ex(r, env)
            return self.ex(l, env, b[1]), b
        a = self.ex(l, env)
        return a, self.ex(r, env, a[1])

    def is_length(self, e, env):
        e = unparen(e)
        if e[0] == "mcall" and e[2] == "len" and not e[4]:
            return True
        if e[0] == "bin" and e[1] in ("+", "*"):
            return self.is_length(e[2], env) and unparen(e[3])[0] == "int"
        return False

    def ex(self, e, env, want=None):
        k = e[0]
        if k in ("paren", "ref", "deref"):
            return self.ex(e[1], env, want)
        if k == "int":
            return self.lit_int(e, want)
        if k == "char":
            return "%d%%N" % e[1], "char"
        if k == "strlit":
            return "[%s]" % "; ".join("%d%%N" % c for c in unescape(e[1])), "str"
        if k == "bool":
            return e[1], "bool"
        if k == "var":
            if e[1] == "self" and self.sig["selfkind"] is not None:
                return "self", {COMP: "CComp", CVEC: "CVecT", CMAP: "CMapT", CREF: "CRef"}[self.selfty]
            if e[1] in env:
                return env[e[1]]["coq"], env[e[1]]["ty"]
            raise Refuse("unknown name `%s`" % e[1])
        if k == "tuple":
            ws = want[1] if isinstance(want, tuple) and want[0] == "tuple" and len(want[1]) == len(e[1]) else [None] * len(e[1])
            parts = [self.ex(x, env, w) for x, w in zip(e[1], ws)]
            return "(%s)" % ", ".join(strip(t) for t, _ in parts), ("tuple", [ty for _, ty in parts])
        if k == "tfield":
            a, ta = self.ex(e[1], env)
            if not (isinstance(ta, tuple) and ta[0] == "tuple" and len(ta[1]) == 2 and e[2] < 2):
                raise Refuse("`.%d` on a %s" % (e[2], show(ta)))
            return "(%s %s)" % (("fst", "snd")[e[2]], atom(a)), ta[1][e[2]]
        if k == "field":
            inner = unparen(e[1])
            if e[2] == "symbol" and inner[0] == "field" and inner[2] == "element":
                a, ta = self.ex(inner[1], env)
                if ta == "Spec":
                    return "(spec_symbol %s)" % atom(a), "String"
            a, ta = self.ex(e[1], env)
            if ta == "Spec" and e[2] == "isotope":
                return "(spec_isotope %s)" % atom(a), "u16"
            raise Refuse("field `.%s` of a %s" % (e[2], show(ta)))
        if k == "index":
            a, ta = self.ex(e[1], env)
            s, ts = self.ex(e[2], env)
            if ta == "CRef" and ts in TEXT:
                if not self.world.dispatch_ok.get("index"):
                    raise Refuse("`Index<&str> for %s` is not the dispatch to the Vec / Map `index`" % CREF)
                return "(cref_index_str %s %s %s)" % (PRE, atom(a), atom(s)), "i32"
            raise Refuse("indexing a %s by a %s" % (show(ta), show(ts)))
        if k == "not":
            t, ty = self.ex(e[1], env)
            if ty != "bool":
                raise Refuse("`!` on a %s" % show(ty))
            return "(negb %s)" % atom(t), "bool"
        if k == "neg":
            raise Refuse("unary minus")
        if k == "logic":
            a, ta = self.ex(e[2], env)
            b, tb = self.ex(e[3], env)
            if ta != "bool" or tb != "bool":
                raise Refuse("`%s` on %s and %s" % (e[1], show(ta), show(tb)))
            return "(%s %s %s)" % ("orb" if e[1] == "||" else "andb", atom(a), atom(b)), "bool"
        if k == "bin":
            (a, ta), (b, tb) = self.pair(e[2], e[3], env)
            if ta == tb == "usize" and e[1] in ("+", "*") and unparen(e[3])[0] == "int" and self.is_length(e[2], env) \
                    and (e[1] == "+" or int(unparen(e[3])[1]) <= 8):
                return "(Nat.%s %s %s)" % ("add" if e[1] == "+" else "mul", atom(a), atom(b)), "usize"
            raise Refuse("arithmetic `<%s> %s <%s>` (only <a length> + <literal>, <a length> * <literal <= 8>)" % (show(ta), e[1], show(tb)))
        if k == "cmp":
            if unparen(e[2])[0] == "int" and unparen(e[3])[0] == "int":
                raise Refuse("comparison of two literals")
            (a, ta), (b, tb) = self.pair(e[2], e[3], env)
            a, b = atom(a), atom(b)
            op = e[1]
            mod = {"char": "N", "u16": "N", "i32": "Z", "usize": "Nat"}
            if op in ("==", "!="):
                if ta in TEXT and tb in TEXT:
                    t = "(str_eqb %s %s)" % (a, b)
                elif ta == tb and ta in mod:
                    t = "(%s.eqb %s %s)" % (mod[ta], a, b)
                elif ta == tb == "bool":
                    t = "(Bool.eqb %s %s)" % (a, b)
                else:
                    raise Refuse("`%s` on %s and %s" % (op, show(ta), show(tb)))
                return (t if op == "==" else "(negb %s)" % t), "bool"
            if ta == tb and ta in mod:
                m = mod[ta]
                return {"<": "(%s.ltb %s %s)" % (m, a, b), "<=": "(%s.leb %s %s)" % (m, a, b),
                        ">": "(%s.ltb %s %s)" % (m, b, a), ">=": "(%s.leb %s %s)" % (m, b, a)}[op], "bool"
            raise Refuse("`%s` on %s and %s" % (op, show(ta), show(tb)))
        if k == "call":
            return self.call(e, env, want)
        if k == "mcall":
            return self.mcall(e, env, want)
        if k == "format":
            return "(%s)" % self.format(e[1], e[2], env), "String"
        if k == "write":
            ft, fty = self.ex(e[1], env)
            if fty != "Fmt":
                raise Refuse("write! to a %s" % show(fty))
            return "(%s ++ (%s))" % (atom(ft), self.format(e[2], e[3], env)), "FmtResult"
        if k == "if":
            _, c, b1, b2 = e
            if b2 is None or b1[0] or b2[0] or b1[1] is None or b2[1] is None:
                raise Refuse("an `if` with statements in its branches inside an expression")
            ct, cty = self.ex(c, env)
            t1, ty1 = self.ex(b1[1], env, want)
            t2, ty2 = self.ex(b2[1], env, want or ty1)
            if cty != "bool" or not same(ty1, ty2):
                raise Refuse("`if` on a %s with branches %s / %s" % (show(cty), show(ty1), show(ty2)))
            return "(if %s then %s else %s)" % (strip(ct), strip(t1), strip(t2)), ty1
        if k == "match":
            return self.match_(e, env, want)
        if k == "blockexpr":
            if e[1][0] or e[1][1] is None:
                raise Refuse("a block with statements inside an expression")
            return self.ex(e[1][1], env, want)
        if k == "closure":
            raise Refuse("a closure that is not the argument of `sort_by` / `sort_by_key`")
        if k == "path":
            raise Refuse("path `%s`" % "::".join(e[1]))
        raise Refuse("expression form %r" % k)

    def match_(self, e, env, want):
        _, scrut, arms = e
        st, sty = self.ex(scrut, env)
        if sty not in ("CComp", "CRef"):
            raise Refuse("`match` on a %s" % show(sty))
        owner = COMP if sty == "CComp" else CREF
        ctor = {"Vec": "CVec" if sty == "CComp" else "RVec", "Map": "CMap" if sty == "CComp" else "RMap"}
        payload = {"Vec": "CVecT", "Map": "CMapT"}
        out, seen, rty = [], [], None
        for pat, body in arms:
            if pat[0] != "ppath" or len(pat[1]) != 2 or {"Self": self.selfty}.get(pat[1][0], pat[1][0]) != owner \
                    or pat[1][1] not in ctor or pat[2] is None or len(pat[2]) != 1 or pat[2][0][0] not in ("pvar", "pwild"):
                raise Refuse("match arm pattern on a %s" % show(sty))
            v = pat[1][1]
            if v in seen:
                raise Refuse("two arms for %s::%s" % (owner, v))
            seen.append(v)
            ptxt, aenv = self.bind_pattern(pat[2][0], payload[v], env)
            t, ty = self.ex(body, aenv, want or rty)
            if rty is not None and not same(rty, ty):
                raise Refuse("match arms of type %s and %s" % (show(rty), show(ty)))
            rty = ty
            out.append("| %s %s => %s" % (ctor[v], ptxt, strip(t)))
        if sorted(seen) != ["Map", "Vec"]:
            raise Refuse("`match` on a %s without an arm for each of Vec / Map" % show(sty))
        return "match %s with %s end" % (strip(st), " ".join(out)), rty

    def format(self, fmt, args, env):
        pieces, lit, i, na = [], [], 0, 0
        cps = unescape(fmt)
        flush = lambda: pieces.append("[%s]" % "; ".join("%d%%N" % x for x in lit)) if lit else None
        while i < len(cps):
            c = cps[i]
            if c in (123, 125):
                if i + 1 < len(cps) and cps[i + 1] == c:
                    lit.append(c); i += 2
                    continue
                if c == 125 or i + 1 >= len(cps) or cps[i + 1] != 125:
                    raise Refuse("format string %r (only `{}` placeholders)" % fmt)
                flush(); lit = []
                if na >= len(args):
                    raise Refuse("format string %r has more placeholders than arguments" % fmt)
                t, ty = self.ex(args[na], env)
                na += 1
                pieces.append(self.display(t, ty))
                i += 2
            else:
                lit.append(c); i += 1
        flush()
        if na != len(args):
            raise Refuse("format string %r has fewer placeholders than arguments" % fmt)
        return " ++ ".join(pieces) if pieces else "[]"

    def display(self, t, ty):
        if ty in TEXT:
            return atom(t)
        if ty == "i32":
            return "show_Z %s" % atom(t)
        if ty == "u16":
            return "show_N %s" % atom(t)
        if ty == "usize":
            return "show_N (N.of_nat %s)" % atom(t)
        if ty == "char":
            return "[%s]" % strip(t)
        raise Refuse("Display of a %s" % show(ty))

    def need(self, name):
        if name == self.gname:
            raise Refuse("recursive call")
        sig = self.world.sig(name)
        if name not in self.calls:
            self.calls.append(name)
        return sig

    def into_fn(self, ty):
        """the `From<&T> for ChemicalCompositionRef` instance of a type, as Gallina text"""
        if ty == "CRef":
            return "(fun r : cref => r)"
        if isinstance(ty, tuple) and ty[0] == "generic":
            return "into_ref"
        name = {"CComp": "from_comp", "CVecT": "from_vec", "CMapT": "from_map"}.get(ty)
        if name is None:
            raise Refuse("no `Into<%s>` for a %s" % (CREF, show(ty)))
        self.need(name)
        return "(%s_gen %s)" % (name, PRE)

    def call(self, e, env, want):
        path, args = e[1], e[2]
        owner = {"Self": self.selfty}.get(path[0], path[0])
        if path == ["String", "with_capacity"] and len(args) == 1:
            n, tn = self.ex(args[0], env, "usize")
            if tn != "usize":
                raise Refuse("String::with_capacity(<%s>)" % show(tn))
            return "(string_with_capacity %s)" % atom(n), "String"
        if path == ["String", "new"] and not args:
            return "[]", "String"
        if path[-1] == "to_formula" and path[:-1] in ([], ["formula"], ["crate", "formula"]) and len(args) == 1:
            sig = self.need("to_formula")
            a, ta = self.ex(args[0], env)
            return "(to_formula_gen %s %s %s)" % (PRE, self.into_fn(ta), atom(a)), "String"
        if len(path) == 2 and owner == CREF and path[1] in ("Vec", "Map") and len(args) == 1:
            a, ta = self.ex(args[0], env)
            if ta != {"Vec": "CVecT", "Map": "CMapT"}[path[1]]:
                raise Refuse("%s::%s(<%s>)" % (CREF, path[1], show(ta)))
            return "(%s %s)" % ({"Vec": "RVec", "Map": "RMap"}[path[1]], atom(a)), "CRef"
        raise Refuse("call of `%s`" % "::".join(path))

    def mcall(self, e, env, want):
        _, recv, m, turbo, args = e
        a, ta = self.ex(recv, env)
        a = atom(a)
        n = len(args)
        if turbo is not None:
            raise Refuse("turbofish on `.%s`" % m)
        if m == "to_string" and n == 0:
            return "(%s)" % self.display(a, ta), "String"
        if m == "into" and n == 0:
            if want != "CRef":
                raise Refuse("`.into()` where the expected type is %s" % show(want))
            f = self.into_fn(ta)
            return ("(%s %s)" % (f, a)) if f != "(fun r : cref => r)" else a, "CRef"
        if m == "cmp" and n == 1:
            b, tb = self.ex(args[0], env, ta)
            if not same(ta, tb):
                raise Refuse("`cmp` of a %s with a %s" % (show(ta), show(tb)))
            return "(%s %s %s)" % (self.cmp_of(ta), a, atom(b)), "Ordering"
        if ta == "Ordering":
            if m == "then" and n == 1:
                b, tb = self.ex(args[0], env)
                if tb != "Ordering":
                    raise Refuse("then(<%s>)" % show(tb))
                return "(ord_then %s %s)" % (a, atom(b)), "Ordering"
            if m == "reverse" and n == 0:
                return "(ord_reverse %s)" % a, "Ordering"
        if ta == "CRef" and n == 0:
            if m == "len":
                if not self.world.dispatch_ok.get("len"):
                    raise Refuse("`%s::len` is not the dispatch to the Vec / Map `len`" % CREF)
                return "(cref_len %s)" % a, "usize"
            if m == "iter":
                if not self.world.dispatch_ok.get("iter"):
                    raise Refuse("`%s::iter` is not the dispatch to the Vec / Map `iter`" % CREF)
                return "(cref_iter %s)" % a, ("iter", ("tuple", ["Spec", "i32"]))
        if isinstance(ta, tuple) and ta[0] == "iter" and m == "collect" and n == 0:
            if not (isinstance(want, tuple) and want[0] == "vec" and same(want[1], ta[1])):
                raise Refuse("`collect()` of %s where the expected type is %s" % (show(ta), show(want)))
            return a, ("vec", ta[1])
        if isinstance(ta, tuple) and ta[0] == "vec" and n == 0:
            if m == "len":
                return "(List.length %s)" % a, "usize"
            if m in ("iter", "into_iter"):
                return a, ("iter", ta[1])
            if m == "is_empty":
                return "(Nat.eqb (List.length %s) 0%%nat)" % a, "bool"
        if ta in TEXT and n == 0:
            if m == "len":
                return "(blen %s)" % a, "usize"
            if m == "is_empty":
                return "(Nat.eqb (blen %s) 0%%nat)" % a, "bool"
            if m in ("clone", "as_str", "to_owned", "as_ref", "borrow"):
                return a, "String"
        if ta in ("i32", "u16", "usize", "char", "bool") and m == "clone" and n == 0:
            return a, ta
        if ta == "Fmt" and m == "write_str" and n == 1:
            s, ts = self.ex(args[0], env)
            if ts not in TEXT:
                raise Refuse("write_str(<%s>)" % show(ts))
            return "(%s ++ %s)" % (a, atom(s)), "FmtResult"
        raise Refuse("method `.%s(..)` on a %s" % (m, show(ta)))

    # ---- the definition
    def translate(self):
        env, binders = {}, []
        if self.generic is not None:
            binders.append("{C : Type} (into_ref : C -> cref)")
        if self.sig["selfkind"] is not None:
            sty = {COMP: "CComp", CVEC: "CVecT", CMAP: "CMapT", CREF: "CRef"}[self.selfty]
            binders.append("(self : %s)" % coq_ty(sty))
        for a, ty in self.params:
            env = self.declare(env, a, ty)
            binders.append("(%s : %s)" % (env[a]["coq"], coq_ty(ty)))

        def value(tail, env2):
            t, ty = self.ex(tail, env2, self.rty)
            if not same(ty, self.rty):
                raise Refuse("returns a %s, declared %s" % (show(ty), show(self.rty)))
            return strip(t)
        text = self.seq(self.body[0], self.body[1], env, None, None, value)
        return "Definition %s_gen (PERIODIC_TABLE : ptable) (uni_alphabetic : char -> bool) %s : %s :=\n%s." % (
            self.gname, " ".join(binders), coq_ty(self.rty), ind(text))


# ------------------------------------------------------------------ the functions of the files, translated on demand
def dispatch_shape(head, body, method, wrap):
    """is a method of ChemicalCompositionRef `match self { <..>::Vec(x) => [Iter::Vec(] x.m(params) [)], <..>::Map(y) => .. }`"""
    try:
        sig, ast = parse_fn(head, body)
    except Refuse:
        return False
    if ast[0] or ast[1] is None or sig["selfkind"] != "ref":
        return False
    m = unparen(ast[1])
    if m[0] != "match" or unparen(m[1]) != ("var", "self") or len(m[2]) != 2:
        return False
    seen = set()
    for pat, arm in m[2]:
        if pat[0] != "ppath" or len(pat[1]) != 2 or pat[1][0] not in ("Self", CREF) or pat[1][1] not in ("Vec", "Map") \
                or not pat[2] or len(pat[2]) != 1 or pat[2][0][0] != "pvar":
            return False
        x = pat[2][0][2]
        arm = unparen(arm)
        if arm[0] == "blockexpr" and not arm[1][0] and arm[1][1] is not None:
            arm = unparen(arm[1][1])
        if wrap:
            if arm[0] != "call" or arm[1] != ["Iter", pat[1][1]] or len(arm[2]) != 1:
                return False
            arm = unparen(arm[2][0])
        if arm[0] != "mcall" or unparen(arm[1]) != ("var", x) or arm[2] != method or arm[3] is not None \
                or [unparen(a) for a in arm[4]] != [("var", p) for p, _ in sig["params"]]:
            return False
        seen.add(pat[1][1])
    return seen == {"Vec", "Map"}


def file_structure():
    """-> {generated name: (header tokens, body tokens, self type)}, which dispatchers of ChemicalCompositionRef are as expected"""
    fns, dispatch_ok = {}, {}
    enums, structs = {}, {}

    def put(name, h, b, ty, rel):
        if name in fns:
            raise Structure("%s: `%s` defined twice" % (rel, name))
        fns[name] = (h, b, ty)

    def scan(rel, want_free, classify):
        for attrs, head, body in load_items(rel):
            head = drop_vis(head)
            hv = [v for _, v in head]
            if hv[:1] == ["enum"] and body is not None:
                enums[hv[1]] = enum_variants(body)
            elif hv[:1] == ["struct"] and body is not None:
                structs[hv[1]] = fields_of(body)
            elif hv[:1] == ["fn"] and body is not None and hv[1] in want_free:
                put(hv[1], head, body, None, rel)
            elif hv[:1] == ["impl"] and body is not None:
                tr, targs, ty = impl_header(head)
                targs = [v for v in targs if v not in ("&", "<", ">")]
                for a2, h2, b2 in split_items(body, "%s: impl %s" % (rel, ty)):
                    h2 = drop_vis(h2)
                    h2v = [v for _, v in h2]
                    if h2v[:1] == ["fn"] and b2 is not None:
                        classify(tr, targs, ty, h2v[1], h2, b2, rel)

    def classify_abs(tr, targs, ty, fn, h, b, rel):
        if tr == "Display" and ty == COMP and fn == "fmt":
            put("display_comp", h, b, ty, rel)
        elif tr == "From" and ty == CREF and fn == "from" and targs in ([COMP], [CVEC], [CMAP]):
            put({COMP: "from_comp", CVEC: "from_vec", CMAP: "from_map"}[targs[0]], h, b, ty, rel)
        elif ty == CREF and tr == "Index" and targs == ["str"] and fn == "index":
            dispatch_ok["index"] = dispatch_shape(h, b, "index", False)
        elif ty == CREF and tr is None and fn == "len":
            dispatch_ok["len"] = dispatch_shape(h, b, "len", False)
        elif ty == CREF and tr is None and fn == "iter":
            dispatch_ok["iter"] = dispatch_shape(h, b, "iter", True)

    def classify_disp(want_ty, name):
        def f(tr, targs, ty, fn, h, b, rel):
            if tr == "Display" and ty == want_ty and fn == "fmt":
                put(name, h, b, ty, rel)
        return f

    scan("src/formula.rs", ["to_formula"], lambda *a: None)
    scan("src/abstract_composition.rs", [], classify_abs)
    scan("src/composition_list.rs", [], classify_disp(CVEC, "display_vec"))
    scan("src/composition_map.rs", [], classify_disp(CMAP, "display_map"))
    scan("src/element_specification.rs", [], lambda *a: None)
    scan("src/element.rs", [], lambda *a: None)
    if structs.get(SPEC) != {"element": "& Element", "isotope": "u16"}:
        raise Structure("struct %s has fields %r" % (SPEC, structs.get(SPEC)))
    if (structs.get("Element") or {}).get("symbol") != "String":
        raise Structure("struct Element: symbol is %r" % (structs.get("Element") or {}).get("symbol"))
    for en, amp in ((COMP, ""), (CREF, "& ")):
        got = [(n, " ".join(p)) for n, p in enums.get(en) or []]
        if got != [("Vec", "( %s%s < > )" % (amp, CVEC)), ("Map", "( %s%s < > )" % (amp, CMAP))]:
            raise Structure("enum %s has variants %r" % (en, got))
    return fns, dispatch_ok


class World:
    def __init__(self, fns, dispatch_ok):
        self.src, self.dispatch_ok = fns, dispatch_ok
        self.done, self.skipped, self.emitted, self.active = {}, {}, [], []

    def attempt(self, name):
        if name in self.done or name in self.skipped:
            return
        if name not in self.src:
            self.skipped[name] = "no such function in the source"
            return
        if name in self.active:
            raise Refuse("recursive call cycle through `%s`" % name)
        self.active.append(name)
        try:
            head, body, selfty = self.src[name]
            sig, ast = parse_fn(head, body)
            f = Fn(name, selfty, sig, ast, self)
            text = f.translate()
            self.done[name] = {"text": text, "calls": f.calls}
            self.emitted.append(name)          # callees were appended while translating the body: callee first
        except Refuse as e:
            self.skipped[name] = str(e)
        finally:
            self.active.pop()

    def sig(self, name):
        self.attempt(name)
        if name in self.skipped:
            raise Refuse("uses `%s`, which is skipped (%s)" % (name, self.skipped[name]))
        return self.done[name]


def translate():
    world = World(*file_structure())
    for name in WANTED:
        world.attempt(name)
    out = ["(* GENERATED by tools/gen_render.py from src/formula.rs (to_formula), src/abstract_composition.rs, src/composition_list.rs,",
           "   src/composition_map.rs (the Display impls and the From impls they go through) -- do not edit *)",
           "From Coq Require Import List ZArith NArith Bool Arith.",
           "From CE Require Import Str TableTypes TableModel Comp ESpec ImpE ImpR.",
           "Import ListNotations.", "Local Open Scope list_scope.", ""]
    for n in world.emitted:
        out.append(world.done[n]["text"])
        out.append("")
    q = lambda names: "[" + "; ".join('"%s"' % n for n in names) + "]%string"
    out.append("(* what the translator did with the functions it was asked for *)")
    out.append("From Coq Require Import String.")
    out.append("Definition render_gen_translated : list string := %s." % q([n for n in WANTED if n in world.done]))
    out.append("Definition render_gen_skipped : list string := %s." % q([n for n in WANTED if n in world.skipped]))
    return "\n".join(out) + "\n", world


# ------------------------------------------------------------------ which ties of the tie file still hold
def check_ties(world, wanted, tie, deps, label):
    """compile the tie file block by block: common text + the block of one function + the blocks it needs"""
    text = open(tie, encoding="utf-8").read()
    blocks, common, pos = {}, [], 0
    for m in re.finditer(r"\(\* BEGIN TIE (\w+)(?: \(needs: ([\w ]*)\))? \*\)\n(.*?)\(\* END TIE \1 \*\)\n", text, re.S):
        common.append(text[pos:m.start()])
        common.append("@@%s@@" % m.group(1))
        blocks[m.group(1)] = ((m.group(2) or "").split(), m.group(3))
        pos = m.end()
    common.append(text[pos:])

    def closure(n, acc):
        for d in blocks[n][0]:
            if d in blocks and d not in acc:
                closure(d, acc)
        if n not in acc:
            acc.append(n)
        return acc
    run = lambda args, cwd: subprocess.run(args, cwd=cwd, stdout=subprocess.PIPE, stderr=subprocess.STDOUT, universal_newlines=True)
    for f in deps:
        r = run(["coqc", "-Q", ".", "CE", "-w", "-notation-overridden", f], COQ)
        if r.returncode != 0:
            print("tie check: %s does not compile\n%s" % (f, r.stdout))
            return 1
    bad = 0
    with tempfile.TemporaryDirectory() as tmp:
        for n in wanted:
            if n in world.skipped:
                print("tie %s: SKIPPED (%s)" % (n, world.skipped[n]))
                bad += 1
                continue
            if n not in blocks:
                print("tie %s: no block in %s" % (n, os.path.basename(tie)))
                bad += 1
                continue
            keep = closure(n, [])
            missing = [d for d in keep if d in world.skipped]
            body = "".join(c if not c.startswith("@@") else (blocks[c[2:-2]][1] if c[2:-2] in keep else "") for c in common)
            path = os.path.join(tmp, "%s_%s.v" % (label, n))
            open(path, "w").write(body)
            r = run(["coqc", "-Q", COQ, "CE", "-w", "-notation-overridden", path], tmp)
            if r.returncode == 0:
                print("tie %s: OK" % n)
            else:
                bad += 1
                msg = [l for l in r.stdout.splitlines() if l.strip()]
                print("tie %s: FAILED (%s%s)" % (n, "needs skipped %s; " % ", ".join(missing) if missing else "", " | ".join(msg[-3:])[:300]))
    return 1 if bad else 0


def main():
    try:
        text, world = translate()
    except (Structure, OSError) as e:
        print("gen_render: refused: %s" % e)
        return 3
    old = open(OUT).read() if os.path.exists(OUT) else None
    if old != text:
        open(OUT, "w").write(text)
    for n in WANTED:
        if n in world.skipped:
            print("skipped %s: %s" % (n, world.skipped[n]))
    print("gen_render: %d functions translated (%s), %d skipped%s" % (
        len(world.emitted), ", ".join(world.emitted), len([n for n in WANTED if n in world.skipped]),
        "" if old == text else " [rewritten]"))
    if "--ties" in sys.argv[1:]:
        return check_ties(world, WANTED, TIE, ("model/ImpR.v", "gen/RenderGen.v"), "RenderTie")
    return 0


if __name__ == "__main__":
    sys.exit(main())
