#!/usr/bin/env python3
"""robustness demonstration for tools/gen_element.py: edit a scratch copy of the crate, regenerate coq/gen/ElementGen.v
from it, run the per-function ties, and compare with what each edit should do:
  a*  semantics-changing edits: the tie of the edited function must be FAILED (ties that need it may fail with it)
  b*  harmless edits inside the subset: every tie must stay OK (SKIPPED is tolerated, FAILED is not)
  d*  broken structure: the translator must exit 3
Usage: python3 tools/mutate_element.py [case ...]     (ROOT = the directory above tools/; the pristine output is restored)"""
import os, shutil, subprocess, sys
ROOT = os.path.dirname(os.path.dirname(os.path.abspath(__file__)))
SRC, MUT = ROOT + "/repo_src", ROOT + "/mut_src"
E, H, A = "src/element.rs", "src/helper.rs", "src/abstract_composition.rs"

CALC_MIN_TAIL = """        self.isotopes
            .values()
            .map(|iso| iso.neutron_shift)
            .min()
            .unwrap_or(0)"""
CALC_MAX_TAIL = CALC_MIN_TAIL.replace(".min()", ".max()")
INDEX_BODY = """        self.max_neutron_shift = 0;
        self.min_neutron_shift = 0;
        self.max_neutron_shift = self.calc_max_neutron_shift();
        self.min_neutron_shift = self.calc_min_neutron_shift();"""
ADD_FN = """    pub fn add(&mut self, element: Element) {
        self.elements.insert(element.symbol.clone(), element);
    }
"""
GET_FN = """    pub fn get(&self, symbol: &str) -> Option<&Element> {
        self.elements.get(symbol)
    }
"""
ISO_EQ = """        if (self.mass - other.mass).abs() > 1e-3
            || (self.abundance - other.abundance).abs() > 1e-3
            || self.neutrons != other.neutrons
            || self.neutron_shift != other.neutron_shift
        {
            return false;
        }
        true"""

# name: (expected FAILED ties (a) | None (b) | "structure", [(file, old, new)])
CASES = {
 # ---- (a) semantics-changing
 "a01_calc_min_takes_max": (["calc_min_neutron_shift"], [(E, CALC_MIN_TAIL, CALC_MAX_TAIL + "\n        // was min")]),
 "a02_calc_max_eq_zero": (["calc_max_neutron_shift"], [(E, "if self.max_neutron_shift != 0 {", "if self.max_neutron_shift == 0 {")]),
 "a03_index_zero_last": (["index_isotopes"], [(E, INDEX_BODY, """        self.max_neutron_shift = self.calc_max_neutron_shift();
        self.min_neutron_shift = self.calc_min_neutron_shift();
        self.max_neutron_shift = 0;
        self.min_neutron_shift = 0;""")]),
 "a04_index_max_not_zeroed": (["index_isotopes"], [(E, INDEX_BODY, """        self.min_neutron_shift = 0;
        self.max_neutron_shift = self.calc_max_neutron_shift();
        self.min_neutron_shift = self.calc_min_neutron_shift();""")]),
 "a05_index_min_zeroed_after": (["index_isotopes"], [(E, INDEX_BODY, """        self.max_neutron_shift = 0;
        self.max_neutron_shift = self.calc_max_neutron_shift();
        self.min_neutron_shift = self.calc_min_neutron_shift();
        self.min_neutron_shift = 0;""")]),
 "a06_by_shift_minus": (["isotope_by_shift"], [(E, "self.most_abundant_isotope as i16 + shift as i16", "self.most_abundant_isotope as i16 - shift as i16")]),
 "a07_by_shift_widened": (["isotope_by_shift"], [(E, "self.most_abundant_isotope as i16 + shift as i16", "self.most_abundant_isotope as i32 + shift as i32")]),
 "a08_add_other_key": (["pt_add"], [(E, "self.elements.insert(element.symbol.clone(), element);", 'self.elements.insert(String::from("X"), element);')]),
 "a09_iso_eq_tolerance": (["isotope_eq"], [(E, "(self.mass - other.mass).abs() > 1e-3", "(self.mass - other.mass).abs() > 1e-2")]),
 "a10_iso_eq_and": (["isotope_eq"], [(E, "|| self.neutrons != other.neutrons", "&& self.neutrons != other.neutrons")]),
 "a11_parse_formula_global": (["ce_parse_formula"], [(H, "ChemicalComposition::parse_with(string, &self.periodic_table)", "ChemicalComposition::parse_with(string, &PERIODIC_TABLE)")]),
 "a12_parse_element_global": (["ce_parse_element"], [(H, "ElementSpecification::parse_with(string, &self.periodic_table)", "ElementSpecification::parse_with(string, &PERIODIC_TABLE)")]),
 "a13_new_own_table": (["ce_new"], [(H, 'ElementSpecification::parse_with("C", &PERIODIC_TABLE)', 'ElementSpecification::parse_with("C", &periodic_table)')]),
 "a14_unwrap_or_one": (["calc_max_neutron_shift"], [(E, CALC_MAX_TAIL, CALC_MAX_TAIL.replace("unwrap_or(0)", "unwrap_or(1)"))]),
 "a15_mass_is_abundance": (["mass"], [(E, "self.isotopes[&self.most_abundant_isotope].mass", "self.isotopes[&self.most_abundant_isotope].abundance")]),
 "a16_cmp_abundance": (["isotope_partial_cmp"], [(E, "self.mass.partial_cmp(&other.mass)", "self.abundance.partial_cmp(&other.abundance)")]),
 "a17_get_constant": (["pt_get"], [(E, "self.elements.get(symbol)", 'self.elements.get("H")')]),
 "a18_no_populate": (["ce_make_periodic_table"], [(H, "        populate_periodic_table(&mut periodic_table);\n", "")]),
 "a19_cc_parse_with_global": (["cc_parse_with"], [(A, """        let mut parser = FormulaParser::default();
        parser.parse_formula_with_table_generic(string, periodic_table)""", """        let mut parser = FormulaParser::default();
        parser.parse_formula_with_table_generic(string, &PERIODIC_TABLE)""")]),
 "a20_calc_max_maps_neutrons": (["calc_max_neutron_shift"], [(E, CALC_MAX_TAIL, CALC_MAX_TAIL.replace("iso.neutron_shift", "iso.neutrons as i8"))]),
 "a21_index_get_or_first": (["pt_index"], [(E, "&self.elements[i]", '&self.elements["H"]')]),
 "a22_new_not_empty": (["pt_new"], [(E, """        PeriodicTable {
            ..Default::default()
        }""", """        let mut t = PeriodicTable {
            ..Default::default()
        };
        t.add(Element::default());
        t""")]),
 # ---- (b) harmless, inside the subset
 "b01_rename_closure_param": (None, [(E, CALC_MIN_TAIL, CALC_MIN_TAIL.replace("|iso| iso.", "|x| x.")),
                                     (E, CALC_MAX_TAIL, CALC_MAX_TAIL.replace("|iso| iso.", "|entry| entry."))]),
 "b02_rename_local": (None, [(E, """        let num = self.most_abundant_isotope as i16 + shift as i16;
        self.isotopes.get(&(num as u16))""", """        let n16 = self.most_abundant_isotope as i16 + shift as i16;
        let key = n16 as u16;
        self.isotopes.get(&key)""")]),
 "b03_explicit_return": (None, [(E, CALC_MIN_TAIL, "        return " + CALC_MIN_TAIL.strip() + ";")]),
 "b04_match_for_unwrap_or": (None, [(E, CALC_MAX_TAIL, """        match self.isotopes.values().map(|iso| iso.neutron_shift).max() {
            Some(m) => m,
            None => 0,
        }""")]),
 "b05_reorder_impl_items": (None, [(E, ADD_FN + "\n" + GET_FN, GET_FN + "\n" + ADD_FN)]),
 "b06_index_get_unwrap": (None, [(E, "&self.elements[i]", "self.elements.get(i).unwrap()")]),
 "b07_iso_eq_negation": (None, [(E, ISO_EQ, """        !((self.mass - other.mass).abs() > 1e-3
            || (self.abundance - other.abundance).abs() > 1e-3
            || self.neutrons != other.neutrons
            || self.neutron_shift != other.neutron_shift)""")]),
 "b08_index_zero_swapped": (None, [(E, INDEX_BODY, """        self.min_neutron_shift = 0;
        self.max_neutron_shift = 0;
        self.max_neutron_shift = self.calc_max_neutron_shift();
        self.min_neutron_shift = self.calc_min_neutron_shift();""")]),
 "b09_index_interleaved": (None, [(E, INDEX_BODY, """        self.max_neutron_shift = 0;
        self.max_neutron_shift = self.calc_max_neutron_shift();
        self.min_neutron_shift = 0;
        self.min_neutron_shift = self.calc_min_neutron_shift();""")]),
 "b10_new_returns_literal": (None, [(H, "        let ce = ChemicalElements {", "        ChemicalElements {"),
                                   (H, "        };\n        ce\n", "        }\n")]),
 "b11_if_else_value": (None, [(E, """        if self.max_neutron_shift != 0 {
            return self.max_neutron_shift;
        }
""" + CALC_MAX_TAIL, """        if self.max_neutron_shift != 0 {
            self.max_neutron_shift
        } else {
            let shifts = self.isotopes.values().map(|iso| iso.neutron_shift);
            shifts.max().unwrap_or(0)
        }""")]),
 "b12_iso_eq_reordered_operands": (None, [(E, ISO_EQ, """        if self.neutron_shift != other.neutron_shift
            || self.neutrons != other.neutrons
            || (self.abundance - other.abundance).abs() > 1e-3
            || (self.mass - other.mass).abs() > 1e-3
        {
            return false;
        }
        return true;""")]),
 "b13_outside_subset_loop": (None, [(E, CALC_MAX_TAIL, """        let mut best = 0;
        for iso in self.isotopes.values() {
            if iso.neutron_shift > best { best = iso.neutron_shift; }
        }
        best""")]),
 # ---- broken structure
 "d1_structure": ("structure", [(E, "    pub neutrons: u16,\n", "    pub neutrons: u32,\n")]),
}


def run(name):
    expect, edits = CASES[name]
    if os.path.exists(MUT):
        shutil.rmtree(MUT)
    shutil.copytree(SRC, MUT)
    for rel, old, new in edits:
        p = os.path.join(MUT, rel)
        s = open(p).read()
        assert s.count(old) == 1, (name, rel, s.count(old), old[:50])
        open(p, "w").write(s.replace(old, new))
    env = dict(os.environ, VERIF_REPO=MUT)
    r = subprocess.run([sys.executable, ROOT + "/tools/gen_element.py", "--ties"], env=env, stdout=subprocess.PIPE,
                       stderr=subprocess.STDOUT, universal_newlines=True)
    lines = r.stdout.splitlines()
    st = {}
    for l in lines:
        if l.startswith("tie "):
            n, rest = l[4:].split(":", 1)
            st[n] = rest.strip().split(" ")[0]
    failed = sorted(n for n, v in st.items() if v == "FAILED")
    skipped = sorted(n for n, v in st.items() if v == "SKIPPED")
    other = sorted(n for n, v in st.items() if v not in ("OK", "FAILED", "SKIPPED"))
    if expect == "structure":
        good = r.returncode == 3
        what = "exit %d %s" % (r.returncode, " ".join(l for l in lines if "refused" in l)[:120])
    elif expect is None:
        good = not failed and not other and r.returncode in (0, 1) and bool(st)
        what = "all %d OK" % len(st) if not skipped else "%d OK, SKIPPED: %s" % (len(st) - len(skipped), ", ".join(skipped))
        if failed:
            what = "FAILED: " + ", ".join(failed)
    else:
        good = all(x in failed for x in expect) and not other
        what = "FAILED: %s" % ", ".join(failed) if failed else "nothing failed"
        if skipped:
            what += "; SKIPPED: " + ", ".join(skipped)
    print("%-32s %-7s expected %-34s got %s" % (name, "pass" if good else "WRONG", "structure (exit 3)" if expect == "structure" else
          "all OK" if expect is None else "FAILED " + ",".join(expect), what))
    for l in lines:
        if l.startswith("skipped") or "Traceback" in l or l.startswith("tie check"):
            print("      " + l[:200])
    sys.stdout.flush()
    return good


names = sys.argv[1:] or list(CASES)
results = [run(n) for n in names]
shutil.rmtree(MUT, ignore_errors=True)
# restore: regenerate from the pristine source
subprocess.run([sys.executable, ROOT + "/tools/gen_element.py"], env=dict(os.environ, VERIF_REPO=SRC), stdout=subprocess.DEVNULL)
subprocess.run(["coqc", "-Q", ".", "CE", "-w", "-notation-overridden", "gen/ElementGen.v"], cwd=ROOT + "/coq")
print("mutate_element: %d of %d cases as expected" % (sum(results), len(results)))
sys.exit(0 if all(results) else 1)
