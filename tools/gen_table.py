#!/usr/bin/env python3
"""Translator: /repo/src/table.rs -> coq/gen/Table.v and /repo/data/nist_mass.json -> coq/gen/Nist.v.

The Rust file is tokenised (whitespace and comments are irrelevant) and parsed with a tiny
recursive-descent parser that accepts exactly the statement shapes the table is made of:

    let mut elt = Element { field: value, ... , ..Default::default() };
    elt.isotopes.insert(KEY, Isotope { field: value, ... });
    elt.index_isotopes();
    table.add(elt);

Anything else inside `populate_periodic_table` is refused (exit 3) -- the translator never guesses.
Decimal literals are carried as exact integers in units of 1e-6 (so no float is involved); a literal
with more than 6 fractional digits is refused. Output files are only rewritten when their content
changes, so `make` re-checks the theorems exactly when the source changed.
"""
import json
import re
import sys
import os

TOK = re.compile(r"""
    (?P<ws>\s+|//[^\n]*|/\*.*?\*/)
  | (?P<str>"(?:[^"\\]|\\.)*")
  | (?P<num>-?[0-9][0-9_]*(?:\.[0-9]+)?)
  | (?P<id>[A-Za-z_][A-Za-z0-9_]*)
  | (?P<dd>\.\.)
  | (?P<cc>::)
  | (?P<p>[{}()\[\];,.:=&|<>*!\-+])
""", re.X | re.S)


class Refuse(Exception):
    pass


def tokenize(src):
    out, pos = [], 0
    while pos < len(src):
        m = TOK.match(src, pos)
        if not m:
            raise Refuse("cannot tokenise at byte %d: %r" % (pos, src[pos:pos + 30]))
        pos = m.end()
        if m.lastgroup == "ws":
            continue
        out.append((m.lastgroup, m.group(0)))
    return out


class P:
    def __init__(self, toks):
        self.t, self.i = toks, 0

    def peek(self, k=0):
        return self.t[self.i + k][1] if self.i + k < len(self.t) else None

    def eat(self, *vals):
        for v in vals:
            if self.peek() != v:
                ctx = " ".join(x[1] for x in self.t[max(0, self.i - 6):self.i + 6])
                raise Refuse("expected %r, found %r near: %s" % (v, self.peek(), ctx))
            self.i += 1

    def kind(self):
        return self.t[self.i][0] if self.i < len(self.t) else None

    def take(self, kind):
        if self.kind() != kind:
            raise Refuse("expected a %s token, found %r" % (kind, self.peek()))
        v = self.t[self.i][1]
        self.i += 1
        return v


def micro(lit):
    """decimal literal -> integer in units of 1e-6, exact."""
    m = re.fullmatch(r"(-?)([0-9]+)(?:\.([0-9]+))?", lit.replace("_", ""))
    if not m:
        raise Refuse("bad decimal literal %r" % lit)
    frac = m.group(3) or ""
    if len(frac) > 6 and frac[6:].strip("0"):
        raise Refuse("literal %r has more than 6 fractional digits" % lit)
    frac = (frac + "000000")[:6]
    v = int(m.group(2)) * 10 ** 6 + int(frac)
    return -v if m.group(1) else v


def parse_struct_fields(p, allowed, allow_default):
    fields = {}
    p.eat("{")
    while p.peek() != "}":
        if p.peek() == "..":
            if not allow_default:
                raise Refuse("unexpected ..Default")
            p.eat("..", "Default", "::", "default", "(", ")")
            if p.peek() == ",":
                p.eat(",")
            continue
        name = p.take("id")
        if name not in allowed:
            raise Refuse("unknown field %r" % name)
        if name in fields:
            raise Refuse("duplicate field %r" % name)
        p.eat(":")
        if name == "symbol":
            p.eat("String", "::", "from", "(")
            s = p.take("str")
            p.eat(")")
            fields[name] = json.loads(s)
        else:
            fields[name] = p.take("num")
        if p.peek() == ",":
            p.eat(",")
    p.eat("}")
    return fields


def parse_table(src):
    toks = tokenize(src)
    # locate `fn populate_periodic_table ( table : & mut PeriodicTable ) {`
    idx = None
    for i, (k, v) in enumerate(toks):
        if v == "populate_periodic_table" and i > 0 and toks[i - 1][1] == "fn":
            idx = i
            break
    if idx is None:
        raise Refuse("fn populate_periodic_table not found")
    p = P(toks)
    p.i = idx + 1
    p.eat("(", "table", ":", "&", "mut", "PeriodicTable", ")", "{")
    elements = []
    cur = None
    while p.peek() != "}":
        if p.peek() == "let":
            if cur is not None:
                raise Refuse("element %r never added to the table" % cur["symbol"])
            p.eat("let", "mut", "elt", "=", "Element")
            f = parse_struct_fields(p, {"symbol", "most_abundant_isotope", "most_abundant_mass",
                                        "element_number", "min_neutron_shift", "max_neutron_shift"}, True)
            p.eat(";")
            if "symbol" not in f:
                raise Refuse("element without symbol")
            cur = {"symbol": f["symbol"], "mai": int(f.get("most_abundant_isotope", "0")),
                   "mam": micro(f.get("most_abundant_mass", "0")), "number": int(f.get("element_number", "0")),
                   "min0": int(f.get("min_neutron_shift", "0")), "max0": int(f.get("max_neutron_shift", "0")),
                   "isos": [], "late": [], "indexed": False}
        elif p.peek() == "elt":
            if cur is None:
                raise Refuse("statement on elt outside an element block")
            p.eat("elt", ".")
            what = p.take("id")
            if what == "isotopes":
                p.eat(".", "insert", "(")
                key = int(p.take("num"))
                p.eat(",", "Isotope")
                f = parse_struct_fields(p, {"mass", "abundance", "neutrons", "neutron_shift"}, True)
                if p.peek() == ",":
                    p.eat(",")
                p.eat(")", ";")
                (cur["late"] if cur["indexed"] else cur["isos"]).append({"key": key, "mass": micro(f.get("mass", "0")), "ab": micro(f.get("abundance", "0")),
                                    "neutrons": int(f.get("neutrons", "0")), "shift": int(f.get("neutron_shift", "0"))})
            elif what == "index_isotopes":
                p.eat("(", ")", ";")
                cur["indexed"] = True
            else:
                raise Refuse("unknown statement elt.%s" % what)
        elif p.peek() == "table":
            p.eat("table", ".", "add", "(", "elt", ")", ";")
            if cur is None:
                raise Refuse("table.add without element")
            elements.append(cur)
            cur = None
        else:
            raise Refuse("unrecognised statement starting with %r" % p.peek())
    if cur is not None:
        raise Refuse("last element never added")
    return elements


def coq_string(s):
    if any(ord(c) < 32 or ord(c) > 126 for c in s):
        raise Refuse("non-printable-ASCII symbol %r" % s)
    return '"' + s.replace('"', '""') + '"'


def z(v):
    return str(v) if v >= 0 else "(%d)" % v


def emit_table(elements):
    out = ["(* GENERATED by tools/gen_table.py from /repo/src/table.rs -- do not edit. *)",
           "From Coq Require Import ZArith NArith List String.",
           "From CE Require Import TableTypes.",
           "Import ListNotations. Local Open Scope string_scope. Local Open Scope Z_scope.",
           "",
           "Definition table_src : list elem_src := ["]
    rows = []
    for e in elements:
        fmt = lambda l: "; ".join("mkIso %d %s %s %d %s" % (i["key"], z(i["mass"]), z(i["ab"]), i["neutrons"], z(i["shift"])) for i in l)
        isos = fmt(e["isos"])
        rows.append("  mkElem %s %d %s %d %s %s %s [%s] [%s]" % (coq_string(e["symbol"]), e["mai"], z(e["mam"]), e["number"],
                                                                 z(e["min0"]), z(e["max0"]),
                                                                 "true" if e["indexed"] else "false", isos, fmt(e["late"])))
    out.append(";\n".join(rows))
    out.append("].")
    return "\n".join(out) + "\n"


DEC = re.compile(r"-?[0-9]+(?:\.[0-9]+)?(?:[eE][-+]?[0-9]+)?")


def dec_to_ratio(tok):
    """JSON number token -> (numerator, power of ten k) with value = num / 10^k, exact."""
    m = re.fullmatch(r"(-?)([0-9]+)(?:\.([0-9]+))?(?:[eE]([-+]?[0-9]+))?", tok)
    if not m:
        raise Refuse("bad JSON number %r" % tok)
    frac = m.group(3) or ""
    num = int(m.group(2) + frac)
    k = len(frac) - int(m.group(4) or "0")
    if k < 0:
        num *= 10 ** (-k)
        k = 0
    if m.group(1):
        num = -num
    return num, k


def emit_nist(path):
    # keep the number tokens exact: parse with parse_float/parse_int hooks returning the source text
    data = json.load(open(path), parse_float=lambda s: ("n", s), parse_int=lambda s: ("n", s))
    if not isinstance(data, dict):
        raise Refuse("nist json: top level is not an object")
    out = ["(* GENERATED by tools/gen_table.py from /repo/data/nist_mass.json -- do not edit. *)",
           "From Coq Require Import ZArith NArith List String.",
           "From CE Require Import TableTypes.",
           "Import ListNotations. Local Open Scope string_scope. Local Open Scope Z_scope.",
           "",
           "(* serde_json's Map is a BTreeMap: elements and isotope keys are in byte-wise string order *)",
           "Definition nist_src : list nist_elem := ["]
    rows = []
    for sym in sorted(data.keys(), key=lambda s: s.encode()):
        isos = data[sym]
        ents = []
        for key in sorted(isos.keys(), key=lambda s: s.encode()):
            if not re.fullmatch(r"[0-9]+", key):
                raise Refuse("isotope key %r of %s is not a number" % (key, sym))
            v = isos[key]
            if not (isinstance(v, list) and len(v) == 2 and all(isinstance(x, tuple) for x in v)):
                raise Refuse("entry %s/%s is not [mass, abundance]" % (sym, key))
            mn, mk = dec_to_ratio(v[0][1])
            an, ak = dec_to_ratio(v[1][1])
            ents.append("mkNistIso %d %s %d %s %d" % (int(key), z(mn), mk, z(an), ak))
        rows.append("  mkNistElem %s [%s]" % (coq_string(sym), "; ".join(ents)))
    out.append(";\n".join(rows))
    out.append("].")
    return "\n".join(out) + "\n"


def write_if_changed(path, text):
    try:
        if open(path).read() == text:
            return False
    except OSError:
        pass
    tmp = path + ".tmp"
    with open(tmp, "w") as f:
        f.write(text)
    os.replace(tmp, path)
    return True


def main():
    repo = sys.argv[1] if len(sys.argv) > 1 else "/repo"
    outdir = sys.argv[2] if len(sys.argv) > 2 else os.path.join(os.path.dirname(__file__), "..", "coq", "gen")
    try:
        elements = parse_table(open(os.path.join(repo, "src", "table.rs")).read())
        t = emit_table(elements)
        n = emit_nist(os.path.join(repo, "data", "nist_mass.json"))
    except Refuse as e:
        print("gen_table: REFUSED: %s" % e)
        sys.exit(3)
    c1 = write_if_changed(os.path.join(outdir, "Table.v"), t)
    c2 = write_if_changed(os.path.join(outdir, "Nist.v"), n)
    print("gen_table: %d elements, %d isotopes; Table.v %s, Nist.v %s" % (
        len(elements), sum(len(e["isos"]) + len(e["late"]) for e in elements),
        "rewritten" if c1 else "unchanged", "rewritten" if c2 else "unchanged"))


if __name__ == "__main__":
    main()
