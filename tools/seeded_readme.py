#!/usr/bin/env python3
"""Regenerate seeded/README.md from seeded/<id>/{meta,result}.json."""
import json, os, re
V = os.path.dirname(os.path.dirname(os.path.abspath(__file__)))
S = os.path.join(V, "seeded")
FIRST_MISS = {
    "C16A": "the read composition held no three-letter symbol", "C15B": "no threshold pair with t2 exactly 1.0 (only the tie broke)",
    "C05B": "no isotope numbers inside ladder gaps in the random stream", "C11A": "counts 6, 10-14 and thresholds around 1e-2 under-sampled",
    "C08B": "no element with a long isotope ladder in the request pool",
    "C17A": "reported as a broken correspondence only; a binding whose reads differ from the Rust operations is now a failing input",
    "C04C": "key pool had no two elements colliding on (mass number, most abundant isotope)", "C07C": "element-specification round trips were only exercised by C16",
    "C14D": "equality never compared patterns with large absolute intensities", "C17C": "`set` with count 0 was drawn with probability 1/400",
    "C17D": "no formula with an untabulated isotope in mid-string position among the byte strings",
    "C05E": "no `*` in any alphabet: the pseudo-element key `e*` was never fed to the parser (every table key now is, in 10 contexts)",
    "C06F": "`fmass -> in-place write -> read` on one register was a 1-in-100 event (the generator now follows fmass by a write to a recently written key)",
    "C08E": "every pooled request used the proton carrier (a sodium-carrier twin of the first request was added)",
    "C08F": "no two pooled elements with the same `element_number` (Ar3 and CaCO3 were added)",
    "C09F": "needs a composition above ~1 MDa, outside the stated domain (three such compositions with short requests were added)",
    "C10F": "mz.rs's two functions were proved about but never called directly (now every non-zero charge, bitwise tie to Mz.v)",
    "C13F": "offsets below 1e-9 were never drawn, and the shift specification tolerated 1e-9 absolute (now one rounding, 1e-15 relative)"}
PRE4 = {
    "C01G": "groups nested more than 8 deep: the random grammar rarely goes beyond 3 -- towers 6..14 deep were added",
    "C08G": "a request that resolves to exactly one peak: none in the pool -- `1usize` and a 50% fraction on water were added",
    "C11H": "a leading element pruned to nothing followed by more elements: fixed cases Br3H2@0.5, Cl4C2H@0.9999, Se4H2@0.3 added; first reported "
            "`no-failing-input-found`, then the specification evaluator learned that every returned peak must sit at an isotopologue mass of the whole composition",
    "C13H": "scale factors 0, subnormal and negative were added (and the scale specification allows half a subnormal spacing)",
    "C14H": "non-positive filter thresholds with a non-zero shift were added to the fused operation's cases",
    "C15G": "first reported `no-failing-input-found`: only the first of the two consecutive count calls of a record was checked exactly; now both are",
    "C17G": "a leak on the error path is invisible to every later call: the child now carries a counting allocator sampled around each call (quick tier, no sanitizer needed)"}
R5 = {
    "C02I": "missed: the map form's `inc_str` on a bare symbol that is already a key, right after `fmass` on the same register, was not generated (string-keyed "
            "increments now follow a cache fill on a recently written key)",
    "C02J": "missed: `Clone::clone_from` (as opposed to `clone`) was not an operation of the register machine's alphabet; the harness now performs `OClone` through "
            "`clone_from` onto a target whose cache is filled",
    "C09I": "missed, then (with the BRAIN source tie) `no-failing-input-found` naming `constants_update`: one generator object asked for n and then n+2 peaks of the same "
            "elements; the long-lived generator had already seen a huge request.  A generator fresh for every composition now sees the ladder 3,5,7,9,10,4 first",
    "C10I": "missed: a default / signal-fraction request whose resolved count differs between the neutral and the ion mass needs a composition within a few Da of a Poisson "
            "count boundary (26, 157, 423, 814 ... Da); such compositions were added",
    "C17I": "missed: no formula argument surrounded by white space among the byte strings (now: leading / trailing space, tab, CR LF)",
    "C07I": "`no-failing-input-found` at first: the ordering clause of the specification evaluator (carbon, hydrogen, then alphabetical) was only applied to compositions "
            "containing plain carbon; it is now applied to all, and compositions without carbon but with hydrogen and a symbol below H are generated",
    "C08J": "`no-failing-input-found` at first (the syntactic obligation saw the new `Atomic*`): the 16 threads' results are now also compared with a single-threaded "
            "run of the same requests, which yields the failing request",
    "C15J": "`no-failing-input-found` at first: the count for threshold exactly 1.0 was only tied to the model, not judged by the specification evaluator; it now is "
            "(t = 1: the loop must run to the 255 cap or to the first non-finite term)"}
ids = sorted(d for d in os.listdir(S) if re.match(r"^C\d\d[A-Z]$", d))
rows, caught = [], 0
for i in ids:
    m = json.load(open(os.path.join(S, i, "meta.json")))
    r = json.load(open(os.path.join(S, i, "result.json")))
    rnd = {"A": 1, "B": 1, "C": 2, "D": 2, "E": 3, "F": 3, "G": 4, "H": 4, "I": 5, "J": 5, "K": 6, "L": 7}[i[-1]]
    for chk, v in r.items():
        ok = v["exit"] == 1 and "VIOLATION" in v["verdict"]
        caught += ok
        clip = lambda t: re.sub(r"\s+", " ", str(t)).replace("|", "/")[:140]
        rows.append("| %s | %d | %s | %s | %s | %s | %s |" % (i, rnd, chk, "caught" if ok else "MISSED", v.get("replay_kind", ""), clip(m.get("breaks", "")), clip(m.get("needs_to_manifest", ""))))
out = ["# Seeded breaking changes", "",
       "Seven rounds of fresh sub-agents (one property text and a scratch worktree each, nothing from /verif) wrote %d changes that break a property while the crate "
       "compiles and the 41 pinned tests pass. Each was confirmed here (suite passes with it; its demonstration fails with it and passes without) before being kept: "
       "`patch.diff`, the demonstration, `meta.json` (the author's description plus our confirmation) and `result.json` (the verdict of `tools/run_seeded.py <id>`: "
       "apply to /repo, run the quick check, revert)." % len(ids), "",
       "First-run results: round 1: 28 of 34 caught, round 2: 29 of 34, round 3: 27 of 34 (round 4: see below). Every miss was a generator reach problem, none a model or theorem "
       "problem; what was missing:", ""]
out += ["* `%s` — %s: %s" % (k, k[:3], v) for k, v in FIRST_MISS.items()]
out += ["", "Round 4 (`..G`, `..H`): all 34 were reported on the first run, 32 with a concrete failing input and 2 (`C11H`, `C15G`) as `no-failing-input-found`. "
        "This round is not a blind measurement: the authors' reports were read before the checks were run, and where a report named something the generators "
        "visibly lacked it was added first:", ""]
out += ["* `%s` — %s" % (k, v) for k, v in PRE4.items()]
out += ["", "Round 5 (`..I`, `..J`; a blind round again: nothing was read before the first run): 26 of 34 caught with a failing input on the first run, 3 reported as "
        "`no-failing-input-found`, 5 missed:", ""]
out += ["* `%s` — %s" % (k, v) for k, v in R5.items()]
R6 = {
    "C05K": "missed: `PeriodicTable::get` made forgiving about capitalisation with Unicode-aware case mapping: `B` + U+212A KELVIN SIGN is accepted as Bk. No non-ASCII "
            "character whose case mapping lands on an ASCII letter was in any alphabet (and `to_uppercase` is outside the element translator's subset: tie unavailable). "
            "Now every table key is also fed with one letter replaced by such a twin (Kelvin sign, long s, dotless i, dotted I, sharp s, fi ligature, fullwidth and Cyrillic look-alikes), "
            "alone, grouped and counted; the same twins in C16's mutated stream",
    "C09K": "missed: requests are clamped to 300 terms (`MAX_ORDER`): needs a fixed request of 302..320 on a molecule of a few hundred kDa -- beyond the stated domain's size "
            "(atom counts up to several thousand); one such composition (C15000H30000O15000, requests 301, 302, 320) was added",
    "C10K": "missed by C10's check (C08's history sweep contains the pattern): the generator object memoises its last answer ignoring the carrier. C10 now asks one "
            "long-lived generator object for the same (composition, request, charge) twice in a row with two carriers, then for the neutral pattern, and judges both by the property's relation",
    "C11K": "`no-failing-input-found` at first: a thread-local workspace that is not cleared after a nothing-survives call made the next call return so many peaks that the "
            "case file could not be evaluated; an output with more peaks than the composition has isotope arrangements is now a failing input by counting alone"}
out += ["", "Round 6 (`..K`; one change per property, blind): 13 of 17 caught with a failing input on the first run, 1 reported as `no-failing-input-found`, 3 missed:", ""]
out += ["* `%s` — %s" % (k, v) for k, v in R6.items()]
R7 = {
    "C01L": "missed: the list form's `find`/`get` compare keys by the ADDRESS of the element (pointer identity) plus isotope: a composition parsed by "
            "`ChemicalElements::parse_formula` against the helper's own table reads 0 through `get` with an equal key from the global table. The entry points' results were only "
            "read by iteration; the own-table entry point is now read key by key through `get` and `[&key]` with keys built from the global table",
    "C07L": "missed: `PartialEq` of the map form derived (so the private mass cache takes part): after `fmass()` the parsed-back text is no longer `==` the original. "
            "Round trips were judged on entries only; the crate's own `==` (both directions, all forms, serde too) is now required against an original whose cache is populated",
    "C11L": "`no-failing-input-found` at first (the differential tie broke on 40 cases, the specification merges peaks by mass and saw nothing wrong): products within 1e-5 Da "
            "are folded into one peak, which only removes a genuine isotopologue for samarium (150+150 vs 148+152, 5e-6 Da apart); Sm was added to the element pool with fixed cases",
    "C12L": "`no-failing-input-found` at first: a new statement in `populate_periodic_table` (pruning isotopes rarer than 1e-5: He-3 disappears) made the table translator refuse, "
            "and the check stopped there; it now goes on to compare the run-time tables with the last accepted translation and the NIST data and reports the element (He)"}
out += ["", "Round 7 (`..L`; one change per property, blind, on the final machinery): 13 of 17 caught with a failing input on the first run, 2 reported as "
        "`no-failing-input-found`, 2 missed:", ""]
out += ["* `%s` — %s" % (k, v) for k, v in R7.items()]
out += ["", "After those additions all %d of %d are caught by the current checks (last full run of all patches: see the `result.json` files), each with a concrete failing input "
        "in the replay (`replay_kind`)." % (caught, len(rows)), "",
        "| id | round | check | verdict | replay | breaks | needs |", "|----|-------|-------|---------|--------|--------|-------|"] + rows
open(os.path.join(S, "README.md"), "w").write("\n".join(out) + "\n")
print(len(ids), "changes,", caught, "caught")
