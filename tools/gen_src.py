#!/usr/bin/env python3
"""Translate the straight-line f64 code of src/mz.rs (every `pub const` and `pub fn`) and the f64 constants of
src/isotopic_pattern/poisson.rs into Gallina over the numeric interface `Num` -> coq/gen/SrcGen.v.

The accepted Rust subset: `pub const NAME: f64 = <float literal>;`, and functions
    pub fn name(a: f64, z: i32, ...) -> f64 { let x: f64 = <expr>; ... <expr> }
whose expressions are built from parameters, let-bound names, constants, float literals, `+ - * /`, unary `-`,
parentheses, `<i32 name> as f64` and `.abs()` on an f64 expression.  Anything else is refused (exit 3) with the
offending token: the translator never guesses.  coq/proofs/SrcTie.v then proves, by `reflexivity`, that the
hand-written model (coq/model/Mz.v, the constants of coq/model/Poisson.v) IS this translation."""
import os, re, sys
REPO = os.environ.get("VERIF_REPO", "/repo")
OUT = os.path.join(os.path.dirname(os.path.dirname(os.path.abspath(__file__))), "coq", "gen", "SrcGen.v")


class Refuse(Exception):
    pass


TOK = re.compile(r"\s*(?:(//[^\n]*|/\*.*?\*/)|(\d[\d_]*\.\d[\d_]*(?:[eE][+-]?\d+)?|\d[\d_]*[eE][+-]?\d+)|(\d[\d_]*)|([A-Za-z_][A-Za-z0-9_]*)|(->|[-+*/()=;:,.{}<>&!\[\]#]))", re.S)


def tokens(src):
    pos, out = 0, []
    while pos < len(src):
        if src[pos:].strip() == "":
            break
        m = TOK.match(src, pos)
        if not m:
            raise Refuse("cannot tokenize at: %r" % src[pos:pos + 30])
        pos = m.end()
        if m.group(1):
            continue
        kind = "float" if m.group(2) else "int" if m.group(3) else "id" if m.group(4) else "op"
        out.append((kind, m.group(2) or m.group(3) or m.group(4) or m.group(5)))
    return out


def float_lit(t):
    """decimal literal -> Gallina over Num: exact integer -> of_Z, else of_dec num k (num / 10^k)"""
    t = t.replace("_", "")
    m = re.fullmatch(r"(\d+)\.(\d+)(?:[eE]([+-]?\d+))?|(\d+)[eE]([+-]?\d+)", t)
    if not m:
        raise Refuse("float literal %r" % t)
    if m.group(4) is not None:
        ip, fp, ex = m.group(4), "", int(m.group(5))
    else:
        ip, fp, ex = m.group(1), m.group(2), int(m.group(3) or 0)
    fp = fp.rstrip("0")
    num, k = int(ip + fp), len(fp) - ex
    if k <= 0:
        return "(of_Z N %d)" % (num * 10 ** (-k))
    return "(of_dec N %d %d)" % (num, k)


class Parser:
    def __init__(self, toks):
        self.t, self.i = toks, 0

    def peek(self, k=0):
        return self.t[self.i + k] if self.i + k < len(self.t) else ("eof", "")

    def take(self, val=None, kind=None):
        k, v = self.peek()
        if (val is not None and v != val) or (kind is not None and k != kind):
            raise Refuse("expected %s, found %r (token %d)" % (val or kind, v, self.i))
        self.i += 1
        return v

    # expr := term (('+'|'-') term)* ; term := unary (('*'|'/') unary)* ; unary := '-' unary | postfix
    def expr(self, env):
        a = self.term(env)
        while self.peek()[1] in ("+", "-"):
            op = self.take()
            b = self.term(env)
            a = "(%s N %s %s)" % ("add" if op == "+" else "sub", a, b)
        return a

    def term(self, env):
        a = self.unary(env)
        while self.peek()[1] in ("*", "/"):
            op = self.take()
            b = self.unary(env)
            a = "(%s N %s %s)" % ("mul" if op == "*" else "div", a, b)
        return a

    def unary(self, env):
        if self.peek()[1] == "-":
            self.take()
            return "(opp N %s)" % self.unary(env)
        return self.postfix(env)

    def postfix(self, env):
        k, v = self.peek()
        if v == "(":
            self.take("(")
            a = self.expr(env)
            self.take(")")
            ty = "f64"
        elif k == "float":
            self.take()
            a, ty = float_lit(v), "f64"
        elif k == "id":
            self.take()
            if v not in env:
                raise Refuse("unknown name %r" % v)
            a, ty = env[v]
        else:
            raise Refuse("unexpected token %r" % v)
        while True:
            if self.peek()[1] == "." and self.peek(1)[1] == "abs" and self.peek(2)[1] == "(" and self.peek(3)[1] == ")":
                if ty != "f64":
                    raise Refuse(".abs() on a non-f64 expression")
                self.i += 4
                a = "(abs N %s)" % a
            elif self.peek()[1] == "as":
                self.take("as")
                to = self.take(kind="id")
                if to != "f64" or ty != "i32":
                    raise Refuse("cast %s as %s" % (ty, to))
                a, ty = "(of_Z N %s)" % a, "f64"
            else:
                break
        if ty != "f64":
            raise Refuse("an integer is used where an f64 is needed")
        return a


def translate_file(path, want_fns):
    src = open(path, encoding="utf-8").read()
    src = src.split("#[cfg(test)]")[0]
    if not want_fns:
        # constants only: the top-level `const NAME: f64 = ...;` items, in source order
        src = "\n".join(re.findall(r"^(?:pub(?:\([a-z]+\))? )?const [A-Z_0-9]+: f64 = [^;]*;", src, re.M))
    p = Parser(tokens(src))
    consts, fns, env = [], [], {}
    while p.peek()[0] != "eof":
        k, v = p.peek()
        if v == "pub":
            p.take()
            continue
        if v == "use":
            while p.take() != ";":
                pass
            continue
        if v == "const":
            p.take()
            name = p.take(kind="id"); p.take(":"); ty = p.take(kind="id"); p.take("=")
            if ty != "f64":
                raise Refuse("const %s of type %s" % (name, ty))
            val = p.expr(env); p.take(";")
            consts.append((name, val))
            env[name] = ("(%s_gen N)" % name, "f64")
            continue
        if v == "fn":
            if not want_fns:
                break          # constants only: they precede the functions in poisson.rs
            p.take()
            name = p.take(kind="id"); p.take("(")
            params, fenv = [], dict(env)
            while p.peek()[1] != ")":
                a = p.take(kind="id"); p.take(":"); ty = p.take(kind="id")
                if ty not in ("f64", "i32"):
                    raise Refuse("parameter %s: %s" % (a, ty))
                params.append((a, ty)); fenv[a] = (a, ty)
                if p.peek()[1] == ",":
                    p.take()
            p.take(")"); p.take("->"); rty = p.take(kind="id"); p.take("{")
            if rty != "f64":
                raise Refuse("fn %s returns %s" % (name, rty))
            lets = []
            while p.peek()[1] == "let":
                p.take(); x = p.take(kind="id")
                if p.peek()[1] == ":":
                    p.take(); lty = p.take(kind="id")
                    if lty != "f64":
                        raise Refuse("let %s: %s" % (x, lty))
                p.take("="); e = p.expr(fenv); p.take(";")
                lets.append((x, e)); fenv[x] = (x, "f64")
            body = p.expr(fenv); p.take("}")
            fns.append((name, params, lets, body))
            continue
        if not want_fns:
            break
        raise Refuse("unexpected item starting with %r" % v)
    return consts, fns


def main():
    try:
        c1, f1 = translate_file(os.path.join(REPO, "src", "mz.rs"), True)
        c2, _ = translate_file(os.path.join(REPO, "src", "isotopic_pattern", "poisson.rs"), False)
    except (Refuse, OSError) as e:
        print("gen_src: refused: %s" % e)
        return 3
    out = ["(* GENERATED by tools/gen_src.py from src/mz.rs and the constants of src/isotopic_pattern/poisson.rs -- do not edit *)",
           "From Coq Require Import ZArith.", "From CE Require Import Num.", "", "Section SrcGen.", "  Context {F : Type} (N : Num F)."]
    for name, val in c1 + c2:
        out.append("  Definition %s_gen : F := %s." % (name, val))
    for name, params, lets, body in f1:
        ps = " ".join("(%s : %s)" % (a, "F" if ty == "f64" else "Z") for a, ty in params)
        b = "".join("let %s := %s in " % (x, e) for x, e in lets) + body
        out.append("  Definition %s_gen %s : F := %s." % (name, ps, b))
    out.append("End SrcGen.")
    text = "\n".join(out) + "\n"
    old = open(OUT).read() if os.path.exists(OUT) else None
    if old != text:
        open(OUT, "w").write(text)
    print("gen_src: %d constants, %d functions" % (len(c1 + c2), len(f1)))
    global TRANSLATED
    TRANSLATED = [name for name, _ in c1 + c2] + [f[0] for f in f1]
    return 0


TRANSLATED = []
TIE = os.path.join(os.path.dirname(os.path.dirname(OUT)), "proofs", "SrcTie.v")
WANTED = ["PROTON", "mass_charge_ratio", "neutral_mass", "NEUTRON_SHIFT", "LAMBDA_FACTOR"]


def cli():
    """python3 tools/gen_src.py [--ties [--field] [--only=a,b]]: regenerate SrcGen.v; with --ties compile
    coq/proofs/SrcTie.v block by block, in strict mode or (--field) in field mode (tools/tie_modes.py), and print
    `tie <name>: OK | FAILED (..) | SKIPPED (..)` for PROTON, mass_charge_ratio, neutral_mass, NEUTRON_SHIFT,
    LAMBDA_FACTOR"""
    rc = main()
    if rc != 0:
        return rc
    sys.path.insert(0, os.path.dirname(os.path.abspath(__file__)))
    import tie_modes
    ties, field, only = tie_modes.flags(sys.argv[1:])
    if not ties:
        return 0
    coq = os.path.dirname(os.path.dirname(OUT))
    if not tie_modes.compile_deps(coq, ["model/TieTac.v", "gen/SrcGen.v"]):
        return 1
    skipped = {n: "not in the translated source" for n in WANTED if n not in TRANSLATED}
    bad = tie_modes.check_blocks(coq, TIE, WANTED, skipped, field=field, only=only, stem="SrcTie")
    return 1 if bad else 0


if __name__ == "__main__":
    sys.exit(cli())
