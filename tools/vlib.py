"""Shared machinery of ./check: building, running coqc on case files, deciding, writing evidence."""
import json
import os
import re
import subprocess
import sys
import time
from concurrent.futures import ThreadPoolExecutor

VERIF = os.path.dirname(os.path.dirname(os.path.abspath(__file__)))
REPO = os.environ.get("VERIF_REPO", "/repo")
COQ = os.path.join(VERIF, "coq")
HARNESS = os.path.join(VERIF, "harness")
CASES = os.path.join(COQ, "cases")
EVID = os.path.join(VERIF, "evidence")
REPLAYS = os.path.join(VERIF, "replays")
KNOWN = os.path.join(VERIF, "known_findings.txt")
GUARD = "chemical_elements_verif"

ENV = dict(os.environ, CARGO_NET_OFFLINE="true", RUSTFLAGS="--cfg %s" % GUARD)

FORBIDDEN = re.compile(r"\b(Admitted|admit|Axiom|Axioms|Parameter|Parameters|Conjecture|Conjectures|Hypothesis|Hypotheses|Variable|Variables)\b"
                       r"|Unset\s+Guard|bypass_check|Admit\s+Obligations|-type-in-type|-impredicative-set|Unset\s+Universe\s+Checking|Unset\s+Positivity")


class ExtendSearch(Exception):
    """raised instead of reporting `no-failing-input-found` the first time a correspondence breaks: the driver then
    re-runs the check with five times the cases (fresh part of the same PRNG stream) looking for a failing input"""
    def __init__(self, payload):
        self.payload = payload


def sh(cmd, cwd=None, timeout=None, env=None):
    t0 = time.time()
    try:
        p = subprocess.run(cmd, cwd=cwd, stdout=subprocess.PIPE, stderr=subprocess.STDOUT, timeout=timeout,
                           env=env or ENV, shell=isinstance(cmd, str))
        return p.returncode, p.stdout.decode("utf-8", "replace"), time.time() - t0
    except subprocess.TimeoutExpired as e:
        return 124, (e.stdout or b"").decode("utf-8", "replace") + "\n[timeout]", time.time() - t0


# ---------------------------------------------------------------- building

def build_harness():
    """cargo build of the harness against /repo's working tree. Returns (ok, log)."""
    rc, out, _ = sh(["cargo", "build", "--release", "--offline", "-q"], cwd=HARNESS, timeout=900)
    return rc == 0, out


def harness_bin():
    return os.path.join(HARNESS, "target", "release", "ce_harness")


def run_harness(args, timeout=600, stdin=None):
    t0 = time.time()
    p = subprocess.run([harness_bin()] + [str(a) for a in args], stdout=subprocess.PIPE, stderr=subprocess.PIPE,
                       timeout=timeout, input=stdin, env=ENV)
    return p.returncode, p.stdout.decode("utf-8", "replace"), p.stderr.decode("utf-8", "replace"), time.time() - t0


def gen_table():
    rc, out, _ = sh([sys.executable, os.path.join(VERIF, "tools", "gen_table.py"), REPO, os.path.join(COQ, "gen")])
    return rc, out.strip()


SOURCE_TIES = {
    "mz": ("gen_src.py", "proofs/SrcTie.vo",
           "coq/model/Mz.v (PROTON, mass_charge_ratio, neutral_mass) and Poisson.v's NEUTRON_SHIFT / LAMBDA_FACTOR are definitionally the "
           "translation of the current src/mz.rs and poisson.rs constants (tools/gen_src.py -> coq/gen/SrcGen.v; proofs/SrcTie.v, reflexivity)"),
    "poisson": ("gen_poisson.py", "proofs/PoissonTie.vo",
                "coq/model/Poisson.v's poisson_approximation(_impl) and poisson_n(_impl) equal, for every numeric interpretation and all "
                "arguments, the state-passing translation of the current src/isotopic_pattern/poisson.rs (tools/gen_poisson.py -> "
                "coq/gen/PoissonGen.v; proofs/PoissonTie.v)"),
    "convolution": ("gen_conv.py", "proofs/ConvTie.vo",
                    "coq/model/Conv.v's convolve_with and convolve_pow equal the translation of the current convolution.rs functions of the "
                    "same names (out-parameters as results, the doubling `while` with proved-sufficient fuel; tools/gen_conv.py -> "
                    "coq/gen/ConvGen.v; proofs/ConvTie.v)"),
    "peak": ("gen_peak.py", "proofs/PeakTie.vo",
             "coq/model/Peak.v's total, scale_by, normalize, shift, clone_shifted, truncate_after, ignore_below, fused, clone_drop_last, "
             "slice_normalized and peak_eq equal the translation of the current peak.rs methods (tools/gen_peak.py -> coq/gen/PeakGen.v; "
             "proofs/PeakTie.v)"),
    "formula": ("gen_formula.py", "proofs/FormulaTie.vo",
                "coq/model/Formula.v's parse_formula equals, for every string and every oracle (errors and panics included), the translation of the "
                "current src/formula.rs: the eight per-state step arms, the end-of-input arms, the helpers, the driver loop and the group recursion "
                "(28 units; tools/gen_formula.py -> coq/gen/FormulaGen.v; proofs/FormulaTie.v, corollary formula_source_tie)"),
    "espec": ("gen_espec.py", "proofs/ESpecTie.vo",
              "coq/model/ESpec.v's espec_parse, quick_check, show_key and key equality equal the translation of the current "
              "src/element_specification.rs (parse / parse_with / FromStr, quick_check_str, Display, PartialEq<str>, Borrow, Hash, Eq; 13 functions; "
              "tools/gen_espec.py -> coq/gen/ESpecGen.v; proofs/ESpecTie.v)"),
    "comp": ("gen_comp.py", "proofs/CompTie.vo",
             "the inherent methods of ChemicalCompositionVec and ChemicalCompositionMap (48 functions: find/get/set/inc, string-keyed access, "
             "Index/IndexMut, calc_mass/mass/fmass and the cache, _add_from/_sub_from/_mul_by ...) translated from the current "
             "composition_list.rs / composition_map.rs equal the model's operations (Comp.v, CompOps.apply, ESpec.v accessors); map-form ties "
             "that depend on insertion order are exact for the identity iteration-order oracle (tools/gen_comp.py -> coq/gen/CompGen.v; proofs/CompTie.v)"),
    "render": ("gen_render.py", "proofs/RenderTie.vo",
               "to_formula and the three Display impls translated from the current formula.rs / composition files equal Render.to_formula on entry "
               "lists with distinct keys (tools/gen_render.py -> coq/gen/RenderGen.v; proofs/RenderTie.v)"),
    "cbind": ("gen_cbind.py", "proofs/CBindTie.vo",
              "the control structure of all 11 extern \"C\" functions of bindings/c/src/lib.rs (out-pointer writes, which parser on which text, "
              "match arms, error codes incl. the + 1, allocation and free) translated from the current source equals the handle-table model's "
              "step for that call (tools/gen_cbind.py -> coq/gen/CBindGen.v; proofs/CBindTie.v)"),
    "brain": ("gen_brain.py", "proofs/BrainTie.vo",
              "26 functions of src/isotopic_pattern/baffling.rs (vietes, the Newton / power-sum / elementary-symmetric updates, request resolution, "
              "IsotopicConstants get/update, isotopic_coefficients, from_element, phi values, probability_vector, center_mass_vector and the peak-building "
              "tail with the 1e-10 rule, charge conversion and sort) translated from the current source equal the corresponding definitions of Brain.v, "
              "panics included, under stated integer-width side conditions (tools/gen_brain.py -> coq/gen/BrainGen.v; proofs/BrainTie.v)"),
    "props": ("gen_props.py", "proofs/PropsTie.vo",
              "everything the macros of src/props.rs generate (impl_arithmetic! at the list, map and enum types: Add/Sub by reference and by value, "
              "AddAssign/SubAssign on T and &mut T, Mul/MulAssign by i32, Neg by value and by reference; impl_from!; the ChemicalCompositionLike trait "
              "impls; IntoIterator/FromIterator) and the enum wrapper src/abstract_composition.rs (arm dispatch of every method, into_map / into_vec, "
              "From, eq, inc_str), 123 functions read from the current source with the macro bodies expanded at their invocations, equal "
              "CompOps.apply at the matching operation and family (tools/gen_props.py -> coq/gen/PropsGen.v; proofs/PropsTie.v)"),
    "element": ("gen_element.py", "proofs/ElementTie.vo",
                "the code that consumes the table: Element::mass / calc_min_neutron_shift / calc_max_neutron_shift (for every HashMap iteration "
                "order) / isotope_by_shift (i16 arithmetic and the `as u16` wrap explicit) / index_isotopes, PeriodicTable::new / add / get / index, "
                "Isotope::eq / partial_cmp translated from the current src/element.rs equal TableModel.v's calc_min / calc_max, the index step of "
                "build_elem, tbl_insert, tbl_get / tbl_find; and ChemicalElements::make_periodic_table / new / parse_formula / parse_element of "
                "src/helper.rs (with ChemicalComposition::parse_with / parse / from_str) hand each parser the table the model says: the constants of "
                "`new` the global table, parse_formula / parse_element the struct's own (18 functions; tools/gen_element.py -> coq/gen/ElementGen.v; "
                "proofs/ElementTie.v)"),
}


# which other parts' generated text / tie lemmas a part's tie file imports
PREREQ = {"poisson": ("mz",), "brain": ("mz", "poisson"), "comp": ("espec",), "props": ("espec", "comp"), "element": ("espec", "formula")}


# Tie lemmas whose function lies outside what a property speaks about: a mismatch confined to them is recorded in the evidence
# but does not make that property's check report (the property's own theorems do not go through those functions).
_ELEM_NOT_PARSING = r"^(mass|calc_min_neutron_shift|calc_max_neutron_shift|isotope_by_shift|index_isotopes|isotope_eq|isotope_partial_cmp)$"
IRRELEVANT_TIES = {
    # the parsers go through helper.rs / PeriodicTable::get only; how an element's shifts are indexed is C12's business
    "C01": {"element": _ELEM_NOT_PARSING}, "C05": {"element": _ELEM_NOT_PARSING}, "C07": {"element": _ELEM_NOT_PARSING}, "C16": {"element": _ELEM_NOT_PARSING},
    # the table's consistency does not depend on which table the helper's parsers are handed, nor on Isotope's approximate equality
    "C12": {"element": r"^(ce_parse_formula|ce_parse_element|cc_parse_with|cc_from_str|cc_parse|isotope_eq|isotope_partial_cmp)$"},
    # of baffling.rs only the peak-building tail (charge conversion) concerns C10
    "C10": {"brain": r"^(?!dist_isotopic_variants$).*$", "convolution": r".*", "peak": r".*"},
    # of peak.rs the convolution's output tail uses normalize / ignore_below only
    "C11": {"peak": r"^(?!normalize$|ignore_below$|total$|scale_by$).*$"},
    # C04 is about counts only: the mass computation and its cache are C02's / C06's business
    "C04": {"comp": r"^[vm]_(calc_mass|mass|fmass|has_mass_cached)$", "props": r"^(l[vma]|a|r)_(calc_mass|mass|fmass|has_mass_cached)$"},
}


# translators whose --ties mode has a --field variant (tie re-proved under the ordered-field laws only)
FIELD_MODE = {"gen_brain.py", "gen_src.py", "gen_poisson.py", "gen_conv.py", "gen_peak.py", "gen_comp.py"}


TIES_MODE = {"gen_src.py", "gen_poisson.py", "gen_conv.py", "gen_peak.py", "gen_espec.py", "gen_formula.py", "gen_comp.py", "gen_render.py", "gen_cbind.py", "gen_brain.py", "gen_element.py", "gen_props.py"}


def source_tie(run, parts=("mz",)):
    """Regenerate the Gallina translation of the named source files from the CURRENT /repo and re-check in the kernel that the
    hand-written models ARE those translations (for every numeric interpretation and all arguments).

    Three outcomes per part:
      established  -- translated and every tie lemma re-proved;
      field-level  -- some tie lemma no longer holds for every numeric interpretation (so not bit for bit for doubles) but is
                      re-proved over every ordered field: the code still is the model in exact arithmetic, which is what the
                      algebraic theorems speak about; treated like `unavailable` (quiet, differential search 5x deeper);
      unavailable  -- the translator refused the file, or skipped functions that are now written outside its subset (a harmless
                      rewrite does that): no information; the differential correspondence remains the tie (searched 5x deeper);
      mismatch     -- the source WAS translated but a tie lemma no longer holds of it: the code no longer is the model.  The
                      differential run is searched 5x deeper for a failing input; if none is found the check still reports
                      `VIOLATION ... no-failing-input-found`, naming the lemma."""
    res = {}
    memo = {}

    def status_of(k):
        """a tie file imports the generated text and the tie lemmas of the parts it builds on (PREREQ): when one of those is not
        established (a change in THAT file, judged by the checks of the properties anchored there), this part cannot be compiled
        in strict mode at all -- that says nothing about this part's own source"""
        if k not in memo:
            blocked = [(q, status_of(q)["status"]) for q in PREREQ.get(k, ())]
            blocked = [(q, st) for q, st in blocked if st != "established"]
            if blocked:
                memo[k] = {"established": False, "status": "unavailable", "what": SOURCE_TIES[k][2], "failed_ties": [],
                           "detail": "not checked: it builds on the tie of %s" % ", ".join("`%s` (%s)" % b for b in blocked)}
            else:
                memo[k] = eval_part(k)
        return memo[k]

    def eval_part(k):
        script, target, what = SOURCE_TIES[k]
        rc, out, _ = sh([sys.executable, os.path.join(VERIF, "tools", script)], cwd=VERIF, timeout=300)
        lines = [l for l in out.strip().splitlines() if l.strip()]
        detail = lines[-1] if lines else ""
        status, failed = "established", []
        if rc == 3 or rc not in (0, 1):
            status = "unavailable"
        else:
            rc2, out2, _ = make([target])
            if rc2 != 0:
                if script in TIES_MODE:
                    rc3, out3, _ = sh([sys.executable, os.path.join(VERIF, "tools", script), "--ties"], cwd=VERIF, timeout=900)
                    failed = re.findall(r"^tie (\S+): FAILED", out3, re.M)
                    skipped = re.findall(r"^tie (\S+): SKIPPED", out3, re.M)
                    if skipped:
                        # the translation is incomplete (some unit is now written outside the subset).  A tie whose STATEMENT no longer
                        # elaborates -- it mentions a definition that was not produced, or a unit whose signature changed because a
                        # sibling was skipped -- fails for that reason, not because of what its own function computes
                        msgs = dict(re.findall(r"^tie (\S+): FAILED \((.*)\)\s*$", out3, re.M))
                        knock = [f for f in failed if re.search(r"was not found in the current environment|while it is expected to have type|"
                                                                r"expects? \d+ arguments?|Illegal application|The reference \S+ was not found", msgs.get(f, ""))]
                        failed = [f for f in failed if f not in knock]
                        skipped = skipped + knock
                    field_ok = []
                    if failed and script in FIELD_MODE:
                        # second chance: do the failed ties still hold over every ORDERED FIELD (exact arithmetic)?  A floating-point
                        # rewrite that is an identity of fields (operands commuted, fma split, division by t vs multiplication by 1/t)
                        # leaves the code equal to the model for every ordered-field interpretation, which is what the algebraic
                        # theorems are stated about; bit-level agreement with the model is then left to the differential run
                        rc4, out4, _ = sh([sys.executable, os.path.join(VERIF, "tools", script), "--ties", "--field", "--only=" + ",".join(failed)],
                                          cwd=VERIF, timeout=900)
                        field_ok = [f for f in re.findall(r"^tie (\S+): OK", out4, re.M) if f in failed]
                        failed = [f for f in failed if f not in field_ok]
                    # a block is compiled together with the blocks it `needs`: when one of those fails, it fails too.  Only the ROOT
                    # failures say which function's translation is no longer the model
                    needs = tie_needs(target)
                    def closure(f, seen=None):
                        seen = set() if seen is None else seen
                        for g in needs.get(f, ()):
                            if g not in seen:
                                seen.add(g); closure(g, seen)
                        return seen
                    failed = [f for f in failed if not (closure(f) & set(failed))] or failed
                    irr = IRRELEVANT_TIES.get(run.prop, {}).get(k)
                    outside = [f for f in failed if irr and re.match(irr, f)]
                    failed = [f for f in failed if f not in outside]
                    status = "mismatch" if failed else ("field-level" if field_ok else "unavailable")
                    detail = ("tie lemmas that no longer hold: %s" % ", ".join(failed)) if failed else (("skipped (outside the subset): %s" % ", ".join(skipped)) if skipped else "")
                    if field_ok:
                        detail += ("; " if detail else "") + "ties that no longer hold bit for bit but are re-proved over every ordered field: %s" % ", ".join(field_ok)
                    if outside:
                        detail += "; tie lemmas that no longer hold but concern functions outside %s: %s" % (run.prop, ", ".join(outside))
                else:
                    status = "mismatch"
                    failed = [target]
                    detail = "%s no longer checks: " % target + " ".join(out2.strip().splitlines()[-4:])
        return {"established": status == "established", "status": status, "what": what, "detail": detail[-700:], "failed_ties": failed}

    for k in parts:
        res[k] = status_of(k)
    run.cov.setdefault("source_level_tie", {}).update(res)
    for k, r in res.items():
        if r["established"]:
            run.oblige("source-level tie (%s): the model is the translation of the current source, regenerated and re-proved" % k, True, r["detail"])
    bad = {k: r for k, r in res.items() if not r["established"]}
    if bad and run.scale == 1:
        raise ExtendSearch({"broken": "source-level tie (%s)" % ", ".join("%s: %s" % (k, r["status"]) for k, r in bad.items()),
                            "detail": "; ".join(r["detail"] for r in bad.values())})
    mism = {k: r for k, r in res.items() if r["status"] == "mismatch"}
    if mism:
        run.tie_mismatch = getattr(run, "tie_mismatch", {})
        run.tie_mismatch.update(mism)
        for k, r in mism.items():
            run.oblige("source-level tie (%s)" % k, False, r["detail"])
    return not bad


def tie_needs(target):
    """the `needs:` graph of a tie file: (* BEGIN TIE f (needs: a b) *)"""
    path = os.path.join(COQ, target[:-1] if target.endswith(".vo") else target)
    g = {}
    try:
        for m in re.finditer(r"\(\* BEGIN TIE (\S+)(?: \(needs: ([^)]*)\))? \*\)", open(path, encoding="utf-8").read()):
            g[m.group(1)] = [x.strip(" ,") for x in (m.group(2) or "").replace(",", " ").split() if x.strip(" ,")]
    except OSError:
        pass
    return g


def source_corollaries(run, module, theorems, parts, allowed_axioms=()):
    """Property theorems restated about the GENERATED definitions (the translation of the current source), obtained from the
    model theorems through the tie lemmas (coq/Properties/<module>.v).  They are obligations exactly when the ties they go
    through are established in this run; when a tie is unavailable / field-level / mismatching the generated definitions they
    mention may not even exist, and what that means for the check has already been decided by source_tie."""
    st = run.cov.get("source_level_tie", {})
    missing = [k for k in parts if not st.get(k, {}).get("established")]
    if missing:
        run.cov.setdefault("source_level_corollaries", {})[module] = "not re-established in this run: tie %s" % ", ".join(
            "%s is %s" % (k, st.get(k, {}).get("status", "not evaluated")) for k in missing)
        return []
    run.cov.setdefault("source_level_corollaries", {})[module] = "re-proved about the translation of the current source: " + ", ".join(theorems)
    return standard_proof_obligations(run, module, theorems, allowed_axioms=allowed_axioms)


def ensure_makefile():
    mk = os.path.join(COQ, "Makefile")
    cp = os.path.join(COQ, "_CoqProject")
    if not os.path.exists(mk) or os.path.getmtime(mk) < os.path.getmtime(cp):
        sh(["coq_makefile", "-f", "_CoqProject", "-o", "Makefile"], cwd=COQ)


def make(targets, timeout=1500, jobs=16):
    ensure_makefile()
    rc, out, dt = sh(["make", "-j%d" % jobs] + targets, cwd=COQ, timeout=timeout)
    return rc, out, dt


def scan_forbidden():
    """grep the development (not the generated case files) for anything that would weaken a proof."""
    hits = []
    for root, _, files in os.walk(COQ):
        if os.path.basename(root) == "cases":
            continue
        for f in files:
            if not f.endswith(".v"):
                continue
            p = os.path.join(root, f)
            txt = open(p, encoding="utf-8", errors="replace").read()
            txt_nc = strip_comments(txt)
            for m in FORBIDDEN.finditer(txt_nc):
                # `Variable`/`Hypothesis` are fine inside a Section; check crudely by section nesting
                if m.group(1) in ("Variable", "Variables", "Hypothesis", "Hypotheses"):
                    if in_section(txt_nc, m.start()):
                        continue
                line = txt_nc.count("\n", 0, m.start()) + 1
                hits.append("%s:%d: %s" % (os.path.relpath(p, VERIF), line, m.group(0)))
    return hits


def strip_comments(txt):
    out, depth, i, n = [], 0, 0, len(txt)
    in_str = False
    while i < n:
        c = txt[i]
        if depth == 0 and c == '"':
            in_str = not in_str
            out.append(c)
            i += 1
        elif not in_str and txt.startswith("(*", i):
            depth += 1
            i += 2
        elif not in_str and depth > 0 and txt.startswith("*)", i):
            depth -= 1
            i += 2
        elif depth > 0:
            out.append("\n" if c == "\n" else " ")
            i += 1
        else:
            out.append(c)
            i += 1
    return "".join(out)


def in_section(txt, pos):
    opens = len(re.findall(r"^\s*Section\s+\w+\s*\.", txt[:pos], re.M))
    closes = 0
    for m in re.finditer(r"^\s*Section\s+(\w+)\s*\.", txt[:pos], re.M):
        if re.search(r"^\s*End\s+%s\s*\." % re.escape(m.group(1)), txt[m.end():pos], re.M):
            closes += 1
    return opens > closes


def assumptions(module, theorems, timeout=600):
    """Print Assumptions for each theorem of CE.<module>; returns {thm: [axiom lines] or None if failed}."""
    src = ["From CE Require Import %s." % module]
    for t in theorems:
        src.append('Goal True. idtac "@@BEGIN %s". exact I. Qed.' % t)
        src.append("Print Assumptions %s." % t)
        src.append('Goal True. idtac "@@END %s". exact I. Qed.' % t)
    os.makedirs(CASES, exist_ok=True)
    path = os.path.join(CASES, "assume_%s.v" % module)
    open(path, "w").write("\n".join(src) + "\n")
    rc, out, _ = sh(["coqc", "-noglob", "-Q", COQ, "CE", path], cwd=CASES, timeout=timeout)
    res = {}
    for t in theorems:
        m = re.search(r"@@BEGIN %s\n(.*?)@@END %s" % (re.escape(t), re.escape(t)), out, re.S)
        if not m:
            res[t] = None
            continue
        body = m.group(1).strip()
        if body.startswith("Closed under the global context"):
            res[t] = []
        else:
            axs = []
            for line in body.splitlines():
                # one entry per unindented line: "name : type" or "name" alone with the type on the following indented lines
                mm = re.match(r"^([A-Za-z_][\w.']*)\s*(:|$)", line)
                if mm and not line.startswith(" ") and line.strip() != "Axioms:":
                    axs.append(mm.group(1))
            res[t] = axs if axs else [body[:200]]
    return res, (out if rc != 0 else "")


# ---------------------------------------------------------------- case files

def coq_str(s):
    return '"' + s.replace('"', '""') + '"'


def coq_z(v):
    return str(v) if v >= 0 else "(%d)" % v


def coq_f(h):
    """hex float string from the harness -> Coq term"""
    if h in ("nan", "infinity", "neg_infinity"):
        return h
    return "(%s)" % h if h.startswith("-") else h


def coq_list(xs):
    return "[" + "; ".join(xs) + "]"


def coq_codes(s):
    """Rust string -> list N of code points"""
    return "[" + "; ".join(str(ord(c)) for c in s) + "]"


def parse_evals(out):
    """Split coqc output into the results of successive `Eval` commands; each as the list of integers
    it contains (results are always encoded as lists of N / Z by the case files)."""
    res = []
    for m in re.finditer(r"^\s+= (.*?)^\s+: ", out, re.S | re.M):
        body = re.sub(r"\s+", " ", m.group(1))
        res.append([int(x) for x in re.findall(r"-?\d+", body)])
    return res


def run_case_files(paths, timeout=900, jobs=16):
    """coqc each file (in parallel); returns list of (path, rc, evals, raw_output, seconds)."""
    def one(p):
        rc, out, dt = sh(["coqc", "-noglob", "-w", "-all", "-Q", COQ, "CE", p], cwd=os.path.dirname(p), timeout=timeout)
        return (p, rc, parse_evals(out) if rc == 0 else [], out, dt)
    with ThreadPoolExecutor(max_workers=jobs) as ex:
        return list(ex.map(one, paths))


def write_case_file(name, text):
    os.makedirs(CASES, exist_ok=True)
    p = os.path.join(CASES, name)
    open(p, "w").write(text)
    return p


# ---------------------------------------------------------------- known findings, evidence, verdicts

def load_known(prop):
    """finding: lines of known_findings.txt for this property -> list of (key, text)."""
    res = []
    if os.path.exists(KNOWN):
        for line in open(KNOWN):
            line = line.strip()
            m = re.match(r"^finding:\s+property=(\S+)\s+key=(\S+)\s+(.*)$", line)
            if m and m.group(1) == prop:
                res.append((m.group(2), m.group(3)))
    return res


def write_replay(prop, payload):
    os.makedirs(REPLAYS, exist_ok=True)
    n = 0
    while os.path.exists(os.path.join(REPLAYS, "%s-%d.json" % (prop, n))):
        n += 1
    path = os.path.join(REPLAYS, "%s-%d.json" % (prop, n))
    json.dump(payload, open(path, "w"), indent=1, sort_keys=True)
    return path


def write_evidence(prop, tier, seed, wall, coverage, violations, assumptions_list):
    os.makedirs(EVID, exist_ok=True)
    ev = {"property_id": prop, "tier": tier, "seed": seed, "level": "proof", "coverage": coverage,
          "assumptions": assumptions_list, "wall_s": round(wall, 2), "violations": violations}
    tmp = os.path.join(EVID, "%s.json.tmp" % prop)
    json.dump(ev, open(tmp, "w"), indent=1, sort_keys=True)
    os.replace(tmp, os.path.join(EVID, "%s.json" % prop))


TRUSTED_COMMON = [
    "Coq 8.16.1 kernel (coqc, vm_compute; no native_compute); primitive floats/Uint63 only inside correspondence runs",
    "tools/gen_table.py (translator table.rs/nist_mass.json -> Table.v/Nist.v), tools/vlib.py + checks/*.py (case-file printers)",
    "the Rust harness (harness/src) and rustc/cargo 1.95 building /repo's working tree",
    "std (HashMap, Vec, str, char), serde, LazyLock are modelled at their documented contract, not verified",
]


class Run:
    """State of one check run: obligations, correspondence batches, distribution, verdict."""

    def __init__(self, prop, tier, seed, scale=1):
        self.prop, self.tier, self.seed = prop, tier, seed
        self.scale = scale          # > 1 in the extended search
        self.t0 = time.time()
        self.obligations = []      # (name, ok, detail)
        self.samples = []
        self.cov = {}
        self.assume = []
        self.trusted = list(TRUSTED_COMMON)
        self.known_printed = []

    def oblige(self, name, ok, detail=""):
        self.obligations.append((name, bool(ok), detail))

    def failed(self):
        return [(n, d) for (n, ok, d) in self.obligations if not ok]

    def finish(self, violations=0):
        mism = getattr(self, "tie_mismatch", None)
        if violations == 0 and mism and not getattr(self, "_reporting_mismatch", False):
            # the source was translated but is no longer the model, and the (extended) differential search found no failing
            # input: the property is no longer shown to hold of this code
            self._reporting_mismatch = True
            violation(self, {"broken": "source-level tie: the current source translates, but a tie lemma no longer holds of it",
                             "ties": {k: {"failed_ties": r["failed_ties"], "detail": r["detail"]} for k, r in mism.items()},
                             "note": "the differential correspondence and the specification checks passed on every generated case"}, nofail=True)
        cov = dict(self.cov)
        cov["obligations"] = len(self.obligations)
        cov["discharged"] = sum(1 for o in self.obligations if o[1])
        cov["obligation_list"] = [{"name": n, "ok": ok, "detail": d} for (n, ok, d) in self.obligations]
        cov.setdefault("checker_cmd", "make -C coq Properties/%s.vo && coqc cases (see ./check)" % self.prop)
        cov["trusted_base"] = self.trusted
        cov.setdefault("samples", self.samples[:8] if self.samples else [{"note": "no cases"}])
        write_evidence(self.prop, self.tier, self.seed, time.time() - self.t0, cov, violations, self.assume)


def violation(run, payload, nofail=False):
    if nofail and run.scale == 1 and ("tie_breaking_case" in payload or "tie_breaking_history" in payload):
        raise ExtendSearch(payload)
    if run.scale > 1:
        payload = dict(payload, extended_search="cases x%d" % run.scale)
    payload = dict(payload, property=run.prop, tier=run.tier, seed=run.seed)
    path = write_replay(run.prop, payload)
    run.finish(violations=1)
    print("VIOLATION property=%s replay=%s%s" % (run.prop, path, " no-failing-input-found" if nofail else ""))
    sys.exit(1)


# Axioms the standard library itself declares and that the floating-point level theorems (Properties/*f.v) rest on:
# the classical real numbers, and the specification of the kernel's primitive binary64 floats.  Fully qualified as
# coqchk prints them; Print Assumptions prints a suffix of these names.  A prefix ending in "." allows a whole
# standard-library module of axioms (FloatAxioms / Uint63: the *_spec statements of the primitive operations); the names
# each theorem actually uses are recorded in the evidence file and listed in DESIGN.md section 3.
STD_FLOAT_AXIOMS = ("Coq.Reals.ClassicalDedekindReals.sig_not_dec", "Coq.Reals.ClassicalDedekindReals.sig_forall_dec",
                    "Coq.Logic.FunctionalExtensionality.functional_extensionality_dep", "Coq.Logic.Classical_Prop.classic",
                    "Coq.Floats.FloatAxioms.", "Coq.Numbers.Cyclic.Int63.Uint63.")
PRIM_PRINTED = re.compile(r"^(PrimInt63\.|PrimFloat\.)|^(of_uint63|of_int63|normfr_mantissa|ldshiftexp|frshiftexp|float|int)$")


def axiom_allowed(name, allowed):
    """name as printed by Print Assumptions (a suffix of the qualified name) or by coqchk (fully qualified)"""
    for a in allowed:
        if a.endswith("."):                       # a whole standard-library module of axioms
            if name.startswith(a):
                return True
            base = name.rsplit(".", 1)[-1]        # Print Assumptions prints a suffix of the qualified name (mul_spec, FloatAxioms.mul_spec)
            if base in FLOAT_AXIOM_NAMES and ((a + base) == name or (a + base).endswith("." + name)):
                return True                       # our own tree declares no Axiom at all (scan_forbidden)
        elif a == name or a.endswith("." + name):
            return True
    return False


FLOAT_AXIOM_NAMES = set()


def load_float_axiom_names():
    """the names Coq's own FloatAxioms.v declares (read from the installed standard library source)"""
    if FLOAT_AXIOM_NAMES:
        return
    try:
        for f in ("Floats/FloatAxioms.v", "Numbers/Cyclic/Int63/Uint63.v"):
            src = open("/usr/lib/ocaml/coq/theories/" + f, encoding="utf-8").read()
            FLOAT_AXIOM_NAMES.update(re.findall(r"^\s*Axiom\s+([A-Za-z_][\w']*)", src, re.M))
    except OSError:
        pass


def standard_proof_obligations(run, module, theorems, allowed_axioms=()):
    """make Properties/<module>.vo, statement pins are inside the file; Print Assumptions; forbidden scan.
    Returns the list of broken obligations (names)."""
    broken = []
    load_float_axiom_names()
    rc, out, dt = make(["Properties/%s.vo" % module])
    run.cov["make_s"] = round(dt, 1)
    if rc != 0:
        tail = "\n".join(out.strip().splitlines()[-25:])
        for t in theorems:
            run.oblige("theorem %s.%s" % (module, t), False, "Properties/%s.vo does not build" % module)
        broken.append(("make Properties/%s.vo" % module, tail))
        return broken
    res, err = assumptions(module, theorems)
    for t in theorems:
        axs = res.get(t)
        if axs is None:
            run.oblige("theorem %s.%s" % (module, t), False, "theorem missing")
            broken.append(("theorem %s.%s" % (module, t), "not found in compiled module\n" + err[-800:]))
            continue
        if allowed_axioms:
            axs = [a for a in axs if not PRIM_PRINTED.search(a)]      # kernel primitives are not axioms of ours
        bad = [a for a in axs if not axiom_allowed(a, allowed_axioms)]
        run.oblige("theorem %s.%s" % (module, t), not bad,
                   "Print Assumptions: " + ("closed under the global context" if not axs else ", ".join(axs)))
        run.assume.append("%s.%s depends on: %s" % (module, t, "no axioms" if not axs else "standard-library axioms " + ", ".join(axs)))
        if bad:
            broken.append(("axioms of %s.%s" % (module, t), ", ".join(bad)))
    hits = scan_forbidden()
    run.oblige("no Admitted/Axiom/Parameter/guard switches in coq/", not hits, "; ".join(hits[:5]))
    if hits:
        broken.append(("forbidden vernacular", "\n".join(hits)))
    if run.tier == "thorough":
        # the independent checker re-checks the compiled property file and everything it depends on
        rc, out, dt = sh(["coqchk", "-o", "-silent", "-Q", COQ, "CE", "CE.Properties.%s" % module], cwd=COQ, timeout=3000)
        m = re.search(r"\* Axioms:(.*?)\n\s*\n", out, re.S)
        axioms = m.group(1).strip() if m else "?"
        # kernel primitives (63-bit integers, binary64 floats, arrays) are listed by coqchk among the axioms of any
        # development that loads them (MathComp's zify, Flocq, our correspondence helpers); they are not declarations of ours
        listed = [a.strip() for a in axioms.splitlines() if a.strip() and a.strip() != "<none>"]
        prim = [a for a in listed if re.match(r"Coq\.(Numbers\.Cyclic\.Int63\.(PrimInt63|Uint63|Sint63)|Floats\.(PrimFloat|FloatOps)|Array\.PArray)\.", a)]
        foreign = [a for a in listed if a not in prim and not axiom_allowed(a, allowed_axioms)]
        std = [a for a in listed if a not in prim and axiom_allowed(a, allowed_axioms)]
        if std:
            run.assume.append("coqchk: standard-library axioms loaded by Properties/%s: %s" % (module, ", ".join(std)))
        if prim:
            run.assume.append("coqchk lists %d kernel primitives (PrimInt63/PrimFloat) loaded through libraries; no other axiom" % len(prim))
        axioms = "<none>" if not foreign else ", ".join(foreign)
        clean = rc == 0 and axioms == "<none>" and "type-in-type: <none>" in out and "unsafe (co)fixpoints: <none>" in out \
            and "positivity is assumed: <none>" in out
        run.oblige("coqchk -o on Properties/%s: no axioms, no type-in-type, no unsafe fixpoints, no assumed positivity" % module, clean,
                   "axioms: %s (%.0f s)" % (axioms, dt))
        run.cov["coqchk_s"] = round(dt, 1)
        if not clean:
            broken.append(("coqchk Properties/%s" % module, out[-1500:]))
    return broken


# ---------------------------------------------------------------- sharded evaluation of case lists

def eval_shards(prefix, header, items, elem_type, evals, shard=150, timeout=900):
    """Write `items` (Coq terms of type elem_type) into shards `Definition cases : list elem_type := [...]`,
    append `Eval vm_compute in <e>.` for each e in evals, run all shards in parallel.
    Returns (results, errors): results[j] = concatenation over shards of the integers printed by eval j."""
    paths = []
    for k in range(0, max(len(items), 1), shard):
        chunk = items[k:k + shard]
        src = [header, "Definition cases : list %s := [\n %s\n]." % (elem_type, ";\n ".join(chunk))]
        src += ["Eval vm_compute in (%s)." % e for e in evals]
        paths.append(write_case_file("%s_%03d.v" % (prefix, k // shard), "\n".join(src) + "\n"))
    out = run_case_files(paths, timeout=timeout)
    results = [[] for _ in evals]
    errors = []
    for (p, rc, ev, raw, dt) in out:
        if rc != 0 or len(ev) != len(evals):
            errors.append((p, raw[-1500:]))
            continue
        for j, lst in enumerate(ev):
            results[j].extend(lst)
    return results, errors


def read_jsonl(text):
    return [json.loads(l) for l in text.splitlines() if l.strip()]
