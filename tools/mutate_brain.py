#!/usr/bin/env python3
import subprocess, sys, os, shutil
ROOT = "/tmp/agBB"
SRC = ROOT + "/repo_src/src/isotopic_pattern/baffling.rs"
ORIG = ROOT + "/scratch/baffling.orig.rs"
orig = open(ORIG).read()
MUT = [
 # (label, kind, old, new)
 ("A1 vietes: sign flipped", "break", "let sign = if i % 2 == 0 { 1.0 } else { -1.0 };\n        let el = sign", "let sign = if i % 2 == 1 { 1.0 } else { -1.0 };\n        let el = sign"),
 ("A2 update_esp: k > order -> k >= order", "break", "} else if k > (order as usize) {", "} else if k >= (order as usize) {"),
 ("A3 isotopic_variants: 1e-10 -> 1e-9", "break", "if peak.intensity < 1e-10 {", "if peak.intensity < 1e-9 {"),
 ("A4 vietes: index off by one", "break", "coefficients[n - i - 1] / tail", "coefficients[n - i] / tail"),
 ("A5 update_power_sum: operand order", "break", "temp_ps += sign * self.elementary_symmetric_polynomial[j] * self.power_sum[k - j];", "temp_ps += sign * self.power_sum[k - j] * self.elementary_symmetric_polynomial[j];"),
 ("A6 isotopic_variants: normalisation dropped", "break", "intensity: intensity_i / total,", "intensity: intensity_i,"),
 ("A7 update_power_sum: sign no longer alternates", "break", "for j in 1..k {\n                sign *= -1.0;", "for j in 1..k {\n                sign *= 1.0;"),
 ("A8 num_peaks: max(0) -> max(1)", "break", "Self::FixedCount(i) => i.saturating_sub(1).max(0),", "Self::FixedCount(i) => i.saturating_sub(1).max(1),"),
 ("A9 probability_vector: operand order", "break", "*= self.monoisotopic_peak.intensity * sign;", "*= sign * self.monoisotopic_peak.intensity;"),
 ("A10 center_mass_vector: one row fewer", "break", "for i in 0..(self.order + 1) as usize {", "for i in 0..self.order as usize {"),
 ("A11 update_order: min -> max", "break", "self.order = cmp::min(order, self.max_variants);", "self.order = cmp::max(order, self.max_variants);"),
 ("A12 isotopic_coefficients: operand order", "break", "cmp::Ordering::Equal => {\n                    accumulator.push(coef * isotope.abundance);", "cmp::Ordering::Equal => {\n                    accumulator.push(isotope.abundance * coef);"),
 ("A13 update: one zero fewer", "break", "(elt_params.order..self.order + 1).for_each(|_| {", "(elt_params.order..self.order).for_each(|_| {"),
 ("A14 max_variants: * -> +", "break", "elt.element.max_neutron_shift as i32 * *cnt", "elt.element.max_neutron_shift as i32 + *cnt"),
 ("A15 guess_npeaks: 0.9999 -> 0.999", "break", "composition.mass(), 0.9999) as i32;", "composition.mass(), 0.999) as i32;"),
 ("A16 phi_mass_for: cnt - 1 -> cnt", "break", "cnt - 1\n            } else {", "*cnt\n            } else {"),
 ("A17 isotopic_variants: charge test inverted", "break", "let adjusted_mz = if charge != 0 {", "let adjusted_mz = if charge == 0 {"),
 ("B1 vietes: local renamed, parentheses, let reordered", "harmless", "    let mut esp = DVec::with_capacity(n);\n    let tail = coefficients[n - 1];\n    for i in 0..n {\n        let sign = if i % 2 == 0 { 1.0 } else { -1.0 };\n        let el = sign * coefficients[n - i - 1] / tail;\n        esp.push(el);",
      "    let tail = coefficients[n - 1];\n    let mut esp = DVec::new();\n    for i in 0..n {\n        let sgn_i = if i % 2 == 0 { 1.0 } else { -1.0 };\n        // comment\n        let quotient = ((sgn_i * coefficients[(n - i) - 1]) / tail);\n        esp.push(quotient);"),
 ("B2 update_power_sum: unused let, with_capacity dropped, else-branch made explicit", "harmless", "            if k == 0 {\n                self.power_sum.push(0.0);\n                continue;\n            }\n            let mut temp_ps = 0.0;", "            let _unused = k + 1;\n            if k == 0 {\n                self.power_sum.push(0.0);\n                continue;\n            }\n            let mut temp_ps: f64 = 0.0;"),
 ("B3 isotopic_variants: peak fields inlined differently", "harmless", "            let peak = Peak {\n                mz: adjusted_mz,\n                intensity: intensity_i / total,\n            };", "            let share = intensity_i / total;\n            let peak = Peak {\n                intensity: share,\n                mz: adjusted_mz,\n            };"),
 ("B4 newton_optimization: arms reordered", "harmless", "            cmp::Ordering::Less => self.update_power_sum(),\n            cmp::Ordering::Equal => {}\n            cmp::Ordering::Greater => self.update_elementary_symmetric_polynomial(order),", "            cmp::Ordering::Greater => { self.update_elementary_symmetric_polynomial(order); }\n            cmp::Ordering::Equal => {}\n            cmp::Ordering::Less => { self.update_power_sum(); }"),
 ("C1 vietes rewritten with a while loop", "outside", "    for i in 0..n {\n        let sign = if i % 2 == 0 { 1.0 } else { -1.0 };\n        let el = sign * coefficients[n - i - 1] / tail;\n        esp.push(el);\n    }\n    esp", "    let mut i = 0;\n    while i < n {\n        let sign = if i % 2 == 0 { 1.0 } else { -1.0 };\n        esp.push(sign * coefficients[n - i - 1] / tail);\n        i += 1;\n    }\n    esp"),
 ("C2 max_variants rewritten with a closure variable and fold over a tuple index", "outside", "    let acc = composition\n        .iter()\n        .map(|(elt, cnt)| elt.element.max_neutron_shift as i32 * *cnt)\n        .sum();\n    acc", "    composition.iter().map(|p| p.0.element.max_neutron_shift as i32 * p.1).rev().sum()"),
 ("C4 vietes: a map closure that pushes to an outer Vec", "outside", "    let tail = coefficients[n - 1];\n    for i in 0..n {", "    let tail = coefficients[n - 1];\n    let _s: f64 = (0..n).map(|i| { esp.push(coefficients[i]); 1.0 }).sum();\n    for i in 0..n {"),
 ("C5 isotopic_coefficients: the &mut parameter shadowed", "outside", "        let n = element.isotopes.len();\n", "        let n = element.isotopes.len();\n        let accumulator = &mut DVec::new();\n"),
 ("B5 phi_for: loop variable names, redundant parentheses, `element` inlined", "harmless", "            let element = elt.element;\n            phi += self\n                .constants\n                .nth_element_power_sum(element.symbol.as_ref(), order)\n                * (*cnt as f64);", "            phi += (self.constants.nth_element_power_sum(elt.element.symbol.as_ref(), order)) * ((*cnt) as f64);"),
 ("C3 update_order with a match on a literal", "outside", "        if order == -1 {\n            self.order = self.max_variants;\n        } else {\n            self.order = cmp::min(order, self.max_variants);\n        }", "        self.order = match order {\n            -1 => self.max_variants,\n            _ => cmp::min(order, self.max_variants),\n        };"),
]
only = sys.argv[1:]
env = dict(os.environ, VERIF_REPO=ROOT + "/repo_src")
for label, kind, old, new in MUT:
    if only and not any(label.startswith(o) for o in only):
        continue
    if orig.count(old) != 1:
        print("## %s: PATTERN FOUND %d TIMES" % (label, orig.count(old))); continue
    open(SRC, "w").write(orig.replace(old, new))
    r = subprocess.run(["python3", ROOT + "/tools/gen_brain.py", "--ties"], env=env, stdout=subprocess.PIPE, stderr=subprocess.STDOUT, universal_newlines=True)
    lines = r.stdout.splitlines()
    bad = [l for l in lines if l.startswith("tie ") and not l.endswith(": OK")]
    skipped = [l for l in lines if l.startswith("skipped ")]
    print("## %s [%s] exit=%d" % (label, kind, r.returncode))
    for l in skipped: print("   " + l[:200])
    for l in bad: print("   " + l[:160])
    if not bad: print("   all ties OK")
    sys.stdout.flush()
open(SRC, "w").write(orig)
r = subprocess.run(["python3", ROOT + "/tools/gen_brain.py"], env=env, stdout=subprocess.PIPE, stderr=subprocess.STDOUT, universal_newlines=True)
print("## restored: " + r.stdout.strip().splitlines()[-1][:120])
