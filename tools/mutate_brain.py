#!/usr/bin/env python3
"""Mutation driver for the source tie of src/isotopic_pattern/baffling.rs (tools/gen_brain.py, coq/proofs/BrainTie.v).

Every mutation is applied to a scratch copy of the crate, translated, and the 26 tie blocks are compiled twice:
  strict  `gen_brain.py --ties`          model = translation for every Num (bit for bit for IEEE doubles)
  field   `gen_brain.py --ties --field`  model = translation for every ordered field (OField)
and a table  label / kind / strict / field  is printed.  Kinds:
  break     changes what the function computes in exact arithmetic: must be FAILED in both modes
  field     equal over every ordered field, different for doubles (operand order, x/t -> x*(1/t), mul_add, ..):
            strict FAILED on the touched function, field OK
  harmless  a structural edit the translator absorbs: OK in both modes
  outside   leaves the translated subset: the function is SKIPPED
  patch     a diff of harmless/ (applied with patch -p1); reported, no expectation
A cell is `OK` (all 26 ties), or `FAILED f (+n)` = the first failing tie, n further ones (its dependents) failing with it,
or `SKIPPED f (+n)`.  The last column says whether the row is as expected.

  python3 tools/mutate_brain.py [label-prefix ...]      e.g.  mutate_brain.py A9 F  (no argument: everything)
"""
import subprocess, sys, os, shutil
ROOT = os.path.dirname(os.path.dirname(os.path.abspath(__file__)))
PRISTINE = os.environ.get("MUTATE_REPO", ROOT + "/repo_src")
SCRATCH = ROOT + "/scratch_repo"
REL = "src/isotopic_pattern/baffling.rs"
orig = open(os.path.join(PRISTINE, REL)).read()
MUT = [
 # (label, kind, old, new)
 ("A1 vietes: sign flipped", "break", "let sign = if i % 2 == 0 { 1.0 } else { -1.0 };\n        let el = sign", "let sign = if i % 2 == 1 { 1.0 } else { -1.0 };\n        let el = sign"),
 ("A2 update_esp: k > order -> k >= order", "break", "} else if k > (order as usize) {", "} else if k >= (order as usize) {"),
 ("A3 isotopic_variants: 1e-10 -> 1e-9", "break", "if peak.intensity < 1e-10 {", "if peak.intensity < 1e-9 {"),
 ("A4 vietes: index off by one", "break", "coefficients[n - i - 1] / tail", "coefficients[n - i] / tail"),
 ("A5 update_power_sum: operand order (s*e*p -> s*p*e)", "field", "temp_ps += sign * self.elementary_symmetric_polynomial[j] * self.power_sum[k - j];", "temp_ps += sign * self.power_sum[k - j] * self.elementary_symmetric_polynomial[j];"),
 ("A6 isotopic_variants: normalisation dropped", "break", "intensity: intensity_i / total,", "intensity: intensity_i,"),
 ("A7 update_power_sum: sign no longer alternates", "break", "for j in 1..k {\n                sign *= -1.0;", "for j in 1..k {\n                sign *= 1.0;"),
 ("A8 num_peaks: max(0) -> max(1)", "break", "Self::FixedCount(i) => i.saturating_sub(1).max(0),", "Self::FixedCount(i) => i.saturating_sub(1).max(1),"),
 ("A9 probability_vector: operand order (intensity*sign -> sign*intensity)", "field", "*= self.monoisotopic_peak.intensity * sign;", "*= sign * self.monoisotopic_peak.intensity;"),
 ("A10 center_mass_vector: one row fewer", "break", "for i in 0..(self.order + 1) as usize {", "for i in 0..self.order as usize {"),
 ("A11 update_order: min -> max", "break", "self.order = cmp::min(order, self.max_variants);", "self.order = cmp::max(order, self.max_variants);"),
 ("A12 isotopic_coefficients: operand order (coef*ab -> ab*coef, Equal arm)", "field", "cmp::Ordering::Equal => {\n                    accumulator.push(coef * isotope.abundance);", "cmp::Ordering::Equal => {\n                    accumulator.push(isotope.abundance * coef);"),
 ("A13 update: one zero fewer", "break", "(elt_params.order..self.order + 1).for_each(|_| {", "(elt_params.order..self.order).for_each(|_| {"),
 ("A14 max_variants: * -> +", "break", "elt.element.max_neutron_shift as i32 * *cnt", "elt.element.max_neutron_shift as i32 + *cnt"),
 ("A15 guess_npeaks: 0.9999 -> 0.999", "break", "composition.mass(), 0.9999) as i32;", "composition.mass(), 0.999) as i32;"),
 ("A16 phi_mass_for: cnt - 1 -> cnt", "break", "cnt - 1\n            } else {", "*cnt\n            } else {"),
 ("A17 isotopic_variants: charge test inverted", "break", "let adjusted_mz = if charge != 0 {", "let adjusted_mz = if charge == 0 {"),
 ("B1 vietes: local renamed, parentheses, let reordered", "harmless", "    let mut esp = DVec::with_capacity(n);\n    let tail = coefficients[n - 1];\n    for i in 0..n {\n        let sign = if i % 2 == 0 { 1.0 } else { -1.0 };\n        let el = sign * coefficients[n - i - 1] / tail;\n        esp.push(el);",
      "    let tail = coefficients[n - 1];\n    let mut esp = DVec::new();\n    for i in 0..n {\n        let sgn_i = if i % 2 == 0 { 1.0 } else { -1.0 };\n        // comment\n        let quotient = ((sgn_i * coefficients[(n - i) - 1]) / tail);\n        esp.push(quotient);"),
 ("B2 update_power_sum: unused let, with_capacity dropped, else-branch made explicit", "harmless", "            if k == 0 {\n                self.power_sum.push(0.0);\n                continue;\n            }\n            let mut temp_ps = 0.0;", "            let _unused = k + 1;\n            if k == 0 {\n                self.power_sum.push(0.0);\n                continue;\n            }\n            let mut temp_ps: f64 = 0.0;"),
 ("B3 isotopic_variants: peak fields inlined differently", "harmless", "            let peak = Peak {\n                mz: adjusted_mz,\n                intensity: intensity_i / total,\n            };", "            let share = intensity_i / total;\n            let peak = Peak {\n                intensity: share,\n                mz: adjusted_mz,\n            };"),
 ("B4 newton_optimization: arms reordered", "harmless", "            cmp::Ordering::Less => self.update_power_sum(),\n            cmp::Ordering::Equal => {}\n            cmp::Ordering::Greater => self.update_elementary_symmetric_polynomial(order),", "            cmp::Ordering::Greater => { self.update_elementary_symmetric_polynomial(order); }\n            cmp::Ordering::Equal => {}\n            cmp::Ordering::Less => { self.update_power_sum(); }"),
 ("C1 vietes rewritten with a while loop", "outside", "    for i in 0..n {\n        let sign = if i % 2 == 0 { 1.0 } else { -1.0 };\n        let el = sign * coefficients[n - i - 1] / tail;\n        esp.push(el);\n    }\n    esp", "    let mut i = 0;\n    while i < n {\n        let sign = if i % 2 == 0 { 1.0 } else { -1.0 };\n        esp.push(sign * coefficients[n - i - 1] / tail);\n        i += 1;\n    }\n    esp"),
 ("C2 max_variants rewritten with a closure variable and fold over a tuple index", "outside", "    let acc = composition\n        .iter()\n        .map(|(elt, cnt)| elt.element.max_neutron_shift as i32 * *cnt)\n        .sum();\n    acc", "    composition.iter().map(|p| p.0.element.max_neutron_shift as i32 * p.1).rev().sum()"),
 ("C4 vietes: a map closure that pushes to an outer Vec", "outside", "    let tail = coefficients[n - 1];\n    for i in 0..n {", "    let tail = coefficients[n - 1];\n    let _s: f64 = (0..n).map(|i| { esp.push(coefficients[i]); 1.0 }).sum();\n    for i in 0..n {"),
 ("C5 isotopic_coefficients: the &mut parameter shadowed", "outside", "        let n = element.isotopes.len();\n", "        let n = element.isotopes.len();\n        let accumulator = &mut DVec::new();\n"),
 ("B5 phi_for: loop variable names, redundant parentheses, `element` inlined", "harmless", "            let element = elt.element;\n            phi += self\n                .constants\n                .nth_element_power_sum(element.symbol.as_ref(), order)\n                * (*cnt as f64);", "            phi += (self.constants.nth_element_power_sum(elt.element.symbol.as_ref(), order)) * ((*cnt) as f64);"),
 ("C3 update_order with a match on a literal", "outside", "        if order == -1 {\n            self.order = self.max_variants;\n        } else {\n            self.order = cmp::min(order, self.max_variants);\n        }", "        self.order = match order {\n            -1 => self.max_variants,\n            _ => cmp::min(order, self.max_variants),\n        };"),
 # ---- field-equal rewrites: equal over every ordered field, different for IEEE doubles
 ("F1 update_power_sum: product re-associated", "field", "temp_ps += sign * self.elementary_symmetric_polynomial[j] * self.power_sum[k - j];", "temp_ps += sign * (self.elementary_symmetric_polynomial[j] * self.power_sum[k - j]);"),
 ("F2 isotopic_variants: / total -> * (1.0 / total)", "field", "intensity: intensity_i / total,", "intensity: intensity_i * (1.0 / total),"),
 ("F3 update_power_sum: sign *= -1.0 -> sign = -sign (in the loop)", "field", "for j in 1..k {\n                sign *= -1.0;", "for j in 1..k {\n                sign = -sign;"),
 ("F4 update_power_sum: a*b + c -> mul_add", "field", "temp_ps += sign * self.elementary_symmetric_polynomial[j] * self.power_sum[k - j];", "temp_ps = (sign * self.elementary_symmetric_polynomial[j]).mul_add(self.power_sum[k - j], temp_ps);"),
 ("F5 center_mass_vector: sum re-associated/commuted, product regrouped", "field", "center += (*cnt as f64) * (sign * polynomial_term) * base_intensity * mono_mass;", "center = mono_mass * (base_intensity * ((*cnt as f64) * sign * polynomial_term)) + center;"),
 ("F6 center_mass_vector: center / p -> center * (1.0 / p)", "field", "mass_vector.push(center / probability_vector[i]);", "mass_vector.push(center * (1.0 / probability_vector[i]));"),
 ("F7 update_esp: sum / k -> (1.0 / k) * sum", "field", "                let el = (1..k + 1)\n", "                let el = (1.0 / k as f64) * (1..k + 1)\n", ("                    .sum::<f64>()\n                    / k as f64;", "                    .sum::<f64>();")),
 ("F8 vietes: (s*c)/tail -> s*(c/tail)", "field", "let el = sign * coefficients[n - i - 1] / tail;", "let el = sign * (coefficients[n - i - 1] / tail);"),
 ("F9 phi_for: phi += p*c -> phi = c*p + phi", "field", "            phi += self\n                .constants\n                .nth_element_power_sum(element.symbol.as_ref(), order)\n                * (*cnt as f64);", "            phi = (*cnt as f64) * self.constants.nth_element_power_sum(element.symbol.as_ref(), order) + phi;"),
 ("F10 update_power_sum: last sign flip as 0.0 - sign, k as f64 first", "field", "            sign *= -1.0;\n            temp_ps += sign * self.elementary_symmetric_polynomial[k] * (k as f64);", "            sign = 0.0 - sign;\n            temp_ps += (k as f64) * sign * self.elementary_symmetric_polynomial[k];"),
 ("F11 isotopic_variants: the 1e-10 test on a commuted product", "field", "            if peak.intensity < 1e-10 {", "            if (1.0 / total) * intensity_i < 1e-10 {"),
 # ---- more semantics-changing mutations
 ("A18 update_power_sum: a - b -> b - a (k - j -> j - k)", "break", "self.power_sum[k - j];", "self.power_sum[j - k];"),
 ("A19 update_esp: wrong index (power_sum[j] -> power_sum[k])", "break", "sign * self.power_sum[j] * self.elementary_symmetric_polynomial[k - j]", "sign * self.power_sum[k] * self.elementary_symmetric_polynomial[k - j]"),
 ("A20 update_esp: literal 1.0 -> 2.0 (k == 0)", "break", "self.elementary_symmetric_polynomial.push(1.0);", "self.elementary_symmetric_polynomial.push(2.0);"),
 ("A21 isotopic_variants: < -> <= in the 1e-10 rule", "break", "if peak.intensity < 1e-10 {", "if peak.intensity <= 1e-10 {"),
 ("A22 center_mass_vector: base_intensity dropped", "break", "center += (*cnt as f64) * (sign * polynomial_term) * base_intensity * mono_mass;", "center += (*cnt as f64) * (sign * polynomial_term) * mono_mass;"),
 ("A23 isotopic_variants: intensity_i / total -> total / intensity_i", "break", "intensity: intensity_i / total,", "intensity: total / intensity_i,"),
 ("A24 update_power_sum: temp_ps += -> temp_ps -= (a + b -> a - b)", "break", "temp_ps += sign * self.elementary_symmetric_polynomial[j] * self.power_sum[k - j];", "temp_ps -= sign * self.elementary_symmetric_polynomial[j] * self.power_sum[k - j];"),
 ("A25 phi_mass_for: mass term dropped", "break", "        phi += self\n            .constants\n            .nth_element_power_sum_mass(element.element.symbol.as_ref(), order);\n        phi\n", "        phi\n"),
 ("A26 center_mass_vector: center / p -> center * p", "break", "mass_vector.push(center / probability_vector[i]);", "mass_vector.push(center * probability_vector[i]);"),
 ("A27 update_power_sum: sign = -sign only every other step (sign *= -1.0 -> sign *= sign)", "break", "for j in 1..k {\n                sign *= -1.0;", "for j in 1..k {\n                sign *= sign;"),
 ("A28 probability_vector: x * (i*s) -> x + (i*s)", "break", "params.elementary_symmetric_polynomial[i] *= self.monoisotopic_peak.intensity * sign;", "params.elementary_symmetric_polynomial[i] += self.monoisotopic_peak.intensity * sign;"),
 ("A29 isotopic_variants: x / total -> x * (1.0 / x)", "break", "intensity: intensity_i / total,", "intensity: intensity_i * (1.0 / intensity_i),"),
]

PATCHES = [
 ("H10 Newton signs by parity (harmless/H10)", "patch", "harmless/H10_brain_sign_by_parity.diff"),
 ("H13 (harmless/H13_agent_C03)", "patch", "harmless/H13_agent_C03.diff"),
 ("H18 (harmless/H18_agent_C08)", "patch", "harmless/H18_agent_C08.diff"),
 ("H19 (harmless/H19_agent_C09)", "patch", "harmless/H19_agent_C09.diff"),
]


def fresh_scratch():
    shutil.rmtree(SCRATCH, ignore_errors=True)
    os.makedirs(SCRATCH)
    shutil.copytree(os.path.join(PRISTINE, "src"), os.path.join(SCRATCH, "src"))


def summarise(ties):
    bad = [l for l in ties if not l.endswith(": OK")]
    if not bad:
        return "OK", []
    skipped = [l.split()[1].rstrip(":") for l in bad if ": SKIPPED" in l]
    failed = [l.split()[1].rstrip(":") for l in bad if ": SKIPPED" not in l]
    first = (skipped or failed)[0]
    word = "SKIPPED" if skipped else "FAILED"
    return "%s %s%s" % (word, first, " (+%d)" % (len(bad) - 1) if len(bad) > 1 else ""), bad


def run_ties():
    """both modes in one run of the translator (the generated file is compiled once)"""
    env = dict(os.environ, VERIF_REPO=SCRATCH)
    r = subprocess.run(["python3", ROOT + "/tools/gen_brain.py", "--ties", "--both"], env=env, stdout=subprocess.PIPE, stderr=subprocess.STDOUT, universal_newlines=True)
    ties = [l for l in r.stdout.splitlines() if l.startswith("tie ")]
    if not ties:
        msg = "NO RESULT (%s)" % (r.stdout.strip().splitlines() or ["?"])[-1][:80]
        return (msg, []), (msg, [])
    pick = lambda mode: [l.replace(" [%s]" % mode, "", 1) for l in ties if (" [%s]: " % mode) in l]
    return summarise(pick("strict")), summarise(pick("field"))


def verdict(kind, strict, field):
    ok = lambda c: c == "OK"
    if kind == "break":
        return "as expected" if strict.startswith("FAILED") and field.startswith("FAILED") else "UNEXPECTED"
    if kind == "field":
        return "as expected" if strict.startswith("FAILED") and ok(field) else "UNEXPECTED"
    if kind == "harmless":
        return "as expected" if ok(strict) and ok(field) else "UNEXPECTED"
    if kind == "outside":
        return "as expected" if strict.startswith("SKIPPED") and field.startswith("SKIPPED") else "UNEXPECTED"
    return ""


def main():
    only = [a for a in sys.argv[1:] if not a.startswith("-")]
    verbose = "-v" in sys.argv[1:]
    want = lambda label: not only or any(label.startswith(o) for o in only)
    rows = []
    def one(label, kind):
        (strict, bs), (field, bf) = run_ties()
        rows.append((label, kind, strict, field, verdict(kind, strict, field)))
        print("## %-90s %-8s strict: %-40s field: %-40s %s" % rows[-1])
        if verbose:
            for l in bs: print("     strict " + l[:220])
            for l in bf: print("     field  " + l[:220])
        sys.stdout.flush()
    if want("U0"):
        fresh_scratch()
        one("U0 unchanged source", "harmless")
    for m in MUT:
        label, kind, reps = m[0], m[1], [(m[2], m[3])] + list(m[4:])
        if not want(label):
            continue
        text, bad = orig, False
        for old, new in reps:
            if text.count(old) != 1:
                print("## %s: PATTERN FOUND %d TIMES" % (label, text.count(old))); bad = True; break
            text = text.replace(old, new)
        if bad:
            continue
        fresh_scratch()
        open(os.path.join(SCRATCH, REL), "w").write(text)
        one(label, kind)
    for label, kind, diff in PATCHES:
        if not want(label):
            continue
        fresh_scratch()
        r = subprocess.run(["patch", "-p1", "-s", "-i", os.path.join(ROOT, diff)], cwd=SCRATCH, stdout=subprocess.PIPE, stderr=subprocess.STDOUT, universal_newlines=True)
        if r.returncode != 0:
            print("## %s: patch does not apply to src/: %s" % (label, r.stdout.strip().splitlines()[-1:]))
        one(label, kind)
    # restore coq/gen/BrainGen.v (and its .vo) from the pristine source
    fresh_scratch()
    r = subprocess.run(["python3", ROOT + "/tools/gen_brain.py", "--ties", "--only=polymap_new"], env=dict(os.environ, VERIF_REPO=SCRATCH),
                       stdout=subprocess.PIPE, stderr=subprocess.STDOUT, universal_newlines=True)
    print("## restored: " + r.stdout.strip().splitlines()[0][:100])
    shutil.rmtree(SCRATCH, ignore_errors=True)
    w = max(len(r[0]) for r in rows) if rows else 10
    print()
    print("%-*s | %-8s | %-38s | %-38s | %s" % (w, "label", "kind", "strict", "field", ""))
    print("-" * (w + 100))
    for r in rows:
        print("%-*s | %-8s | %-38s | %-38s | %s" % ((w,) + r))
    return 1 if any(r[4] == "UNEXPECTED" for r in rows) else 0


if __name__ == "__main__":
    sys.exit(main())
