#!/usr/bin/env python3
"""Translate what src/props.rs generates for the composition types (the impls written out there AND the bodies of its
`macro_rules!` macros, expanded at every invocation found in the file) and the enum wrapper src/abstract_composition.rs
into a SHALLOW embedding in Gallina -> coq/gen/PropsGen.v.  coq/proofs/PropsTie.v then proves that the hand-written
model (coq/model/CompOps.v: the register machine `apply` with one `cop` constructor per operator form; coq/model/Comp.v:
e_add / e_sub / e_mul / e_neg / e_copy / e_get ..) computes exactly what this translation computes.

The vocabulary is that of coq/model/ImpC.v (containers `ccomp F`, panic results `pres`, `for_each_p`) and
coq/model/ImpP.v (the enum `acomp F = AVec c | AMap c`, a generic `C: ChemicalCompositionLike` operand `clike F = LVec c |
LMap c | LEnum a`).  Calls of methods of the two containers are calls of the definitions of coq/gen/CompGen.v
(`v_*_gen` / `m_*_gen`, tools/gen_comp.py), resolved the way rustc resolves them: an inherent method before a trait
method; `x.index(..)` / `x.index_mut(..)` by the type of the argument; `a op= b` / `x.into()` / `it.collect()` through the
`impl` of the operator trait / `From` / `FromIterator` for the types at hand; a method of a generic `C` through the
`impl ChemicalCompositionLike for ..` of each of the three types (`like_<m>_gen`, a generated dispatch).

Every function is translated INDEPENDENTLY: a function whose body is outside the subset is skipped (`skipped <name>:
<construct>` on stdout, its name in `props_gen_skipped` in PropsGen.v), and so is a function that calls a skipped one.
Only a broken FILE STRUCTURE (unbalanced brackets, a macro with several rules or an invocation with the wrong number of
arguments, no `enum ChemicalComposition { Vec(ChemicalCompositionVec), Map(ChemicalCompositionMap) }`, no inherent impl of
it, what gen_comp.py calls a broken structure of the two containers) makes the translator exit 3.

  python3 tools/gen_props.py            regenerate coq/gen/PropsGen.v (rewritten only when its content changes)
  python3 tools/gen_props.py --ties     additionally compile coq/proofs/PropsTie.v block by block (a block = the lemmas
                                        of one function, between `(* BEGIN TIE f (needs: ...) *)` and `(* END TIE f *)`)
                                        and print `tie <f>: OK | FAILED | SKIPPED` for every function
The source root is $VERIF_REPO (default /repo).

FUNCTIONS (generated name <- source; p = v | m | a for ChemicalCompositionVec | ..Map | the enum, r for
ChemicalCompositionRef; a leading `_` of a source name is dropped)
  p_add_ref p_sub_ref / p_add_val p_sub_val           <- impl Add / Sub<&C> for &T / for T         (impl_arithmetic!)
  p_add_assign p_sub_assign / .._assign_mut           <- impl AddAssign / SubAssign<&C> for T / for &mut T
  p_mul_ref p_mul_val p_mul_assign p_mul_assign_mut   <- impl Mul<i32> for &T / T, MulAssign<i32> for T / &mut T
  p_neg p_neg_ref                                     <- impl Neg for T / for &T
  y_from_x                                            <- impl From<X> for Y                        (impl_from!, and r_from_..)
  a_from_pairs_str a_from_pairs_spec                  <- impl From<Vec<(&str, i32)>> / From<Vec<(ElementSpecification, i32)>>
  a_from_iter_str a_from_iter_spec                    <- impl FromIterator<(&str, i32)> / <(&ElementSpecification, &i32)>
  lv_<m> lm_<m> la_<m>                                <- impl ChemicalCompositionLike for T
  like_<m>                                            <- the dispatch of a method of a generic C over these three impls
  p_into_iter                                         <- impl IntoIterator for &T
  a_<m> r_<m>                                         <- the inherent impls of abstract_composition.rs
  a_index a_index_mut a_index_str a_index_mut_str r_index r_index_str  <- impl Index / IndexMut<&ElementSpecification | &str>
  a_default a_eq                                      <- impl Default / PartialEq
NOT attempted: the provided (default) methods of the trait ChemicalCompositionLike (every impl overrides them), parse /
parse_with / FromStr / Display (the formula parser and printer: gen_formula.py / gen_render.py), the impls for Iter and
IterMut (`next`, `len`): an Iter is translated as the list of the entries it will yield.

TRANSLATION (state-passing; Gallina shadowing = the new value; see gen_comp.py for the common part)
  * `fn f(&self | self, ..) -> T` -> pres T;  `fn f(&mut self, ..) -> T` -> S * pres T (the value of `self` as the call
    leaves it, also when it panics); `impl .. for &mut T { fn f(&mut self ..) }`: the same, `self` is the T.
  * `x.clone()` (x: a container whose type derives Clone) -> x: the entries AND the mass cache.
  * `T::default()` (T: a container that derives Default) -> mkCC [] None.
  * a call of a `&mut self` method on a mutable container variable x -> let '(x, r) := f_gen .. x .. in match r with PPanic
    => <panic> | POk t => .. end.
  * `match e { E::Vec(x) => a, E::Map(x) => b }` -> match e with AVec x => a | AMap x => b end; when e is a mutable place,
    x aliases its payload: after every change of x, e is rebuilt (let self := AVec x in).
  * `IT.for_each(|(k, v)| { body })` and `for (k, v) in IT { body }` (IT: the entries of a container, or a Vec of pairs)
    -> match for_each_p IT (fun '(k, v) st => body .. inl st) st with inl st => rest | inr st => <panic> end, st the one
    mutable container the body changes.
  * `*x op= e` (x: a container) -> the call of `impl OpAssign<..> for T`;  `*x.index_mut(k) op= e` -> the call of
    index_mut, then v_place_upd / m_place_upd through the returned place.
  * `E::Vec(e)` / `Self::Map(e)` -> AVec e / AMap e;  `Iter::Vec(e)` / `IterMut::Map(e)` -> e.
  * `it.all(|x| e)` / `it.any(|x| e)` -> forallb / existsb (fun x => e) it when e has no effect; `it.all(|x| e)` with a
    body that calls functions -> all_p (fun x => e : pres bool) it (ImpP.v: evaluated up to the first false or panic).
    `a == b` on ElementSpecification -> eq_gen (ESpecGen.v), on i32 / usize -> Z.eqb / Nat.eqb, `&&` -> andb.
Typing is checked; everything else is refused (the function is skipped)."""
import os, re, subprocess, sys, tempfile
sys.path.insert(0, os.path.dirname(os.path.abspath(__file__)))
from gen_src import Refuse
from gen_poisson import ind, strip, atom
import gen_espec, gen_comp
from gen_espec import Structure, is_op, split_items, drop_vis, skip_angle
from gen_comp import Parser, unparen

COQ = gen_comp.COQ
OUT = os.path.join(COQ, "gen", "PropsGen.v")
TIE = os.path.join(COQ, "proofs", "PropsTie.v")
FILES = ["props.rs", "abstract_composition.rs"]
TYPE_OF = {"ChemicalCompositionVec": "V", "ChemicalCompositionMap": "M", "ChemicalComposition": "A",
           "ChemicalCompositionRef": "R", "Iter": "Ents", "IterMut": "IterMut"}
PFX = {"V": "v", "M": "m", "A": "a", "R": "r"}
CONT = ("V", "M", "A", "R")
CTOR = {("A", "Vec"): ("AVec", "V"), ("A", "Map"): ("AMap", "M"), ("R", "Vec"): ("AVec", "V"), ("R", "Map"): ("AMap", "M")}
SPEC = "ElementSpecification"
PRE = "N PERIODIC_TABLE uni_alphabetic shuffle"
NOT_ATTEMPTED = ("parse", "parse_with", "from_str", "fmt")
RESERVED = gen_comp.RESERVED | set("all_p acomp clike aplace AVec AMap LVec LMap LEnum PVec PMap a_inner afam acomp_of lents lcomp "
                                   "a_place_upd pres_map lift_fst sum_map a_with l_inner".split())


# ------------------------------------------------------------------ parsing: patterns with tuple-struct constructors
class PParser(Parser):
    def pattern(self, closure=False):
        if self.peek()[0] == "id" and self.peek(1) == ("op", "::") and self.peek()[1] not in ("Some", "Ok", "Err", "None"):
            segs = [self.take(kind="id")]
            while self.at("::"):
                self.take(); segs.append(self.take(kind="id"))
            if self.at("{"):
                raise Refuse("struct pattern near `%s`" % self.context())
            if self.at("("):
                self.take()
                ps = [self.pattern()]
                while self.at(","):
                    self.take()
                    if self.at(")"):
                        break
                    ps.append(self.pattern())
                self.take(")")
                if len(ps) != 1:
                    raise Refuse("constructor pattern with %d fields" % len(ps))
                return ("pctor2", segs, ps[0])
            return ("ppath", segs)
        return Parser.pattern(self, closure)


def parse_sig(head):
    """`fn name [<G>] (params) [-> type] [where ..]` -> name, selfkind (None | own | ownmut | ref | mut), [(param, type)],
    return type or None, names of the generic parameters"""
    p = PParser(list(head))
    p.take("fn")
    name = p.take(kind="id")
    gens = []
    if p.at("<"):
        d, first = 0, True
        while True:
            t = p.peek()
            if t[0] == "eof":
                raise Refuse("generic parameters")
            p.i += 1
            if is_op(t, "<"):
                d += 1; first = d == 1
                continue
            if is_op(t, ">"):
                d -= 1
                if d == 0:
                    break
                continue
            if d == 1 and is_op(t, ","):
                first = True
                continue
            if d == 1 and first and t[0] == "id":
                gens.append(t[1])
            first = False
    p.take("(")
    selfkind, params, first = None, [], True
    while not p.at(")"):
        if not first:
            p.take(",")
            if p.at(")"):
                break
        if first and p.at("self"):
            p.take(); selfkind = "own"
        elif first and p.at("mut", "self"):
            p.take(); p.take(); selfkind = "ownmut"
        elif first and p.at("&") and (p.peek(1)[1] == "self" or p.peek(2)[1] == "self" or
                                       (p.peek(1)[0] == "life" and p.peek(3)[1] == "self")):
            p.take()
            if p.peek()[0] == "life":
                p.take()
            selfkind = "ref"
            if p.at("mut"):
                p.take(); selfkind = "mut"
            p.take("self")
        else:
            if p.at("mut"):
                raise Refuse("`mut` parameter near `%s`" % p.context())
            a = p.take(kind="id"); p.take(":")
            params.append((a, p.type_()))
        first = False
    p.take(")")
    rty = None
    if p.at("->"):
        p.take(); rty = p.type_()
    if not p.at("where"):
        p.end()
    return name, selfkind, params, rty, gens


def split_commas(toks):
    out, cur, d = [], [], 0
    for t in toks:
        if t[0] == "op" and t[1] in ("<", "(", "[", "{"):
            d += 1
        elif t[0] == "op" and t[1] in (">", ")", "]", "}"):
            d -= 1
        if is_op(t, ",") and d == 0:
            out.append(cur); cur = []
        else:
            cur.append(t)
    if cur:
        out.append(cur)
    return out


class Impl:
    pass


def parse_impl(head, body, rel):
    """`impl [<G>] [Trait<args> for] [& [mut]] Type<..>` -> Impl"""
    im = Impl()
    h = list(head[1:])
    im.generics = {}
    if h and is_op(h[0], "<"):
        e = skip_angle(h, 0)
        for part in split_commas(h[1:e - 1]):
            if part and part[0][0] == "id":
                bound = None
                for k, t in enumerate(part):
                    if is_op(t, ":") and k + 1 < len(part) and part[k + 1][0] == "id":
                        bound = part[k + 1][1]
                        break
                im.generics[part[0][1]] = bound
        h = h[e:]
    d, at = 0, None
    for k, t in enumerate(h):
        d += is_op(t, "<")
        d -= is_op(t, ">")
        if d == 0 and t == ("id", "for"):
            at = k
    tr, st = (h[:at], h[at + 1:]) if at is not None else (None, h)
    d = 0
    for k, t in enumerate(st):
        d += is_op(t, "<")
        d -= is_op(t, ">")
        if d == 0 and t == ("id", "where"):
            st = st[:k]
            break
    im.ref = "own"
    if st and is_op(st[0], "&"):
        st = st[1:]; im.ref = "ref"
        if st and st[0][0] == "life":
            st = st[1:]
        if st and st[0] == ("id", "mut"):
            st = st[1:]; im.ref = "mut"
    try:
        p = PParser(st); im.selfast = p.type_(); p.end()
        im.trait, im.targs = None, []
        if tr is not None:
            p = PParser(tr); t = p.type_(); p.end()
            if t[0] != "path":
                raise Refuse("trait")
            im.trait, im.targs = t[1][-1], t[2]
    except Refuse as e:
        raise Structure("%s: impl header `%s`: %s" % (rel, " ".join(v for _, v in head[:12]), e))
    im.assoc, im.fns = {}, []
    for h2, b2 in split_items(body, "%s: impl" % rel):
        h2 = drop_vis(h2)
        h2v = [v for _, v in h2]
        if h2v[:1] == ["fn"] and b2 is not None:
            im.fns.append((h2v[1], h2, b2))
        elif h2v[:1] == ["type"] and len(h2v) > 3 and h2v[2] == "=":
            im.assoc[h2v[1]] = [t for t in h2[3:] if not is_op(t, ";")]
    return im


def derives(src, kind, name, what):
    m = re.search(r"pub\s+%s\s+%s\b" % (kind, name), src)
    if not m:
        return False
    before = src[:m.start()]
    cut = max(before.rfind("}"), before.rfind(";"))
    return re.search(r"#\[derive\([^)]*\b%s\b[^)]*\)\]" % what, before[cut + 1:]) is not None


# ------------------------------------------------------------------ the two files: items, macros expanded
def expand_macros(items, rel):
    """top-level items with every invocation `name!(args);` of a `macro_rules! name` of the file replaced by the items
    of the macro's body, `$x` replaced by the arguments.  -> items, {macro: number of invocations}"""
    macros, out, uses = {}, [], {}
    for head, body in items:
        hv = [v for _, v in head]
        if hv[:2] == ["macro_rules", "!"] and len(hv) == 3 and body is not None:
            rules = [r for r in split_items(body, "%s: macro %s" % (rel, hv[2]))]
            # one rule: ( $a : ty , .. ) => { body } [;]   -- split_items yields (head = matcher + `=>`, body)
            rules = [(h, b) for h, b in rules if h or b]
            if len(rules) != 1 or rules[0][1] is None:
                raise Structure("%s: macro %s does not have exactly one rule" % (rel, hv[2]))
            mh, mb = rules[0]
            mv = [v for _, v in mh]
            if mv[:1] != ["("] or mv[-2:] != [")", "=>"]:
                raise Structure("%s: macro %s: matcher `%s`" % (rel, hv[2], " ".join(mv)))
            params = []
            for part in split_commas(mh[1:-2]):
                pv = [v for _, v in part]
                if len(pv) != 4 or pv[0] != "$" or pv[2] != ":" or pv[3] != "ty":
                    raise Structure("%s: macro %s: parameter `%s`" % (rel, hv[2], " ".join(pv)))
                params.append(pv[1])
            macros[hv[2]] = (params, mb)
            uses[hv[2]] = 0
    for head, body in items:
        hv = [v for _, v in head]
        if hv[:2] == ["macro_rules", "!"]:
            continue
        if len(hv) >= 4 and hv[1] == "!" and hv[0] in macros and body is None and hv[2] == "(":
            params, mb = macros[hv[0]]
            inner = head[3:]
            while inner and (is_op(inner[-1], ";") or is_op(inner[-1], ")")):
                if is_op(inner[-1], ")"):
                    inner = inner[:-1]
                    break
                inner = inner[:-1]
            args = split_commas(inner)
            if len(args) != len(params):
                raise Structure("%s: %s! invoked with %d arguments" % (rel, hv[0], len(args)))
            sub = dict(zip(params, args))
            toks, k = [], 0
            while k < len(mb):
                if is_op(mb[k], "$") and k + 1 < len(mb) and mb[k + 1][0] == "id":
                    if mb[k + 1][1] not in sub:
                        raise Structure("%s: macro %s uses unknown `$%s`" % (rel, hv[0], mb[k + 1][1]))
                    toks.extend(sub[mb[k + 1][1]]); k += 2
                else:
                    toks.append(mb[k]); k += 1
            uses[hv[0]] += 1
            out.extend(split_items(toks, "%s: expansion of %s!" % (rel, hv[0])))
        else:
            out.append((head, body))
    return out, uses


class Catalog:
    """every function of the two files that is attempted: generated name -> (Impl, source name, header, body)"""
    def __init__(self):
        self.alias, self.fns, self.order, self.keys = {}, {}, [], {}
        self.enums, self.src, self.not_attempted, self.macro_uses = {}, {}, [], {}
        self.like_impls, self.index_assoc = {}, {}

    def norm(self, name):
        seen = set()
        while name in self.alias and name not in seen:
            seen.add(name); name = self.alias[name]
        return name

    def self_type(self, im):
        t = im.selfast
        if t[0] != "path":
            return None
        return TYPE_OF.get(self.norm(t[1][-1]))


def simple_type(cat, t, generics=None):
    """a type AST outside any function -> V | M | A | R | L | Spec | i32 | str | PairsStr | PairsSpec | EntStr | EntSpec | None"""
    if t[0] == "mutref":
        return None
    if t[0] == "tuple":
        parts = [simple_type(cat, x, generics) for x in t[1]]
        if parts == ["str", "i32"]:
            return "EntStr"
        if parts == ["Spec", "i32"]:
            return "EntSpec"
        return None
    last, args = cat.norm(t[1][-1]), t[2]
    if generics and t[1] == [last] and generics.get(last) == "ChemicalCompositionLike":
        return "L"
    if last in TYPE_OF:
        return TYPE_OF[last]
    if last == SPEC:
        return "Spec"
    if last in ("i32", "str") and not args:
        return last
    if last == "Vec" and len(args) == 1:
        a = simple_type(cat, args[0], generics)
        return {"EntStr": "PairsStr", "EntSpec": "PairsSpec"}.get(a)
    return None


def load_catalog():
    cat = Catalog()
    for rel in FILES:
        src, items = gen_comp.load(rel)
        cat.src[rel] = src
        items, uses = expand_macros(items, rel)
        cat.macro_uses.update(uses)
        impls = []
        for head, body in items:
            head = drop_vis(head)
            hv = [v for _, v in head]
            if hv[:1] == ["use"]:
                allt = head + (body or [])
                for k in range(1, len(allt) - 1):
                    if allt[k] == ("id", "as") and allt[k - 1][0] == "id" and allt[k + 1][0] == "id":
                        cat.alias[allt[k + 1][1]] = allt[k - 1][1]
            elif hv[:1] == ["enum"] and body is not None:
                cat.enums[hv[1]] = gen_espec.variants_of([t for t in body if t[0] != "life"])
            elif hv[:1] == ["impl"] and body is not None:
                impls.append(parse_impl(head, body, rel))
            elif hv[:1] == ["trait"] and body is not None and hv[1] == "ChemicalCompositionLike":
                for h2, b2 in split_items(body, "%s: trait" % rel):
                    if [v for _, v in h2][:1] == ["fn"] and b2 is not None:
                        cat.not_attempted.append("ChemicalCompositionLike::%s (provided method)" % h2[1][1])
        for im in impls:
            register(cat, im, rel)
    for e, want in (("ChemicalComposition", ["Vec ( ChemicalCompositionVec < > )", "Map ( ChemicalCompositionMap < > )"]),):
        got = [re.sub(r"\s+", " ", v) for v in cat.enums.get(e, [])]
        if got != want:
            raise Structure("abstract_composition.rs: enum %s has variants %r" % (e, got))
    if not any(k[0] == "inh" and k[1] == "A" for k in cat.keys):
        raise Structure("abstract_composition.rs: no inherent impl of ChemicalComposition")
    return cat


def register(cat, im, rel):
    T = cat.self_type(im)
    if T not in CONT:
        for fn, _, _ in im.fns:
            cat.not_attempted.append("%s for %s: %s" % (im.trait or "impl", im.selfast[1][-1] if im.selfast[0] == "path" else "?", fn))
        return
    p, tr = PFX[T], im.trait
    arg = simple_type(cat, im.targs[0], im.generics) if im.targs else None
    if tr == "Index":
        cat.index_assoc[(T, arg)] = im.assoc
    for fn, head, body in im.fns:
        g, key = None, None
        bare = fn.lstrip("_")
        if fn in NOT_ATTEMPTED:
            cat.not_attempted.append("%s::%s" % (p, fn))
            continue
        if tr is None and im.ref == "own":
            g, key = "%s_%s" % (p, bare), ("inh", T, fn)
        elif tr in ("Add", "Sub") and arg == "L" and fn == tr.lower() and im.ref in ("own", "ref"):
            g = "%s_%s_%s" % (p, fn, "ref" if im.ref == "ref" else "val")
            key = ("op", T, tr, im.ref)
        elif tr in ("AddAssign", "SubAssign") and arg == "L" and fn == tr[:3].lower() + "_assign" and im.ref in ("own", "mut"):
            g = "%s_%s%s" % (p, fn, "_mut" if im.ref == "mut" else "")
            key = ("op", T, tr, im.ref)
        elif tr == "Mul" and arg == "i32" and fn == "mul" and im.ref in ("own", "ref"):
            g, key = "%s_mul_%s" % (p, "ref" if im.ref == "ref" else "val"), ("op", T, tr, im.ref)
        elif tr == "MulAssign" and arg == "i32" and fn == "mul_assign" and im.ref in ("own", "mut"):
            g, key = "%s_mul_assign%s" % (p, "_mut" if im.ref == "mut" else ""), ("op", T, tr, im.ref)
        elif tr == "Neg" and fn == "neg" and im.ref in ("own", "ref"):
            g, key = "%s_neg%s" % (p, "_ref" if im.ref == "ref" else ""), ("op", T, tr, im.ref)
        elif tr == "From" and fn == "from" and im.ref == "own" and arg in CONT:
            g, key = "%s_from_%s" % (p, PFX[arg]), ("from", arg, T)
        elif tr == "From" and fn == "from" and im.ref == "own" and arg in ("PairsStr", "PairsSpec"):
            g, key = "%s_from_pairs_%s" % (p, arg[5:].lower()), ("from", arg, T)
        elif tr == "FromIterator" and fn == "from_iter" and im.ref == "own" and arg in ("EntStr", "EntSpec"):
            g, key = "%s_from_iter_%s" % (p, arg[3:].lower()), ("fromiter", arg, T)
        elif tr == "ChemicalCompositionLike" and im.ref == "own":
            g, key = "l%s_%s" % (p, bare), ("like", T, fn)
            cat.like_impls.setdefault(T, set()).add(fn)
        elif tr == "IntoIterator" and fn == "into_iter" and im.ref == "ref":
            g, key = "%s_into_iter" % p, ("intoiter", T)
        elif tr in ("Index", "IndexMut") and fn == {"Index": "index", "IndexMut": "index_mut"}[tr] and arg in ("Spec", "str") and im.ref == "own":
            g = fn + ("_str" if arg == "str" else "")
            g, key = "%s_%s" % (p, g), ("index", T, arg, tr == "IndexMut")
        elif tr == "Default" and fn == "default" and im.ref == "own":
            g, key = "%s_default" % p, ("default", T)
        elif tr == "PartialEq" and fn == "eq" and im.ref == "own":
            g, key = "%s_eq" % p, ("eq", T)
        if g is None:
            cat.not_attempted.append("%s%s for %s%s: %s" % (tr or "impl", "<%s>" % arg if arg else "", {"ref": "&", "mut": "&mut ", "own": ""}[im.ref], T, fn))
            continue
        if g in cat.fns:
            raise Structure("%s: `%s` defined twice" % (rel, g))
        cat.fns[g] = (im, fn, head, body, T)
        cat.keys[key] = g
        cat.order.append(g)


# ------------------------------------------------------------------ types
def show(ty):
    if isinstance(ty, tuple):
        return "%s<%s>" % (ty[0], ", ".join(show(t) for t in ty[1:] if t is not None))
    return {"V": "ChemicalCompositionVec", "M": "ChemicalCompositionMap", "A": "ChemicalComposition", "R": "ChemicalCompositionRef",
            "L": "C", None: "_"}.get(ty, ty)


def coq_ty(ty):
    if isinstance(ty, tuple):
        if ty[0] == "option":
            return "option %s" % atom(coq_ty(ty[1]))
        if ty[0] == "result":
            return "eres %s" % atom(coq_ty(ty[1]))
        if ty[0] == "place":
            return {"V": "nat", "M": "espec", "A": "aplace"}[ty[1]]
    return {"V": "ccomp F", "M": "ccomp F", "A": "acomp F", "R": "acomp F", "L": "clike F", "Spec": "espec", "i32": "Z",
            "str": "str", "usize": "nat", "bool": "bool", "f64": "F", "unit": "unit", "Ents": "sents", "IterMut": "unit",
            "PairsStr": "list (str * Z)", "PairsSpec": "sents", "EntStr": "(str * Z)", "EntSpec": "(espec * Z)"}[ty]


def same(a, b):
    if isinstance(a, tuple) and isinstance(b, tuple):
        return a[0] == b[0] and a[1] == b[1]
    if a == "PairsSpec" and b == "Ents" or a == "Ents" and b == "PairsSpec":
        return True
    return a == b


def conv_comp(ty, T):
    """a type of gen_comp.py -> a type of this translator (T: the container the function belongs to)"""
    if ty == "Self":
        return T
    if ty == "Place":
        return ("place", T)
    if ty == "HMap" or (isinstance(ty, tuple) and ty[0] in ("iter", "vec")):
        if ty == "HMap" or ty[1] == gen_comp.ENTRY:
            return "Ents"
        raise Refuse("a %s" % gen_comp.show(ty))
    if isinstance(ty, tuple) and ty[0] == "option":
        return ("option", conv_comp(ty[1], T))
    if ty in ("String",):
        return "str"
    if ty in ("Spec", "i32", "str", "usize", "bool", "f64", "unit", "IterMut"):
        return ty
    raise Refuse("a %s" % gen_comp.show(ty))


# ------------------------------------------------------------------ one function
class PFn:
    def __init__(self, g, world):
        self.g, self.world, self.cat = g, world, world.cat
        self.im, self.src_name, self.head, self.body_toks, self.T = self.cat.fns[g]
        self.ntemp, self.calls, self.loop_state, self.multi, self.in_closure = 0, [], None, 0, False

    def fresh(self, p):
        self.ntemp += 1
        return "%s_%d" % (p, self.ntemp)

    # ---- types
    def resolve(self, t):
        if t[0] == "mutref":
            r = self.resolve(t[1])
            if r == "i32":
                return ("place", self.T)
            if r in CONT:
                return r
            raise Refuse("`&mut %s`" % show(r))
        if t[0] == "tuple":
            s = simple_type(self.cat, t, self.im.generics)
            if s is None:
                raise Refuse("tuple type")
            return s
        segs, args = t[1], t[2]
        last = segs[-1]
        if segs == ["()"]:
            return "unit"
        if segs == ["Self"]:
            return self.T
        if len(segs) == 2 and segs[0] == "Self":
            toks = self.im.assoc.get(segs[1])
            if not toks and self.im.trait == "IndexMut" and self.im.targs:       # `Output` is that of the `impl Index`
                toks = self.cat.index_assoc.get((self.T, simple_type(self.cat, self.im.targs[0], self.im.generics)), {}).get(segs[1])
            if not toks:
                raise Refuse("`Self::%s` without `type %s = ..;`" % (segs[1], segs[1]))
            p = PParser(list(toks)); a = p.type_(); p.end()
            return self.resolve(a)
        if len(segs) == 1 and last in self.fn_generics:
            if self.im.trait == "FromIterator" and self.im.targs:
                a = simple_type(self.cat, self.im.targs[0], self.im.generics)
                if a in ("EntStr", "EntSpec"):
                    return "Pairs" + a[3:]
            raise Refuse("generic parameter `%s`" % last)
        s = simple_type(self.cat, t, self.im.generics)
        if s is not None:
            return s
        if last == "Option" and len(args) == 1:
            return ("option", self.resolve(args[0]))
        base = {"usize": "usize", "bool": "bool", "f64": "f64", "i32": "i32", "str": "str", "String": "str"}
        if len(segs) == 1 and last in base and not args:
            return base[last]
        raise Refuse("type `%s`" % "::".join(segs))

    # ---- names
    def declare(self, env, x, ty, mut=False, alias=None):
        if not re.fullmatch(r"[a-z_][a-z0-9_]*", x) or x == "_" or x.endswith("_gen") or re.fullmatch(r"[tkr]_\d+", x):
            raise Refuse("local name `%s` is not a plain lower-case identifier (or looks like a generated one)" % x)
        if x in env and env[x]["mut"]:
            raise Refuse("`%s` shadows a mutable local" % x)
        if mut and ty not in CONT:
            raise Refuse("`let mut %s` of type %s" % (x, show(ty)))
        env = dict(env)
        c = x + "_" if x in RESERVED else x
        if any(v["coq"] == c and n != x for n, v in env.items()):
            raise Refuse("local names collide after renaming (`%s`)" % c)
        env[x] = {"ty": ty, "coq": c, "mut": mut, "alias": alias}
        return env

    def pat_bind(self, pat, ty, env):
        if pat[0] == "pvar":
            env = self.declare(env, pat[2], ty, pat[1])
            return env[pat[2]]["coq"], env
        if pat[0] == "pwild":
            return "_", env
        if pat[0] == "ptuple" and len(pat[1]) == 2 and ty in ("EntStr", "EntSpec"):
            parts = []
            for p, t in zip(pat[1], ["str" if ty == "EntStr" else "Spec", "i32"]):
                txt, env = self.pat_bind(p, t, env)
                parts.append(txt)
            return "(" + ", ".join(parts) + ")", env
        raise Refuse("pattern for a value of type %s" % show(ty))

    @staticmethod
    def q(ptxt):
        return "'" + ptxt if ptxt.startswith("(") else ptxt

    # ---- exits
    def panic(self):
        if self.in_closure:
            return "PPanic"
        if self.loop_state is not None:
            return "inr %s" % self.loop_state
        return "(self, PPanic)" if self.mutself else "PPanic"

    def ret(self, t):
        return "(self, POk %s)" % atom(t) if self.mutself else "POk %s" % atom(t)

    def retk(self):
        def fn(t, ty):
            if ty is not None and isinstance(ty, tuple) and ty[0] == "place" and len(ty) == 3:
                if self.rty == ("place", "A") and ty[1] in ("V", "M"):
                    t, ty = "(%s %s)" % ("PVec" if ty[1] == "V" else "PMap", atom(t)), ("place", "A")
                else:
                    ty = ty[:2]
            if not same(ty, self.rty):
                raise Refuse("returns a %s, declared %s" % (show(ty), show(self.rty)))
            return self.ret(t)
        return fn

    @staticmethod
    def wrap(wr, text):
        for w in reversed(wr):
            text = w(text)
        return text

    def rebuild(self, env, x):
        """after the container variable x changed: rebuild the enum values it is the payload of"""
        out = ""
        while env[x]["alias"] is not None:
            parent, ctor = env[x]["alias"]
            out += "let %s := %s %s in\n" % (env[parent]["coq"], ctor, env[x]["coq"])
            x = parent
        return out

    # ---- calls
    def descriptor(self, key):
        """how to call a function: of gen/CompGen.v (key = ("comp", T, generated name)) or of this file (a generated name)"""
        if isinstance(key, tuple):
            _, T, g = key
            w = self.world.comp[T]
            w.attempt(g)
            if g in w.skipped:
                raise Refuse("uses `%s_%s` of gen/CompGen.v, which gen_comp.py skipped (%s)" % (PFX[T], g, w.skipped[g]))
            d = w.done[g]
            name = "%s_%s" % (PFX[T], g)
            if "c:" + name not in self.calls:
                self.calls.append("c:" + name)
            return {"name": name + "_gen", "pre": "N PERIODIC_TABLE uni_alphabetic" + (" shuffle" if T == "M" else ""),
                    "selfkind": d["selfkind"], "params": [conv_comp(t, T) for _, t in d["params"]], "rty": conv_comp(d["rty"], T)}
        if key == self.g:
            raise Refuse("recursive call")
        d = self.world.sig(key)
        if key not in self.calls:
            self.calls.append(key)
        return {"name": key + "_gen", "pre": PRE, "selfkind": d["selfkind"], "params": d["params"], "rty": d["rty"]}

    def inherent(self, T, m, argtys):
        """the inherent method m of the container type T -> key, or None"""
        if T in ("V", "M"):
            w = self.world.comp[T]
            cands = w.by_src.get(m, [])
            if not cands:
                return None
            if len(cands) > 1:
                is_str = bool(argtys) and argtys[0] == "str"
                cands = [c for c in cands if c.endswith("_str") == is_str]
            if len(cands) != 1:
                raise Refuse("cannot tell which `%s` is called" % m)
            return ("comp", T, cands[0])
        if m in ("index", "index_mut"):
            return self.cat.keys.get(("index", T, "str" if argtys and argtys[0] == "str" else "Spec", m == "index_mut"))
        return self.cat.keys.get(("inh", T, m))

    def do_call(self, key, recv, args, env, wr, want_args=None):
        """emit the call; recv: None | a variable name of env (the receiver).  -> (text, type)"""
        d = self.descriptor(key)
        if wr is None:
            raise Refuse("a call of `%s` (it may panic) in a closure or a conditionally evaluated operand" % d["name"])
        if len(d["params"]) != len(args):
            raise Refuse("call of %s with %d arguments" % (d["name"], len(args)))
        at = []
        self.multi += len(args) > 1
        try:
            for a, pt in zip(args, d["params"]):
                t, ty = self.ex(a, env, pt, wr)
                if isinstance(ty, tuple) and ty[0] == "place":
                    ty = ty[:2]
                if not same(ty, pt):
                    raise Refuse("argument of %s has type %s, the parameter has %s" % (d["name"], show(ty), show(pt)))
                at.append(atom(t))
        finally:
            self.multi -= len(args) > 1
        pan = None
        if d["selfkind"] == "mut":
            if recv is None or not env[recv]["mut"]:
                raise Refuse("the `&mut self` function `%s` is called on something that is not a mutable container variable" % d["name"])
            if self.multi:
                raise Refuse("a `&mut self` call inside an argument list")
            x = env[recv]["coq"]
            r, t = self.fresh("r"), self.fresh("t")
            call = " ".join([d["name"], d["pre"], x] + at)
            reb = self.rebuild(env, recv)
            if self.loop_state is not None and self.loop_state != env[self.loop_var]["coq"]:
                raise Refuse("internal: loop state")
            pan = self.panic()
            wr.append(lambda rest: "let '(%s, %s) := %s in\n%smatch %s with\n| PPanic => %s\n| POk %s =>\n%s\nend" % (
                x, r, call, reb, r, pan, t, ind(rest)))
            rty = d["rty"]
            if isinstance(rty, tuple) and rty[0] == "place":
                rty = rty + (recv,)
            return t, rty
        call = " ".join([d["name"], d["pre"]] + ([atom(env[recv]["coq"])] if recv is not None else []) + at)
        if (d["selfkind"] is None) != (recv is None):
            raise Refuse("`%s` called %s a receiver" % (d["name"], "without" if recv is None else "with"))
        t, pan = self.fresh("t"), self.panic()
        wr.append(lambda rest: "match %s with\n| PPanic => %s\n| POk %s =>\n%s\nend" % (call, pan, t, ind(rest)))
        return t, d["rty"]

    def derives(self, T, what):
        if T in ("V", "M"):
            rel, name = ("composition_list.rs", "ChemicalCompositionVec") if T == "V" else ("composition_map.rs", "ChemicalCompositionMap")
            return derives(self.world.comp_src[T], "struct", name, what)
        name = "ChemicalComposition" if T == "A" else "ChemicalCompositionRef"
        return derives(self.cat.src["abstract_composition.rs"], "enum", name, what)

    def type_name(self, segs):
        """a path prefix naming a type -> V | M | A | R | Ents | IterMut | Spec | None"""
        if segs == ["Self"]:
            return self.T
        if len(segs) == 1:
            n = self.cat.norm(segs[0])
            if n in TYPE_OF:
                return TYPE_OF[n]
            if n == SPEC:
                return "Spec"
        return None

    def convert(self, text, ty, want):
        """`e.into()` / `T::from(e)`"""
        if want is None or want not in CONT:
            raise Refuse("`.into()` where the wanted type is not determined")
        if ty == want:
            return None
        key = self.cat.keys.get(("from", ty, want))
        if key is None:
            raise Refuse("no `impl From<%s> for %s` in props.rs / abstract_composition.rs" % (show(ty), show(want)))
        return key

    # ---- expressions
    def ex(self, e, env, want=None, wr=None):
        k = e[0]
        if k in ("paren", "ref", "deref", "refmut"):
            return self.ex(e[1], env, want, wr)
        if k == "int":
            if (e[2] or want) != "i32" and want is not None:
                raise Refuse("integer literal where a %s is expected" % show(want))
            return "%d%%Z" % int(e[1]), "i32"
        if k == "bool":
            return e[1], "bool"
        if k == "unit":
            return "tt", "unit"
        if k == "var":
            if e[1] in env:
                return env[e[1]]["coq"], env[e[1]]["ty"]
            raise Refuse("unknown name `%s`" % e[1])
        if k == "neg":
            t, ty = self.ex(e[1], env, "i32", wr)
            if ty != "i32":
                raise Refuse("unary minus on a %s" % show(ty))
            return "(- %s)%%Z" % atom(t), ty
        if k == "bin":
            a, ta = self.ex(e[2], env, "i32", wr)
            b, tb = self.ex(e[3], env, "i32", wr)
            if ta != "i32" or tb != "i32" or e[1] not in "+-*":
                raise Refuse("`%s` on %s and %s" % (e[1], show(ta), show(tb)))
            return "(%s %s %s)%%Z" % (atom(a), e[1], atom(b)), "i32"
        if k == "cmp":
            a, ta = self.ex(e[2], env, None, wr)
            b, tb = self.ex(e[3], env, ta, wr)
            if e[1] not in ("==", "!=") or ta != tb or ta not in ("usize", "i32", "bool", "Spec"):
                raise Refuse("`%s` on %s and %s" % (e[1], show(ta), show(tb)))
            if ta == "Spec":
                ew = self.world.espec
                if ew is None or "eq" not in ew.done:
                    raise Refuse("uses `==` of ElementSpecification, which gen_espec.py did not translate")
                if "e:eq" not in self.calls:
                    self.calls.append("e:eq")
                t = "(eq_gen PERIODIC_TABLE uni_alphabetic %s %s)" % (atom(a), atom(b))
            else:
                t = "(%s %s %s)" % ({"usize": "Nat.eqb", "i32": "Z.eqb", "bool": "Bool.eqb"}[ta], atom(a), atom(b))
            return (t if e[1] == "==" else "(negb %s)" % t), "bool"
        if k == "logic" and e[1] == "&&":
            a, ta = self.ex(e[2], env, "bool", wr)
            b, tb = self.ex(e[3], env, "bool", None)
            if ta != "bool" or tb != "bool":
                raise Refuse("`&&` on %s and %s" % (show(ta), show(tb)))
            return "(andb %s %s)" % (atom(a), atom(b)), "bool"
        if k == "call":
            return self.call(e, env, want, wr)
        if k == "mcall":
            return self.mcall(e, env, want, wr)
        if k in ("if", "iflet", "match", "blockexpr"):
            raise Refuse("a branching expression inside an expression")
        if k == "closure":
            raise Refuse("a closure that is not the argument of for_each")
        if k == "macro":
            raise Refuse("macro `%s!`" % e[1])
        raise Refuse("expression form %r" % k)

    def call(self, e, env, want, wr):
        path, args = e[1], e[2]
        if len(path) == 2:
            T = self.type_name(path[:1])
            f = path[1]
            if T in ("A", "R") and (T, f) in CTOR and len(args) == 1:
                c, pty = CTOR[(T, f)]
                t, ty = self.ex(args[0], env, pty, wr)
                if ty != pty:
                    raise Refuse("`%s(<%s>)`" % ("::".join(path), show(ty)))
                return "(%s %s)" % (c, atom(t)), T
            if T in ("Ents", "IterMut") and f in ("Vec", "Map") and len(args) == 1:
                t, ty = self.ex(args[0], env, T, wr)
                if ty != T:
                    raise Refuse("`%s(<%s>)`" % ("::".join(path), show(ty)))
                return t, T
            if T in ("V", "M") and f == "default" and not args:
                if not self.derives(T, "Default"):
                    raise Refuse("`%s::default()` but the type does not derive Default" % path[0])
                return "(mkCC [] None)", T
            if T in ("A", "R") and f == "default" and not args:
                key = self.cat.keys.get(("default", T))
                if key is None:
                    raise Refuse("no `impl Default for %s`" % show(T))
                return self.do_call(key, None, [], env, wr)
            if T in CONT and f == "from" and len(args) == 1:
                t, ty = self.ex(args[0], env, None, wr)
                key = self.convert(t, ty, T)
                if key is None:
                    return t, ty
                return self.do_call_text(key, [(t, ty)], env, wr)
            if T in CONT:
                key = self.inherent(T, f, [])
                if key is not None:
                    return self.do_call(key, None, args, env, wr)
            if T == "Spec" and f == "parse" and len(args) == 1:
                ew = self.world.espec
                if ew is None or "parse" not in ew.done:
                    raise Refuse("uses ElementSpecification::parse, which gen_espec.py did not translate")
                if "e:parse" not in self.calls:
                    self.calls.append("e:parse")
                t, ty = self.ex(args[0], env, "str", wr)
                if ty != "str":
                    raise Refuse("ElementSpecification::parse(<%s>)" % show(ty))
                return "(parse_gen PERIODIC_TABLE uni_alphabetic %s)" % atom(t), ("result", "Spec")
        raise Refuse("call of `%s`" % "::".join(path))

    def do_call_text(self, key, targs, env, wr):
        """a call without receiver whose arguments are already translated"""
        d = self.descriptor(key)
        if wr is None:
            raise Refuse("a call of `%s` (it may panic) in a closure" % d["name"])
        if len(d["params"]) != len(targs) or d["selfkind"] is not None:
            raise Refuse("call of %s" % d["name"])
        for (t, ty), pt in zip(targs, d["params"]):
            if not same(ty, pt):
                raise Refuse("argument of %s has type %s, the parameter has %s" % (d["name"], show(ty), show(pt)))
        call = " ".join([d["name"], d["pre"]] + [atom(t) for t, _ in targs])
        t, pan = self.fresh("t"), self.panic()
        wr.append(lambda rest: "match %s with\n| PPanic => %s\n| POk %s =>\n%s\nend" % (call, pan, t, ind(rest)))
        return t, d["rty"]

    def mcall(self, e, env, want, wr):
        _, recv, m, turbo, args = e
        n = len(args)
        core = unparen(recv)
        rvar = core[1] if core[0] == "var" and core[1] in env else None
        if rvar is not None:
            a, ta = env[rvar]["coq"], env[rvar]["ty"]
        else:
            a, ta = self.ex(recv, env, None, wr)
        if ta in CONT:
            if m == "clone" and n == 0:
                if not self.derives(ta, "Clone"):
                    raise Refuse("`.clone()` of a %s, which does not derive Clone" % show(ta))
                return a, ta
            if m == "into" and n == 0:
                key = self.convert(a, ta, want)
                if key is None:
                    return a, ta
                return self.do_call_text(key, [(a, ta)], env, wr)
            argtys = []
            if n and m in ("index", "index_mut", "get_str", "inc_str", "find_str"):
                argtys = [self.peek_type(args[0], env)]
            key = self.inherent(ta, m, argtys)
            if key is None:
                raise Refuse("no inherent method `%s` of %s is translated" % (m, show(ta)))
            if rvar is None:
                raise Refuse("a method of a container called on something that is not a variable")
            return self.do_call(key, rvar, args, env, wr)
        if ta == "L":
            if rvar is None:
                raise Refuse("a method of a generic operand called on something that is not a variable")
            return self.do_call("like_" + m.lstrip("_"), rvar, args, env, wr)
        if ta in ("Ents", "PairsStr", "PairsSpec"):
            if m in ("iter", "into_iter", "cloned", "copied") and n == 0:
                return a, ta
            if m == "len" and n == 0:
                return "(length %s)" % atom(a), "usize"
            if m in ("all", "any") and n == 1 and args[0][0] == "closure":
                return self.quantifier(m, a, ta, args[0], env, wr)
            if m == "collect" and n == 0:
                if want not in CONT:
                    raise Refuse("`.collect()` where the wanted type is not determined")
                key = self.cat.keys.get(("fromiter", "Ent" + ta[5:] if ta != "Ents" else "EntSpec", want))
                if key is None:
                    raise Refuse("no `impl FromIterator<%s> for %s`" % (show(ta), show(want)))
                return self.do_call_text(key, [(a, "PairsSpec" if ta == "Ents" else ta)], env, wr)
        if isinstance(ta, tuple) and ta[0] == "result" and m in ("unwrap", "expect") and n == (0 if m == "unwrap" else 1):
            if wr is None:
                raise Refuse("`.unwrap()` in a closure")
            t, pan = self.fresh("t"), self.panic()
            wr.append(lambda rest: "match %s with\n| EOk %s =>\n%s\n| _ => %s\nend" % (strip(a), t, ind(rest), pan))
            return t, ta[1]
        raise Refuse("method `.%s(..)` on a %s" % (m, show(ta)))

    def quantifier(self, m, a, ta, clos, env, wr):
        """`it.all(|x| e)` / `it.any(|x| e)`: forallb / existsb when e has no effect; `all` with a body that calls
        functions (they may panic) -> all_p, evaluated up to the first false"""
        _, pat, body = clos
        item = {"Ents": "EntSpec", "PairsSpec": "EntSpec", "PairsStr": "EntStr"}[ta]
        ptxt, cenv = self.pat_bind(pat, item, env)
        while body[0] == "blockexpr" and not body[1][0] and body[1][1] is not None:
            body = body[1][1]
        saved, calls = self.ntemp, list(self.calls)
        try:
            t, ty = self.ex(body, cenv, "bool", None)
            if ty != "bool":
                raise Refuse("`.%s(..)` with a closure to %s" % (m, show(ty)))
            return "(%s (fun %s => %s) %s)" % ("forallb" if m == "all" else "existsb", self.q(ptxt), strip(t), atom(a)), "bool"
        except Refuse:
            self.ntemp, self.calls = saved, calls
            if m != "all" or wr is None or self.in_closure or self.loop_state is not None:
                raise
        self.in_closure = True
        try:
            def fin(t, ty):
                if ty != "bool":
                    raise Refuse("`.all(..)` with a closure to %s" % show(ty))
                return "POk %s" % atom(t)
            btext = self.value(body, cenv, "bool", fin)
        finally:
            self.in_closure = False
        t, pan = self.fresh("t"), self.panic()
        wr.append(lambda rest: "match all_p (fun %s =>\n%s) %s with\n| PPanic => %s\n| POk %s =>\n%s\nend" % (
            self.q(ptxt), ind(btext, 4), atom(a), pan, t, ind(rest)))
        return t, "bool"

    def peek_type(self, e, env):
        saved, calls = self.ntemp, list(self.calls)
        try:
            return self.ex(e, env, None, [])[1]
        except Refuse:
            return None
        finally:
            self.ntemp, self.calls = saved, calls

    # ---- statements
    def value(self, e, env, want, k):
        core = e
        while core[0] == "paren":
            core = core[1]
        kind = core[0]
        if kind == "match":
            return self.match_(core, env, want, k)
        if kind == "blockexpr":
            return self.seq(core[1][0], core[1][1], env, want, k)
        if kind == "if":
            _, c, b1, b2 = core
            if b2 is None:
                raise Refuse("`if` without `else`")
            wr = []
            ct, cty = self.ex(c, env, "bool", wr)
            if cty != "bool":
                raise Refuse("`if` on a %s" % show(cty))
            t1 = self.seq(b1[0], b1[1], env, want, k)
            t2 = self.seq(b2[0], b2[1], env, want, k)
            return self.wrap(wr, "if %s then\n%s\nelse\n%s" % (strip(ct), ind(t1), ind(t2)))
        if kind == "return":
            if self.loop_state is not None:
                raise Refuse("`return` inside a loop")
            if core[1] is None:
                return self.retk()("tt", "unit")
            return self.value(core[1], env, self.rty, self.retk())
        if kind == "assign":
            return self.assign(core, env, k)
        if kind == "mcall" and core[2] == "for_each" and len(core[4]) == 1 and core[4][0][0] == "closure":
            clos = core[4][0]
            return self.loop(clos[1], core[1], clos[2], env, lambda env2: k("tt", "unit"))
        wr = []
        t, ty = self.ex(e, env, want, wr)
        return self.wrap(wr, k(strip(t), ty))

    def assign(self, s, env, k):
        _, op, lhs, rhs = s
        l = lhs
        while l[0] == "paren":
            l = l[1]
        target = unparen(l)
        if target[0] == "var" and target[1] in env and env[target[1]]["ty"] in CONT and op in ("*=", "+=", "-="):
            x = target[1]
            tr = {"*=": "MulAssign", "+=": "AddAssign", "-=": "SubAssign"}[op]
            key = self.cat.keys.get(("op", env[x]["ty"], tr, "own"))
            if key is None:
                raise Refuse("no `impl %s for %s`" % (tr, show(env[x]["ty"])))
            wr = []
            self.do_call(key, x, [rhs], env, wr)
            return self.wrap(wr, k("tt", "unit"))
        if target[0] == "mcall" and op in ("=", "+=", "-=", "*="):
            wr = []
            rt, rty = self.ex(rhs, env, "i32", wr)       # the right operand of a compound assignment on i32 is evaluated first
            if rty != "i32":
                raise Refuse("`*place %s <%s>`" % (op, show(rty)))
            p, pty = self.ex(l, env, None, wr)
            if not (isinstance(pty, tuple) and pty[0] == "place" and len(pty) == 3):
                raise Refuse("assignment through a %s" % show(pty))
            x, old = pty[2], self.fresh("t")
            new = rt if op == "=" else "(%s %s %s)%%Z" % (old, op[0], atom(rt))
            upd = {"V": "v_place_upd", "M": "m_place_upd", "A": "a_place_upd"}[pty[1]]
            if not env[x]["mut"]:
                raise Refuse("a write through a place of an immutable container")
            text = "let %s := %s (fun %s => %s) %s %s in\n%s%s" % (
                env[x]["coq"], upd, old if op != "=" else "_", strip(new), atom(p), env[x]["coq"], self.rebuild(env, x), k("tt", "unit"))
            return self.wrap(wr, text)
        raise Refuse("assignment to this place")

    def match_(self, core, env, want, k):
        _, scrut, arms = core
        sc = unparen(scrut)
        if not (sc[0] == "var" and sc[1] in env and env[sc[1]]["ty"] in ("A", "R")):
            raise Refuse("`match` on something else than a variable of the enum type")
        sv, T = sc[1], env[sc[1]]["ty"]
        out, seen = [], []
        for pat, body in arms:
            if pat[0] != "pctor2":
                raise Refuse("an arm of a `match` on the enum that is not `E::Vec(x)` / `E::Map(x)`")
            segs, sub = pat[1], pat[2]
            if self.type_name(segs[:-1]) != T or (T, segs[-1]) not in CTOR:
                raise Refuse("pattern `%s(..)` for a value of type %s" % ("::".join(segs), show(T)))
            c, pty = CTOR[(T, segs[-1])]
            if c in seen:
                raise Refuse("two arms for %s" % c)
            seen.append(c)
            if sub[0] == "pwild":
                aenv, b = env, "_"
            elif sub[0] == "pvar" and not sub[1]:
                aenv = self.declare(env, sub[2], pty, env[sv]["mut"], (sv, c) if env[sv]["mut"] else None)
                b = aenv[sub[2]]["coq"]
            else:
                raise Refuse("the field pattern of `%s(..)`" % "::".join(segs))
            if body[0] == "assign":
                body = ("blockexpr", ([body], None))
            out.append("| %s %s =>\n%s" % (c, b, ind(self.value(body, aenv, want, k))))
        if sorted(seen) != ["AMap", "AVec"]:
            raise Refuse("`match` on the enum without an arm for each of Vec, Map")
        return "match %s with\n%s\nend" % (env[sv]["coq"], "\n".join(out))

    def mut_receivers(self, x, env, acc):
        if isinstance(x, tuple):
            if x and x[0] == "mcall":
                r = unparen(x[1])
                if r[0] == "var" and r[1] in env and env[r[1]]["mut"] and env[r[1]]["ty"] in CONT:
                    acc.add(r[1])
            if x and x[0] == "assign":
                r = unparen(x[2])
                if r[0] == "var" and r[1] in env and env[r[1]]["mut"] and env[r[1]]["ty"] in CONT:
                    acc.add(r[1])
            for c in x:
                self.mut_receivers(c, env, acc)
        elif isinstance(x, list):
            for c in x:
                self.mut_receivers(c, env, acc)
        return acc

    def loop(self, pat, it, body, env, rest):
        """`for pat in it { body }` / `it.for_each(|pat| body)`"""
        if self.loop_state is not None:
            raise Refuse("nested loops")
        wr = []
        itext, ity = self.ex(it, env, None, wr)
        item = {"Ents": "EntSpec", "PairsSpec": "EntSpec", "PairsStr": "EntStr"}.get(ity)
        if item is None:
            raise Refuse("a loop over a %s" % show(ity))
        cands = sorted(self.mut_receivers(body, env, set()))
        if len(cands) != 1:
            raise Refuse("a loop whose body changes %s" % ("no container" if not cands else "several containers"))
        sv = cands[0]
        if env[sv]["alias"] is not None:
            raise Refuse("a loop that changes the payload of an enum value")
        st = env[sv]["coq"]
        ptxt, benv = self.pat_bind(pat, item, env)
        self.loop_state, self.loop_var = st, sv
        try:
            if body[0] == "blockexpr":
                btext = self.seq(body[1][0], body[1][1], benv, None, lambda t, ty: "inl %s" % st)
            else:
                btext = self.value(body, benv, None, lambda t, ty: "inl %s" % st)
        finally:
            self.loop_state = None
        text = "match for_each_p %s (fun %s %s =>\n%s) %s with\n| inl %s =>\n%s\n| inr %s =>\n%s\nend" % (
            atom(itext), self.q(ptxt), st, ind(btext, 4), st, st, ind(rest(env)), st, ind(self.panic()))
        return self.wrap(wr, text)

    def seq(self, ss, tail, env, want, k):
        if not ss:
            if tail is None:
                return k("tt", "unit")
            return self.value(tail, env, want, k)
        s, more = ss[0], ss[1:]
        again = lambda env2: self.seq(more, tail, env2, want, k)
        if s[0] == "let":
            _, pat, ty, e = s
            wty = self.resolve(ty) if ty is not None else None
            if pat[0] != "pvar":
                raise Refuse("`let` with a pattern")

            def bind(t, tyv):
                if isinstance(tyv, tuple) and tyv[0] == "place":
                    raise Refuse("a `&mut i32` bound to a name")
                if wty is not None and not same(wty, tyv):
                    raise Refuse("let: declared %s, initialiser has %s" % (show(wty), show(tyv)))
                ptxt, env2 = self.pat_bind(pat, tyv, env)
                if ptxt == t:
                    return again(env2)
                return "let %s := %s in\n%s" % (ptxt, t, again(env2))
            return self.value(e, env, wty, bind)
        if s[0] == "ret":
            if more or tail is not None:
                raise Refuse("statements after `return`")
            return self.value(("return", s[1]), env, None, k)
        if s[0] == "expr":
            return self.value(s[1], env, None, lambda t, ty: again(env))
        if s[0] == "assign":
            return self.assign(s, env, lambda t, ty: again(env))
        if s[0] == "for":
            return self.loop(s[1], s[2], ("blockexpr", s[3]), env, again)
        raise Refuse("statement form %r" % s[0])

    # ---- the definition
    def translate(self):
        name, sk, params, rty, gens = parse_sig(self.head)
        self.fn_generics = gens
        ref = self.im.ref
        # what `self` is: the T itself; can the function change the caller's T?
        if sk is None:
            kind = None
        elif ref == "own":
            kind = {"own": "own", "ownmut": "ownmut", "ref": "ref", "mut": "mut"}[sk]
        elif ref == "ref":
            kind = "ref"
        else:
            kind = "ref" if sk == "ref" else "mut"
        self.mutself = kind == "mut"
        env, binders = {}, []
        if kind is not None:
            env["self"] = {"ty": self.T, "coq": "self", "mut": kind in ("mut", "ownmut"), "alias": None}
            binders.append("(self : %s)" % coq_ty(self.T))
        ptys = []
        for a, ty in params:
            t = self.resolve(ty)
            if isinstance(t, tuple) and t[0] == "place":
                raise Refuse("a `&mut i32` parameter")
            env = self.declare(env, a, t, mut=(ty[0] == "mutref" and t in CONT))
            if ty[0] == "mutref":
                raise Refuse("a `&mut` container parameter")
            binders.append("(%s : %s)" % (env[a]["coq"], coq_ty(t)))
            ptys.append(t)
        self.rty = self.resolve(rty) if rty is not None else "unit"
        self.params = ptys
        ast = PParser([("op", "{")] + list(self.body_toks) + [("op", "}")]).block()
        text = self.seq(ast[0], ast[1], env, self.rty, self.retk())
        rt = "pres %s" % atom(coq_ty(self.rty))
        if self.mutself:
            rt = "%s * %s" % (coq_ty(self.T), rt)
        self.selfkind = None if kind is None else ("mut" if self.mutself else "ref")
        return "Definition %s_gen {F : Type} (N : Num F) (PERIODIC_TABLE : ptable) (uni_alphabetic : char -> bool) (shuffle : sents -> sents)%s : %s :=\n%s." % (
            self.g, "".join(" " + b for b in binders), rt, ind(text))


# ------------------------------------------------------------------ all functions, translated on demand
class World:
    def __init__(self, cat, comp, comp_src, espec):
        self.cat, self.comp, self.comp_src, self.espec = cat, comp, comp_src, espec
        self.done, self.skipped, self.emitted, self.active = {}, {}, [], []
        self.wanted = list(cat.order)

    def attempt(self, g):
        if g in self.done or g in self.skipped:
            return
        if g.startswith("like_"):
            return self.attempt_like(g)
        if g not in self.cat.fns:
            self.skipped[g] = "no such function in the source"
            return
        if g in self.active:
            raise Refuse("recursive call cycle through `%s`" % g)
        self.active.append(g)
        try:
            f = PFn(g, self)
            text = f.translate()
            self.done[g] = {"selfkind": f.selfkind, "params": f.params, "rty": f.rty, "text": text, "calls": f.calls}
            self.emitted.append(g)
        except Refuse as e:
            self.skipped[g] = str(e)
        finally:
            self.active.pop()

    def attempt_like(self, g):
        """the method m of a generic `C: ChemicalCompositionLike`: a dispatch over the impls for the three types"""
        m = g[5:]
        try:
            sigs = []
            for T in ("V", "M", "A"):
                key = None
                for cand in (m, "_" + m):
                    key = key or self.cat.keys.get(("like", T, cand))
                if key is None:
                    raise Refuse("no `impl ChemicalCompositionLike for %s` with a method `%s`" % (show(T), m))
                sigs.append((T, key, self.sig(key)))
            s0 = sigs[0][2]
            for T, key, s in sigs:
                if s["selfkind"] != "ref" or s["params"] != s0["params"] or s["rty"] != s0["rty"]:
                    raise Refuse("the impls of ChemicalCompositionLike::%s differ in their signatures, or take `&mut self`" % m)
            ps = ["a_%d" % i for i in range(len(s0["params"]))]
            binders = "".join(" (%s : %s)" % (p, coq_ty(t)) for p, t in zip(ps, s0["params"]))
            arms = []
            for (T, key, s), (c, x) in zip(sigs, (("LVec", "c"), ("LMap", "c"), ("LEnum", "a"))):
                arms.append("  | %s %s => %s_gen %s %s%s" % (c, x, key, PRE, x, "".join(" " + p for p in ps)))
            text = "Definition %s_gen {F : Type} (N : Num F) (PERIODIC_TABLE : ptable) (uni_alphabetic : char -> bool) (shuffle : sents -> sents) (self : clike F)%s : pres %s :=\n  match self with\n%s\n  end." % (
                g, binders, atom(coq_ty(s0["rty"])), "\n".join(arms))
            self.done[g] = {"selfkind": "ref", "params": s0["params"], "rty": s0["rty"], "text": text, "calls": [k for _, k, _ in sigs]}
            self.emitted.append(g)
        except Refuse as e:
            self.skipped[g] = str(e)

    def sig(self, g):
        self.attempt(g)
        if g in self.skipped:
            raise Refuse("uses `%s`, which is skipped (%s)" % (g, self.skipped[g]))
        return self.done[g]


def translate():
    _, cworlds = gen_comp.translate()
    comp = {"V": cworlds[0], "M": cworlds[1]}
    comp_src = {"V": gen_comp.load("composition_list.rs")[0], "M": gen_comp.load("composition_map.rs")[0]}
    cat = load_catalog()
    w = World(cat, comp, comp_src, comp["V"].espec)
    for g in w.wanted:
        w.attempt(g)
    likes = [g for g in w.emitted if g.startswith("like_")] + [g for g in w.skipped if g.startswith("like_")]
    w.wanted = w.wanted + [g for g in likes if g not in w.wanted]
    out = ["(* GENERATED by tools/gen_props.py from src/props.rs (macros expanded: %s) and src/abstract_composition.rs -- do not edit *)" % (
               ", ".join("%s! x %d" % (m, n) for m, n in sorted(cat.macro_uses.items())) or "none"),
           "From Coq Require Import List ZArith NArith Bool Arith.",
           "From CE Require Import Num Str TableTypes TableModel Comp ESpec ImpL ImpE ImpC ImpP ESpecGen CompGen.",
           "Import ListNotations.", "Local Open Scope list_scope.", ""]
    for g in w.emitted:
        out.append(w.done[g]["text"])
        out.append("")
    q = lambda names: "[" + "; ".join('"%s"' % n for n in names) + "]%string"
    out.append("(* what the translator did with the functions it was asked for *)")
    out.append("From Coq Require Import String.")
    out.append("Definition props_gen_translated : list string := %s." % q([g for g in w.wanted if g in w.done]))
    out.append("Definition props_gen_skipped : list string := %s." % q([g for g in w.wanted if g in w.skipped]))
    out.append("Definition props_gen_not_attempted : list string := %s." % q(cat.not_attempted))
    return "\n".join(out) + "\n", w


# ------------------------------------------------------------------ which ties of PropsTie.v still hold
def check_ties(w):
    """compile PropsTie.v block by block: common text + the block of one function + the blocks it needs"""
    text = open(TIE, encoding="utf-8").read()
    blocks, common, pos = {}, [], 0
    for m in re.finditer(r"\(\* BEGIN TIE (\w+)(?: \(needs: ([\w ]*)\))? \*\)\n(.*?)\(\* END TIE \1 \*\)\n", text, re.S):
        common.append(text[pos:m.start()])
        common.append("@@%s@@" % m.group(1))
        blocks[m.group(1)] = ((m.group(2) or "").split(), m.group(3))
        pos = m.end()
    common.append(text[pos:])

    def closure(n, acc):
        for d in blocks[n][0]:
            if d in blocks and d not in acc:
                closure(d, acc)
        if n not in acc:
            acc.append(n)
        return acc
    run = lambda args, cwd: subprocess.run(args, cwd=cwd, stdout=subprocess.PIPE, stderr=subprocess.STDOUT, universal_newlines=True)
    for f in ("model/ImpP.v", "gen/PropsGen.v"):
        r = run(["timeout", "600", "coqc", "-Q", ".", "CE", "-w", "-notation-overridden", f], COQ)
        if r.returncode != 0:
            print("tie check: %s does not compile\n%s" % (f, r.stdout))
            return 1
    only = [a for a in sys.argv[1:] if not a.startswith("--")]
    bad = 0
    with tempfile.TemporaryDirectory() as tmp:
        jobs = []
        for n in w.wanted:
            if only and n not in only:
                continue
            if n in w.skipped:
                jobs.append((n, "SKIPPED (%s)" % w.skipped[n], None))
                continue
            if n not in blocks:
                jobs.append((n, "no block in PropsTie.v", None))
                continue
            keep = closure(n, [])
            missing = [d for d in keep if d in w.skipped]
            if missing:
                jobs.append((n, "SKIPPED (needs %s, which is skipped)" % ", ".join(missing), None))
                continue
            body = "".join(c if not c.startswith("@@") else (blocks[c[2:-2]][1] if c[2:-2] in keep else "") for c in common)
            path = os.path.join(tmp, "PropsTie_%s.v" % n)
            open(path, "w").write(body)
            jobs.append((n, None, path))

        def one(job):
            n, verdict, path = job
            if verdict is not None:
                return n, verdict
            r = run(["timeout", "600", "coqc", "-Q", COQ, "CE", "-w", "-notation-overridden", path], tmp)
            if r.returncode == 0:
                return n, "OK"
            msg = [l for l in r.stdout.splitlines() if l.strip()]
            return n, "FAILED (%s)" % " | ".join(msg[-3:])[:300]
        from concurrent.futures import ThreadPoolExecutor
        with ThreadPoolExecutor(max_workers=int(os.environ.get("VERIF_JOBS", "8"))) as ex:
            for n, verdict in ex.map(one, jobs):
                bad += verdict != "OK"
                print("tie %s: %s" % (n, verdict))
    return 1 if bad else 0


def main():
    try:
        text, w = translate()
    except (Structure, OSError) as e:
        print("gen_props: refused: %s" % e)
        return 3
    old = open(OUT).read() if os.path.exists(OUT) else None
    if old != text:
        open(OUT, "w").write(text)
    nskip = 0
    for g in w.wanted:
        if g in w.skipped:
            nskip += 1
            print("skipped %s: %s" % (g, w.skipped[g]))
    print("gen_props: %d functions translated (%s), %d skipped%s" % (
        len(w.emitted), ", ".join(w.emitted), nskip, "" if old == text else " [rewritten]"))
    if "--ties" in sys.argv[1:]:
        return check_ties(w)
    return 0


if __name__ == "__main__":
    sys.exit(main())
